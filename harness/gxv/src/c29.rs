//! C29 Packet-line framing is exact and never panics.
//! Oracles:
//!  * S  every line written by gitoxide's encoders / `Writer` equals an independent framing model
//!       (4 lower-case hex digits of len+4, payload) and decodes back to the same line through
//!       `decode::{streaming, all_at_once}` and `StreamingPeekableIter`;
//!  * R  the event sequence of `StreamingPeekableIter` (read/peek/reset script) does not depend on how
//!       the underlying `Read` chunks the bytes (incl. `Interrupted`), and equals a model of the line list;
//!  * S  `WithSidebands` delivers band-1 payloads concatenated, progress/error callbacks in order and
//!       never ahead of data that preceded them, and does not read past the terminating packet;
//!  * prefix sweep: all 65 536 four-hex-digit prefixes + non-hex ones through every decoder entry
//!       point: valid → the exact line, malformed/oversized → an error, never a panic.
use crate::fw::{guard, show, Ctx, Rng};
use gix_packetline::{
    decode, encode, read::ProgressAction, BandRef, Channel, ErrorRef, PacketLineRef, StreamingPeekableIter, TextRef,
    Writer,
};
use serde_json::json;
use std::cell::{Cell, RefCell};
use std::io::{self, BufRead, Read, Write};

pub fn child(_mode: &str) {}

const MAX_DATA: usize = 65516;

// ------------------------------------------------------------------ line model

#[derive(Clone, Debug, PartialEq, Eq)]
enum L {
    Data(Vec<u8>),
    Text(Vec<u8>),
    Error(Vec<u8>),
    Band(u8, Vec<u8>),
    Flush,
    Delim,
    End,
}

/// what is on the wire
#[derive(Clone, Debug, PartialEq, Eq)]
enum W {
    Data(Vec<u8>),
    Flush,
    Delim,
    End,
}

impl L {
    fn wire(&self) -> W {
        match self {
            L::Data(d) => W::Data(d.clone()),
            L::Text(t) => {
                let mut v = t.clone();
                v.push(b'\n');
                W::Data(v)
            }
            L::Error(m) => {
                let mut v = b"ERR ".to_vec();
                v.extend_from_slice(m);
                W::Data(v)
            }
            L::Band(b, d) => {
                let mut v = vec![*b];
                v.extend_from_slice(d);
                W::Data(v)
            }
            L::Flush => W::Flush,
            L::Delim => W::Delim,
            L::End => W::End,
        }
    }
    fn kind(&self) -> u8 {
        match self {
            L::Data(_) => 0,
            L::Text(_) => 1,
            L::Error(_) => 2,
            L::Band(b, _) => 2 + *b,
            L::Flush => 6,
            L::Delim => 7,
            L::End => 8,
        }
    }
    fn kind_name(&self) -> &'static str {
        ["data", "text", "error", "band1", "band2", "band3", "flush", "delim", "response-end"][self.kind() as usize]
    }
    fn payload_len(&self) -> usize {
        match self {
            L::Data(d) | L::Text(d) | L::Error(d) | L::Band(_, d) => d.len(),
            _ => 0,
        }
    }
    fn overhead(kind: u8) -> usize {
        match kind {
            1 => 1,
            2 => 4,
            3..=5 => 1,
            _ => 0,
        }
    }
    fn brief(&self) -> serde_json::Value {
        match self {
            L::Data(d) | L::Text(d) | L::Error(d) | L::Band(_, d) => {
                json!({"kind": self.kind_name(), "len": d.len(), "head": show(&d[..d.len().min(24)])})
            }
            _ => json!({"kind": self.kind_name()}),
        }
    }
}

impl W {
    fn code(&self) -> u8 {
        match self {
            W::Flush => 0,
            W::Delim => 1,
            W::End => 2,
            W::Data(_) => 3,
        }
    }
    fn brief(&self) -> String {
        match self {
            W::Data(d) => format!("data[{}]:{}", d.len(), show(&d[..d.len().min(16)])),
            W::Flush => "flush".into(),
            W::Delim => "delim".into(),
            W::End => "response-end".into(),
        }
    }
}

/// independent framing model (git's pkt-line: 4 lower-case hex digits of total length, then payload)
fn model_encode(w: &W) -> Vec<u8> {
    match w {
        W::Flush => b"0000".to_vec(),
        W::Delim => b"0001".to_vec(),
        W::End => b"0002".to_vec(),
        W::Data(d) => {
            let mut v = format!("{:04x}", d.len() + 4).into_bytes();
            v.extend_from_slice(d);
            v
        }
    }
}

fn channel(b: u8) -> Channel {
    match b {
        1 => Channel::Data,
        2 => Channel::Progress,
        _ => Channel::Error,
    }
}

/// encode with the real code; `via_ref` selects the `*Ref::write_to` methods instead of the free functions
fn gx_encode(l: &L, via_ref: bool, out: &mut Vec<u8>) -> io::Result<usize> {
    if via_ref {
        match l {
            L::Data(d) => PacketLineRef::Data(d).write_to(out),
            L::Text(t) => TextRef(t).write_to(out),
            L::Error(m) => ErrorRef(m).write_to(out),
            L::Band(1, d) => BandRef::Data(d).write_to(out),
            L::Band(2, d) => BandRef::Progress(d).write_to(out),
            L::Band(_, d) => BandRef::Error(d).write_to(out),
            L::Flush => PacketLineRef::Flush.write_to(out),
            L::Delim => PacketLineRef::Delimiter.write_to(out),
            L::End => PacketLineRef::ResponseEnd.write_to(out),
        }
    } else {
        match l {
            L::Data(d) => encode::data_to_write(d, out),
            L::Text(t) => encode::text_to_write(t, out),
            L::Error(m) => encode::error_to_write(m, out),
            L::Band(b, d) => encode::band_to_write(channel(*b), d, out),
            L::Flush => encode::flush_to_write(out),
            L::Delim => encode::delim_to_write(out),
            L::End => encode::response_end_to_write(out),
        }
    }
}

fn to_w(l: PacketLineRef<'_>) -> W {
    match l {
        PacketLineRef::Data(d) => W::Data(d.to_vec()),
        PacketLineRef::Flush => W::Flush,
        PacketLineRef::Delimiter => W::Delim,
        PacketLineRef::ResponseEnd => W::End,
    }
}

fn len_class(n: usize) -> u8 {
    match n {
        0 => 0,
        1 => 1,
        2..=8 => 2,
        9..=255 => 3,
        256..=4095 => 4,
        4096..=65000 => 5,
        65001..=65510 => 6,
        65511..=65516 => 7 + (n - 65511) as u8,
        _ => 13,
    }
}

fn gen_len(r: &mut Rng, overhead: usize, allow_big: bool) -> usize {
    match r.below(20) {
        0..=6 => 1 + r.usize(8),
        7..=12 => 1 + r.usize(200),
        13 => *r.pick(&[251usize, 252, 255, 256, 4091, 4092, 4095, 4096, 0xabc, 0xfed, 0xa0b]),
        14 => 1 + r.usize(5000),
        15 | 16 if allow_big => MAX_DATA - overhead - r.usize(3),
        17 if allow_big => 1 + r.usize(MAX_DATA - overhead),
        _ => 1 + r.usize(40),
    }
}

fn gen_payload(r: &mut Rng, len: usize) -> Vec<u8> {
    let mut v = if len > 2000 {
        // cheap fill for big lines
        let a = r.next_u64();
        (0..len).map(|i| (a.wrapping_add(i as u64).wrapping_mul(0x9e37_79b9) >> 13) as u8).collect::<Vec<u8>>()
    } else if r.chance(1, 3) {
        r.bytes_from(len, b"abcdefgh0123 /=\n\x00")
    } else {
        r.bytes(len)
    };
    // contents that could confuse a framing layer
    match r.below(12) {
        0 if len >= 4 => v[..4].copy_from_slice(b"ERR "),
        1 => {
            let n = v.len();
            v[n - 1] = b'\n'
        }
        2 if len >= 4 => v[..4].copy_from_slice(*r.pick(&[b"0000", b"0001", b"0002", b"0004", b"ffff"])),
        3 => v[0] = 1 + r.below(3) as u8,
        4 if len >= 8 => {
            let at = r.usize(len - 3);
            v[at..at + 4].copy_from_slice(b"0000")
        }
        _ => {}
    }
    v
}

fn gen_line(r: &mut Rng, allow_big: bool) -> L {
    let k = match r.below(16) {
        0..=3 => 0,
        4..=6 => 1,
        7 => 2,
        8..=9 => 3,
        10 => 4,
        11 => 5,
        12 => 6,
        13 => 7,
        14 => 8,
        _ => 0,
    };
    if k >= 6 {
        return [L::Flush, L::Delim, L::End][(k - 6) as usize].clone();
    }
    let len = gen_len(r, L::overhead(k), allow_big);
    let p = gen_payload(r, len);
    match k {
        0 => L::Data(p),
        1 => L::Text(p),
        2 => L::Error(p),
        b => L::Band(b - 2, p),
    }
}

// ------------------------------------------------------------------ chunked reader

#[derive(Clone, Copy, Debug, PartialEq, Eq, Hash)]
enum Pat {
    All,
    One,
    Two,
    Three,
    Prime(usize),
    Random(usize),
}

fn gen_pat(r: &mut Rng) -> Pat {
    match r.below(8) {
        0 => Pat::All,
        1 => Pat::One,
        2 => Pat::Two,
        3 => Pat::Three,
        4 => Pat::Prime(*r.pick(&[5usize, 7, 251, 4099, 65521])),
        5 => Pat::Random(4),
        6 => Pat::Random(64),
        _ => Pat::Random(70_000),
    }
}

struct Chunked<'a> {
    data: &'a [u8],
    pos: usize,
    pat: Pat,
    r: Rng,
    interrupts: bool,
}

impl<'a> Chunked<'a> {
    fn new(data: &'a [u8], pat: Pat, seed: u64, interrupts: bool) -> Self {
        Chunked { data, pos: 0, pat, r: Rng::new(seed), interrupts }
    }
}

impl Read for Chunked<'_> {
    fn read(&mut self, buf: &mut [u8]) -> io::Result<usize> {
        if buf.is_empty() {
            return Ok(0);
        }
        if self.interrupts && self.r.chance(1, 5) {
            return Err(io::ErrorKind::Interrupted.into());
        }
        let want = match self.pat {
            Pat::All => usize::MAX,
            Pat::One => 1,
            Pat::Two => 2,
            Pat::Three => 3,
            Pat::Prime(p) => p,
            Pat::Random(m) => 1 + self.r.usize(m),
        };
        let n = want.min(buf.len()).min(self.data.len() - self.pos);
        buf[..n].copy_from_slice(&self.data[self.pos..self.pos + n]);
        self.pos += n;
        Ok(n)
    }
}

// ------------------------------------------------------------------ stream machine

#[derive(Clone, Copy, Debug, PartialEq, Eq)]
enum Op {
    Read,
    Peek,
    Reset,
}

#[derive(Clone, Debug, PartialEq, Eq)]
enum Ev {
    Line(W),
    /// iterator returned None; payload = stopped_at() code
    Stop(Option<u8>),
    /// io error wrapping read::Error (ERR line with fail_on_err_lines)
    ErrLine(Vec<u8>),
    Eof,
    Io(String),
    Decode(String),
}

impl Ev {
    fn kind(&self) -> &'static str {
        match self {
            Ev::Line(W::Data(_)) => "data-line",
            Ev::Line(_) => "special-line",
            Ev::Stop(Some(_)) => "stop-at-delimiter",
            Ev::Stop(None) => "stop-none",
            Ev::ErrLine(_) => "err-line",
            Ev::Eof => "eof",
            Ev::Io(_) => "io-error",
            Ev::Decode(_) => "decode-error",
        }
    }
    fn brief(&self) -> String {
        match self {
            Ev::Line(w) => w.brief(),
            Ev::ErrLine(m) => format!("ERR:{}", show(&m[..m.len().min(16)])),
            other => format!("{:?}", other),
        }
    }
    /// equality as far as the model can tell
    fn matches_model(&self, model: &Ev) -> bool {
        match (model, self) {
            (Ev::Decode(_), Ev::Decode(_)) => true,
            // the documentation promises None at natural EOF, the code returns the io error: both are fine
            (Ev::Eof, Ev::Stop(None)) => true,
            (a, b) => a == b,
        }
    }
}

const DELIMS: [&[PacketLineRef<'static>]; 5] = [
    &[PacketLineRef::Flush],
    &[],
    &[PacketLineRef::Flush, PacketLineRef::Delimiter],
    &[PacketLineRef::ResponseEnd],
    &[PacketLineRef::Flush, PacketLineRef::Delimiter, PacketLineRef::ResponseEnd],
];

fn conv(res: Option<io::Result<Result<PacketLineRef<'_>, decode::Error>>>) -> Ev {
    match res {
        None => Ev::Stop(None),
        Some(Err(e)) => {
            if e.kind() == io::ErrorKind::UnexpectedEof {
                Ev::Eof
            } else if let Some(inner) =
                e.get_ref().and_then(|i| i.downcast_ref::<gix_packetline::read::Error>())
            {
                Ev::ErrLine(inner.message.to_vec())
            } else {
                Ev::Io(format!("{:?}: {}", e.kind(), e))
            }
        }
        Some(Ok(Err(d))) => Ev::Decode(d.to_string()),
        Some(Ok(Ok(l))) => Ev::Line(to_w(l)),
    }
}

trait Machine {
    fn step(&mut self, op: Op) -> Option<Ev>;
}

struct Real<'a> {
    it: StreamingPeekableIter<Chunked<'a>>,
}

impl Machine for Real<'_> {
    fn step(&mut self, op: Op) -> Option<Ev> {
        let ev = match op {
            Op::Reset => {
                self.it.reset();
                return None;
            }
            Op::Read => conv(self.it.read_line()),
            Op::Peek => conv(self.it.peek_line()),
        };
        Some(match ev {
            Ev::Stop(_) => Ev::Stop(self.it.stopped_at().map(|l| to_w(l).code())),
            e => e,
        })
    }
}

/// one element of the stream as the model sees it
#[derive(Clone, Debug)]
enum Item {
    Line(W),
    /// malformed prefix → decode error
    Bad,
}

struct Model<'a> {
    items: &'a [Item],
    delims: Vec<u8>,
    fail_on_err: bool,
    idx: usize,
    done: bool,
    stopped: Option<u8>,
    peeked: bool,
}

impl Machine for Model<'_> {
    fn step(&mut self, op: Op) -> Option<Ev> {
        if op == Op::Reset {
            self.done = false;
            self.stopped = None;
            return None;
        }
        if self.done {
            return Some(Ev::Stop(self.stopped));
        }
        if self.peeked {
            let Item::Line(w) = &self.items[self.idx] else { unreachable!() };
            let ev = Ev::Line(w.clone());
            if op == Op::Read {
                self.idx += 1;
                self.peeked = false;
            }
            return Some(ev);
        }
        if self.idx >= self.items.len() {
            return Some(Ev::Eof);
        }
        match &self.items[self.idx] {
            Item::Bad => {
                self.idx += 1;
                Some(Ev::Decode(String::new()))
            }
            Item::Line(w) => {
                if self.delims.contains(&w.code()) {
                    self.idx += 1;
                    self.done = true;
                    self.stopped = Some(w.code());
                    return Some(Ev::Stop(self.stopped));
                }
                if self.fail_on_err {
                    if let W::Data(d) = w {
                        if d.starts_with(b"ERR ") {
                            self.idx += 1;
                            self.done = true;
                            self.stopped = None;
                            return Some(Ev::ErrLine(d[4..].to_vec()));
                        }
                    }
                }
                if op == Op::Peek {
                    self.peeked = true;
                } else {
                    self.idx += 1;
                }
                Some(Ev::Line(w.clone()))
            }
        }
    }
}

/// run the op script, then drain: read until EOF / error, resetting after each stop
fn drive(m: &mut dyn Machine, ops: &[Op], bound: usize) -> Vec<Ev> {
    let mut evs = Vec::new();
    let mut broke = false;
    for op in ops {
        if let Some(ev) = m.step(*op) {
            let fin = matches!(ev, Ev::Eof | Ev::Io(_) | Ev::Decode(_));
            evs.push(ev);
            if fin {
                broke = true;
                break;
            }
        }
    }
    if !broke {
        for _ in 0..bound {
            let Some(ev) = m.step(Op::Read) else { continue };
            let fin = matches!(ev, Ev::Eof | Ev::Io(_) | Ev::Decode(_));
            let stop = matches!(ev, Ev::Stop(_));
            evs.push(ev);
            if fin {
                break;
            }
            if stop {
                m.step(Op::Reset);
            }
        }
    }
    evs
}

fn run_real(
    wire: &[u8],
    pat: Pat,
    seed: u64,
    interrupts: bool,
    delims: &'static [PacketLineRef<'static>],
    fail_on_err: bool,
    ops: &[Op],
    bound: usize,
) -> Vec<Ev> {
    let rd = Chunked::new(wire, pat, seed, interrupts);
    let mut it = StreamingPeekableIter::new(rd, delims, false);
    it.fail_on_err_lines(fail_on_err);
    let mut real = Real { it };
    drive(&mut real, ops, bound)
}

// ------------------------------------------------------------------ part A: single line round trip

fn roundtrip_case(ctx: &mut Ctx, r: &mut Rng) {
    let near_limit = r.chance(1, 10);
    let l = if near_limit {
        // around the maximum: lengths MAX-3..MAX+6 of the *wire* payload
        let k = *r.pick(&[0u8, 0, 1, 2, 3, 4, 5]);
        let wire_len = MAX_DATA - 3 + r.usize(10);
        let len = wire_len - L::overhead(k);
        let p = gen_payload(r, len);
        match k {
            0 => L::Data(p),
            1 => L::Text(p),
            2 => L::Error(p),
            b => L::Band(b - 2, p),
        }
    } else if r.chance(1, 40) {
        // empty payloads must be refused
        match r.below(4) {
            0 => L::Data(vec![]),
            1 => L::Text(vec![]),
            2 => L::Error(vec![]),
            _ => L::Band(1 + r.below(3) as u8, vec![]),
        }
    } else {
        gen_line(r, true)
    };
    let via_ref = r.bool();
    ctx.eval();
    let w = l.wire();
    let wire_len = match &w {
        W::Data(d) => d.len(),
        _ => 0,
    };
    let witness = |extra: serde_json::Value| json!({"line": l.brief(), "via_ref": via_ref, "detail": extra});
    let mut out = Vec::new();
    let res = match guard(|| gx_encode(&l, via_ref, &mut out)) {
        Ok(r) => r,
        Err(p) => {
            ctx.panic_violation("encode", &p, l.kind_name(), witness(json!(null)));
            return;
        }
    };
    ctx.distinct(("rt", l.kind(), len_class(wire_len), via_ref, res.is_ok()));
    let in_domain = l.kind() >= 6 || (l.payload_len() >= 1 && wire_len <= MAX_DATA);
    match res {
        Err(e) => {
            if in_domain {
                ctx.violation(
                    &format!("encode|refuses-length-in-domain|{}", l.kind_name()),
                    "encoder refused a line whose payload length is within 1..=65516",
                    witness(json!({"err": e.to_string(), "wire_payload_len": wire_len})),
                );
            } else {
                ctx.count(if l.payload_len() == 0 { "rt_refused_empty" } else { "rt_refused_oversize" });
                if !out.is_empty() {
                    ctx.violation(
                        "encode|partial-output-on-refusal",
                        "encoder returned an error but wrote bytes",
                        witness(json!({"written": out.len()})),
                    );
                }
            }
            return;
        }
        Ok(n) => {
            ctx.count(&format!("rt_{}", l.kind_name()));
            if !in_domain {
                ctx.count("rt_accepted_out_of_domain");
            }
            if n != out.len() {
                ctx.violation(
                    "encode|returned-size-differs",
                    "encoder's returned byte count differs from bytes written",
                    witness(json!({"returned": n, "written": out.len()})),
                );
            }
        }
    }
    // from here: whatever was written must decode back to the same line
    let want = model_encode(&w);
    if in_domain && out != want {
        ctx.violation(
            &format!("encode|bytes-differ-from-framing-model|{}", l.kind_name()),
            "encoded bytes differ from <4 hex digits of len+4><payload>",
            witness(json!({"got_head": show(&out[..out.len().min(16)]), "want_head": show(&want[..want.len().min(16)]), "got_len": out.len(), "want_len": want.len()})),
        );
    }
    let mut junk = out.clone();
    junk.extend_from_slice(b"0009junk!");
    let dec = guard(|| {
        let a = decode::all_at_once(&out).map(to_w).map_err(|e| e.to_string());
        let s = match decode::streaming(&junk) {
            Ok(decode::Stream::Complete { line, bytes_consumed }) => Ok((to_w(line), bytes_consumed)),
            Ok(decode::Stream::Incomplete { bytes_needed }) => Err(format!("incomplete:{bytes_needed}")),
            Err(e) => Err(e.to_string()),
        };
        (a, s)
    });
    let (a, s) = match dec {
        Ok(x) => x,
        Err(p) => {
            ctx.panic_violation("decode", &p, l.kind_name(), witness(json!(null)));
            return;
        }
    };
    if a.as_ref().ok() != Some(&w) {
        ctx.violation(
            &format!("roundtrip|all_at_once|{}", l.kind_name()),
            "decode::all_at_once(encode(line)) != line",
            witness(json!({"got": a.as_ref().map(|w| w.brief()).map_err(|e| e.clone()), "wire_payload_len": wire_len})),
        );
    }
    match &s {
        Ok((sw, consumed)) if sw == &w && *consumed == out.len() => {}
        other => ctx.violation(
            &format!("roundtrip|streaming|{}", l.kind_name()),
            "decode::streaming(encode(line) ++ more) != (line, len)",
            witness(json!({"got": format!("{:?}", other.as_ref().map(|(w, c)| (w.brief(), *c))), "wire_payload_len": wire_len})),
        ),
    }
    // truncated input must ask for exactly the missing bytes
    if out.len() > 4 {
        let k = r.usize(out.len());
        ctx.eval();
        let want_needed = if k < 4 { 4 - k } else { out.len() - k };
        match guard(|| decode::streaming(&out[..k]).map(|s| match s {
            decode::Stream::Incomplete { bytes_needed } => Some(bytes_needed),
            _ => None,
        })) {
            Ok(Ok(Some(n))) if n == want_needed => {}
            Ok(other) => ctx.violation(
                "streaming|incomplete-bytes-needed",
                "decode::streaming on a truncated line did not report the missing byte count",
                witness(json!({"have": k, "total": out.len(), "got": format!("{:?}", other.map_err(|e| e.to_string()))})),
            ),
            Err(p) => ctx.panic_violation("decode", &p, "truncated", witness(json!({"have": k}))),
        }
    }
    // typed views
    if let Ok(W::Data(_)) = &a {
        let line = decode::all_at_once(&out).expect("decoded before");
        let ok = match &l {
            L::Data(d) => line.as_slice() == Some(&d[..]),
            L::Text(t) => line.as_text().map(|t| t.0) == Some(&t[..]),
            L::Error(m) => line.check_error().map(|e| e.0) == Some(&m[..]),
            L::Band(b, d) => {
                let want = match b {
                    1 => BandRef::Data(d),
                    2 => BandRef::Progress(d),
                    _ => BandRef::Error(d),
                };
                line.decode_band().ok() == Some(want)
            }
            _ => true,
        };
        if !ok {
            ctx.violation(
                &format!("roundtrip|typed-view|{}", l.kind_name()),
                "as_text/check_error/decode_band of the decoded line does not give back the written value",
                witness(json!(null)),
            );
        }
    }
    // and through the blocking reader, with a random chunking
    let pat = gen_pat(r);
    let seed = r.next_u64();
    let intr = r.chance(1, 4);
    let evs = guard(|| run_real(&out, pat, seed, intr, DELIMS[1], false, &[Op::Read], 0));
    match evs {
        Err(p) => ctx.panic_violation("reader", &p, l.kind_name(), witness(json!({"pat": format!("{pat:?}")}))),
        Ok(evs) => {
            if evs.first() != Some(&Ev::Line(w.clone())) {
                ctx.violation(
                    &format!("roundtrip|read_line|{}", l.kind_name()),
                    "StreamingPeekableIter::read_line(encode(line)) != line",
                    witness(json!({"got": evs.first().map(|e| e.brief()), "pat": format!("{pat:?}")})),
                );
            }
        }
    }
    if ctx.want_sample() {
        ctx.sample(json!({"part": "roundtrip", "line": l.brief(), "encoded_head": show(&out[..out.len().min(12)]), "encoded_len": out.len(), "reader_chunks": format!("{pat:?}")}));
    }
}

// ------------------------------------------------------------------ part B: streams

fn stream_case(ctx: &mut Ctx, r: &mut Rng) {
    let nmax = if r.chance(1, 6) { 40 } else { 12 };
    let n = 1 + r.usize(nmax);
    let mut bigs = 0;
    let mut lines = Vec::new();
    for _ in 0..n {
        let l = gen_line(r, bigs < 2);
        if l.payload_len() > 60_000 {
            bigs += 1;
        }
        lines.push(l);
    }
    let mut wire = Vec::new();
    let mut items = Vec::new();
    let mut bounds = vec![0usize];
    let mut kinds = 0u16;
    let mut lclasses = 0u16;
    for l in &lines {
        let via_ref = r.bool();
        let before = wire.len();
        match guard(|| gx_encode(l, via_ref, &mut wire)) {
            Ok(Ok(_)) => {}
            Ok(Err(e)) => {
                ctx.violation(
                    &format!("encode|refuses-length-in-domain|{}", l.kind_name()),
                    "encoder refused a line whose payload length is within 1..=65516",
                    json!({"line": l.brief(), "err": e.to_string()}),
                );
                return;
            }
            Err(p) => {
                ctx.panic_violation("encode", &p, l.kind_name(), json!({"line": l.brief()}));
                return;
            }
        }
        let w = l.wire();
        if wire[before..] != model_encode(&w)[..] {
            ctx.violation(
                &format!("encode|bytes-differ-from-framing-model|{}", l.kind_name()),
                "encoded bytes differ from <4 hex digits of len+4><payload>",
                json!({"line": l.brief(), "got_head": show(&wire[before..wire.len().min(before + 16)])}),
            );
            return;
        }
        kinds |= 1 << l.kind();
        lclasses |= 1 << len_class(l.payload_len());
        items.push(Item::Line(w));
        bounds.push(wire.len());
    }
    // optional malformed tail / truncation
    let mut tail = 0u8;
    if r.chance(1, 8) {
        let bad: Vec<u8> = match r.below(3) {
            0 => b"0003".to_vec(),
            1 => b"0004".to_vec(),
            _ => {
                let mut p = *r.pick(&[*b"00g0", *b" 123", *b"-001", *b"+005", *b"0x10", *b"00 5", *b"\x00\x00\x00\x00", *b"zzzz"]);
                if r.chance(1, 3) {
                    p[r.usize(4)] = *r.pick(&[b'g', b'G', b':', b'/', b'@', b'`', 0xff]);
                }
                p.to_vec()
            }
        };
        wire.extend_from_slice(&bad);
        wire.extend_from_slice(b"trailing-bytes");
        items.push(Item::Bad);
        tail = 1;
    } else if r.chance(1, 8) && wire.len() > 1 {
        let cut = r.usize(wire.len());
        wire.truncate(cut);
        let keep = bounds.iter().filter(|b| **b <= cut).count() - 1;
        items.truncate(keep);
        tail = 2;
    }
    let di = r.usize(DELIMS.len());
    let delims = DELIMS[di];
    let fail_on_err = r.chance(1, 3);
    // op script
    let n_ops = r.usize(2 * items.len() + 4);
    let peeky = r.chance(1, 2);
    let ops: Vec<Op> = (0..n_ops)
        .map(|_| match r.below(10) {
            0..=2 if peeky => Op::Peek,
            3 => Op::Reset,
            _ => Op::Read,
        })
        .collect();
    let has_peek = ops.contains(&Op::Peek);
    let has_reset = ops.contains(&Op::Reset);
    let bound = 2 * items.len() + 8;
    let mut model = Model {
        items: &items,
        delims: delims.iter().map(|d| to_w(*d).code()).collect(),
        fail_on_err,
        idx: 0,
        done: false,
        stopped: None,
        peeked: false,
    };
    let want = drive(&mut model, &ops, bound);
    let pats = [gen_pat(r), gen_pat(r)];
    let intr = [r.chance(1, 4), r.chance(1, 4)];
    ctx.distinct(("st", kinds, lclasses, di, fail_on_err, pats[0], pats[1], tail, has_peek, has_reset));
    ctx.count_n("stream_lines", items.len() as u64);
    let witness = |extra: serde_json::Value| {
        json!({
            "lines": lines.iter().take(12).map(|l| l.brief()).collect::<Vec<_>>(), "n_lines": lines.len(),
            "wire_len": wire.len(), "tail": (["none", "malformed-prefix", "truncated"][tail as usize]),
            "delimiters": format!("{:?}", delims), "fail_on_err_lines": fail_on_err,
            "ops": format!("{:?}", ops), "detail": extra,
        })
    };
    let mut got_all = Vec::new();
    for i in 0..2 {
        ctx.eval();
        let seed = r.next_u64();
        let got = match guard(|| run_real(&wire, pats[i], seed, intr[i], delims, fail_on_err, &ops, bound)) {
            Ok(g) => g,
            Err(p) => {
                ctx.panic_violation("reader", &p, "stream", witness(json!({"pat": format!("{:?}", pats[i])})));
                return;
            }
        };
        ctx.count_n("stream_events", got.len() as u64);
        let mismatch = (0..want.len().max(got.len())).find(|&j| match (want.get(j), got.get(j)) {
            (Some(w), Some(g)) => !g.matches_model(w),
            _ => true,
        });
        if let Some(j) = mismatch {
            let wk = want.get(j).map_or("nothing", |e| e.kind());
            let gk = got.get(j).map_or("nothing", |e| e.kind());
            ctx.violation(
                &format!("stream|model|want-{wk}|got-{gk}"),
                "StreamingPeekableIter event sequence differs from the model of the written line list",
                witness(json!({"event_index": j, "want": want.get(j).map(|e| e.brief()), "got": got.get(j).map(|e| e.brief()), "pat": format!("{:?}", pats[i]), "interrupts": intr[i]})),
            );
            return;
        }
        got_all.push(got);
    }
    if got_all[0] != got_all[1] {
        ctx.violation(
            "stream|chunking-dependence",
            "the same stream read with two different chunkings produced different events",
            witness(json!({"pats": format!("{:?}", pats)})),
        );
    }
    for e in &want {
        ctx.count(&format!("ev_{}", e.kind()));
    }
    if ctx.want_sample() {
        ctx.sample(json!({"part": "stream", "lines": lines.iter().take(6).map(|l| l.brief()).collect::<Vec<_>>(), "n_lines": lines.len(),
            "chunkings": format!("{:?}", pats), "delimiters": format!("{:?}", delims), "fail_on_err_lines": fail_on_err,
            "ops": format!("{:?}", &ops[..ops.len().min(10)]), "events": want.iter().take(8).map(|e| e.brief()).collect::<Vec<_>>()}));
    }
}

// ------------------------------------------------------------------ part C: side-band demultiplexing

#[derive(Debug)]
struct SbOut {
    data: Vec<u8>,
    strings: Vec<String>,
    /// "ok0" | "eof-error" | "error:<..>"
    end: String,
    interrupted: usize,
    stopped: Option<u8>,
}

fn sb_drive<T: Read, F: FnMut(bool, &[u8]) -> ProgressAction>(
    rd: &mut gix_packetline::read::WithSidebands<'_, T, F>,
    mode: u8,
    r: &mut Rng,
    delivered: &Cell<usize>,
) -> SbOut {
    let mut out = SbOut { data: Vec::new(), strings: Vec::new(), end: String::new(), interrupted: 0, stopped: None };
    let max = *r.pick(&[1usize, 7, 100, 70_000]);
    let mut guard_n = 0usize;
    loop {
        guard_n += 1;
        if guard_n > 3_000_000 {
            out.end = "no-progress".into();
            break;
        }
        let res: io::Result<usize> = match mode {
            0 => {
                let mut buf = vec![0u8; 1 + r.usize(max)];
                rd.read(&mut buf).map(|n| {
                    out.data.extend_from_slice(&buf[..n]);
                    n
                })
            }
            1 => match rd.fill_buf() {
                Ok(b) => {
                    let n = if b.is_empty() { 0 } else { 1 + r.usize(b.len().min(max)) };
                    out.data.extend_from_slice(&b[..n]);
                    rd.consume(n);
                    Ok(n)
                }
                Err(e) => Err(e),
            },
            2 => rd.read_to_end(&mut out.data).map(|_| 0),
            _ => {
                let mut s = String::new();
                rd.read_line_to_string(&mut s).map(|n| {
                    out.data.extend_from_slice(s.as_bytes());
                    if n > 0 {
                        out.strings.push(s);
                    }
                    n
                })
            }
        };
        delivered.set(out.data.len());
        match res {
            Ok(0) => {
                out.end = "ok0".into();
                break;
            }
            Ok(_) => {}
            Err(e) if e.to_string() == "interrupted by user" => {
                out.interrupted += 1;
                if mode == 2 {
                    out.end = "interrupted".into();
                    break;
                }
            }
            Err(e) if e.kind() == io::ErrorKind::UnexpectedEof => {
                out.end = "eof-error".into();
                break;
            }
            Err(e) => {
                out.end = format!("error:{:?}:{}", e.kind(), e);
                break;
            }
        }
    }
    out.stopped = rd.stopped_at().map(|l| to_w(l).code());
    out
}

fn strip_nl(d: &[u8]) -> &[u8] {
    if d.last() == Some(&b'\n') {
        &d[..d.len() - 1]
    } else {
        d
    }
}

fn sideband_case(ctx: &mut Ctx, r: &mut Rng) {
    let with_bands = !r.chance(1, 5);
    let mode = r.below(4) as u8;
    let ascii = mode == 3;
    let nmax = if r.chance(1, 5) { 40 } else { 10 };
    let n = 1 + r.usize(nmax);
    let mut wire = Vec::new();
    // (band, payload); band 0 = plain data line (no side-band), empty payload = keep-alive "0005\x01"
    let mut items: Vec<(u8, Vec<u8>)> = Vec::new();
    let mut bigs = 0;
    let mut mask = 0u8;
    let mut keepalives = 0;
    for _ in 0..n {
        let band = if with_bands { *r.pick(&[1u8, 1, 1, 2, 2, 3]) } else { 0 };
        if band == 1 && r.chance(1, 10) {
            // git's keep-alive packet; gitoxide's encoder refuses empty payloads, so frame it by hand
            wire.extend_from_slice(b"0005\x01");
            items.push((1, vec![]));
            keepalives += 1;
            continue;
        }
        let len = gen_len(r, 1, bigs < 2);
        if len > 60_000 {
            bigs += 1;
        }
        let mut p = if ascii { r.bytes_from(len, b"abcxyz 019\n%:") } else { gen_payload(r, len) };
        if band >= 2 && r.chance(1, 2) {
            let l = p.len();
            p[l - 1] = b'\n';
        }
        let res = if band == 0 {
            if r.bool() {
                encode::data_to_write(&p, &mut wire)
            } else {
                let res = encode::text_to_write(&p, &mut wire);
                p.push(b'\n');
                res
            }
        } else {
            encode::band_to_write(channel(band), &p, &mut wire)
        };
        if let Err(e) = res {
            ctx.violation(
                "encode|refuses-length-in-domain|sideband",
                "encoder refused a line whose payload length is within the limit",
                json!({"band": band, "len": p.len(), "err": e.to_string()}),
            );
            return;
        }
        mask |= 1 << band;
        items.push((band, p));
    }
    // terminator + tail that must stay unread
    let term = r.below(3) as u8; // 0 flush, 1 delim, 2 = EOF
    let delims = if term == 1 { DELIMS[2] } else { DELIMS[0] };
    let tail_line = b"tail-after-terminator\n";
    match term {
        0 => wire.extend_from_slice(b"0000"),
        1 => wire.extend_from_slice(b"0001"),
        _ => {}
    }
    if term != 2 {
        encode::data_to_write(tail_line, &mut wire).expect("tail");
    }
    let interrupt_at = if with_bands && mode != 2 && r.chance(1, 6) { Some(r.usize(6)) } else { None };
    let pat = gen_pat(r);
    let seed = r.next_u64();
    let intr_io = r.chance(1, 4);
    ctx.eval();
    ctx.distinct(("sb", mode, mask, term, keepalives > 0, interrupt_at.is_some(), pat, n / 8));
    // expectation
    let want_data: Vec<u8> = items.iter().filter(|(b, _)| *b <= 1).flat_map(|(_, p)| p.iter().copied()).collect();
    let mut want_cb: Vec<(bool, Vec<u8>, usize)> = Vec::new();
    let mut acc = 0usize;
    for (b, p) in &items {
        match b {
            0 | 1 => acc += p.len(),
            _ => want_cb.push((*b == 3, p.clone(), acc)),
        }
    }
    let want_strings: Vec<String> = items
        .iter()
        .filter(|(b, p)| *b <= 1 && !p.is_empty())
        .map(|(_, p)| String::from_utf8_lossy(p).to_string())
        .collect();
    let witness = |extra: serde_json::Value| {
        json!({"items": items.iter().take(12).map(|(b, p)| json!({"band": b, "len": p.len(), "head": show(&p[..p.len().min(16)])})).collect::<Vec<_>>(),
            "n_items": items.len(), "terminator": (["flush", "delim", "eof"][term as usize]), "read_mode": (["read", "bufread", "read_to_end", "read_line_to_string"][mode as usize]),
            "with_sidebands": with_bands, "pat": format!("{pat:?}"), "interrupt_at_callback": interrupt_at, "detail": extra})
    };
    let delivered = Cell::new(0usize);
    let cbs: RefCell<Vec<(bool, Vec<u8>, usize)>> = RefCell::new(Vec::new());
    let mut rr = r.fork();
    let run = guard(|| {
        let rd = Chunked::new(&wire, pat, seed, intr_io);
        let mut it = StreamingPeekableIter::new(rd, delims, false);
        let out = if with_bands {
            let mut sb = it.as_read_with_sidebands(|is_err: bool, text: &[u8]| {
                let mut c = cbs.borrow_mut();
                c.push((is_err, text.to_vec(), delivered.get()));
                if Some(c.len() - 1) == interrupt_at {
                    ProgressAction::Interrupt
                } else {
                    ProgressAction::Continue
                }
            });
            sb_drive(&mut sb, mode, &mut rr, &delivered)
        } else {
            let mut sb = it.as_read();
            sb_drive(&mut sb, mode, &mut rr, &delivered)
        };
        // the reader was dropped: the parent is reset and must continue right after the terminator
        let next = conv(it.read_line());
        (out, next)
    });
    let (out, next) = match run {
        Ok(x) => x,
        Err(p) => {
            ctx.panic_violation("reader", &p, "stream", witness(json!(null)));
            return;
        }
    };
    let cbs = cbs.into_inner();
    ctx.count_n("sb_lines", items.len() as u64);
    ctx.count_n("sb_callbacks", cbs.len() as u64);
    ctx.count_n("sb_data_bytes", out.data.len() as u64);
    if out.data != want_data {
        let at = out.data.iter().zip(&want_data).position(|(a, b)| a != b).unwrap_or(out.data.len().min(want_data.len()));
        ctx.violation(
            if with_bands { "sideband|data-not-concatenation" } else { "sideband|plain-data-not-concatenation" },
            "bytes delivered by the WithSidebands reader differ from the concatenation of the data payloads",
            witness(json!({"got_len": out.data.len(), "want_len": want_data.len(), "first_difference": at, "end": out.end})),
        );
        return;
    }
    // (whether the reader strips the one trailing newline of a progress line is not the statement's business)
    let cb_seq_ok = cbs.len() == want_cb.len() && cbs.iter().zip(&want_cb).all(|(g, w)| g.0 == w.0 && (g.1 == w.1 || &g.1[..] == strip_nl(&w.1)));
    if !cb_seq_ok {
        ctx.violation(
            "sideband|progress-sequence",
            "progress/error callbacks differ from the band-2/3 lines of the stream (order, kind or text)",
            witness(json!({"got": cbs.iter().take(8).map(|c| json!([c.0, show(&c.1[..c.1.len().min(16)])])).collect::<Vec<_>>(), "got_n": cbs.len(), "want_n": want_cb.len()})),
        );
        return;
    }
    // (read_to_end does not tell us how much was delivered when a callback runs)
    if let Some(j) = (0..cbs.len()).find(|&j| mode != 2 && cbs[j].2 != want_cb[j].2) {
        ctx.violation(
            "sideband|progress-order-vs-data",
            "a progress/error callback ran before all preceding band-1 data was delivered (or after later data)",
            witness(json!({"callback_index": j, "delivered_at_callback": cbs[j].2, "data_bytes_before_it_in_stream": want_cb[j].2})),
        );
        return;
    }
    if mode == 3 && out.strings != want_strings {
        ctx.violation(
            "sideband|read_line_to_string-lines",
            "read_line_to_string did not yield one data payload per call",
            witness(json!({"got_n": out.strings.len(), "want_n": want_strings.len()})),
        );
        return;
    }
    let want_interrupts = usize::from(interrupt_at.map_or(false, |k| k < want_cb.len()));
    if out.interrupted != want_interrupts {
        ctx.violation(
            "sideband|interrupt-count",
            "number of 'interrupted by user' errors differs from the number of Interrupt answers",
            witness(json!({"got": out.interrupted, "want": want_interrupts})),
        );
    }
    let end_ok = match term {
        2 => out.end == "eof-error" || out.end == "ok0",
        t => out.end == "ok0" && out.stopped == Some(t),
    };
    if !end_ok {
        ctx.violation(
            "sideband|end-of-stream",
            "reader did not end with Ok(0) at the terminating packet (or an EOF error without one)",
            witness(json!({"end": out.end, "stopped_at": out.stopped})),
        );
        return;
    }
    if term != 2 && next != Ev::Line(W::Data(tail_line.to_vec())) {
        ctx.violation(
            "sideband|overread-past-terminator",
            "after the side-band reader ended at the terminator, the parent did not continue with the next line",
            witness(json!({"next": next.brief()})),
        );
    }
    if ctx.want_sample() {
        ctx.sample(json!({"part": "sideband", "bands": items.iter().take(10).map(|(b, p)| json!([b, p.len()])).collect::<Vec<_>>(),
            "read_mode": (["read", "bufread", "read_to_end", "read_line_to_string"][mode as usize]), "data_bytes": want_data.len(), "callbacks": want_cb.len(), "end": out.end}));
    }
}

// ------------------------------------------------------------------ part D: Writer

fn writer_case(ctx: &mut Ctx, r: &mut Rng) {
    let len = match r.below(10) {
        0..=3 => 1 + r.usize(300),
        4 => MAX_DATA - 1,
        5 => MAX_DATA,
        6 => MAX_DATA + 1,
        7 => 2 * MAX_DATA + r.usize(3),
        8 => MAX_DATA + 1 + r.usize(200_000),
        _ => 1 + r.usize(MAX_DATA - 1),
    };
    let text = r.bool();
    let payload = gen_payload(r, len);
    let use_write_all = r.bool();
    ctx.eval();
    ctx.distinct(("wr", text, use_write_all, len / MAX_DATA, len_class(len % MAX_DATA)));
    let witness = |extra: serde_json::Value| json!({"payload_len": len, "text_mode": text, "write_all": use_write_all, "detail": extra});
    let run = guard(|| {
        let mut w = Writer::new(Vec::new());
        if text {
            w.enable_text_mode();
        }
        let res = if use_write_all { w.write_all(&payload).map(|_| payload.len()) } else { w.write(&payload) };
        (res, w.into_inner())
    });
    let (res, out) = match run {
        Ok(x) => x,
        Err(p) => {
            ctx.panic_violation("Writer::write", &p, if text { "text" } else { "binary" }, witness(json!(null)));
            return;
        }
    };
    // decode everything that was written
    let mut pos = 0;
    let mut acc = Vec::new();
    let mut n_lines = 0u64;
    while pos < out.len() {
        match guard(|| decode::streaming(&out[pos..])) {
            Ok(Ok(decode::Stream::Complete { line: PacketLineRef::Data(d), bytes_consumed })) => {
                n_lines += 1;
                pos += bytes_consumed;
                if text {
                    if d.last() != Some(&b'\n') {
                        ctx.violation("writer|text-line-without-newline", "Writer in text mode wrote a line not ending in newline", witness(json!({"line": n_lines})));
                        return;
                    }
                    acc.extend_from_slice(PacketLineRef::Data(d).as_text().expect("data").0);
                } else {
                    acc.extend_from_slice(d);
                }
            }
            other => {
                ctx.violation(
                    "writer|output-does-not-decode",
                    "bytes written by Writer do not decode as a sequence of data lines",
                    witness(json!({"at": pos, "got": format!("{:?}", other.map(|r| r.map(|_| "non-data/incomplete").map_err(|e| e.to_string())).map_err(|p| p.message))})),
                );
                return;
            }
        }
    }
    ctx.count_n("writer_lines", n_lines);
    match res {
        Ok(n) => {
            if n != payload.len() || acc != payload {
                ctx.violation(
                    if text { "writer|text-lines-differ-from-input" } else { "writer|binary-lines-differ-from-input" },
                    "the lines written by Writer do not decode back to the bytes passed to write()",
                    witness(json!({"returned": n, "decoded_len": acc.len(), "lines": n_lines})),
                );
            }
            ctx.count(if n_lines > 1 { "writer_split" } else { "writer_single" });
        }
        Err(e) => {
            if text && len >= MAX_DATA {
                // a full 65516-byte chunk plus the newline does not fit: refused, not mis-framed. Not covered by the statement.
                ctx.count("writer_text_full_chunk_refused");
                if !payload.starts_with(&acc) {
                    ctx.violation("writer|text-lines-differ-from-input", "partial output before the refusal is not a prefix of the input", witness(json!({"err": e.to_string()})));
                }
            } else {
                ctx.violation(
                    "writer|refuses-input",
                    "Writer refused a non-empty buffer",
                    witness(json!({"err": e.to_string()})),
                );
            }
        }
    }
}

// ------------------------------------------------------------------ part E: prefix sweep

#[derive(Clone, Debug, PartialEq, Eq)]
enum Expect {
    Special(W),
    /// data line with this many payload bytes
    Data(usize),
    Error,
    /// upper-case hex digits: git accepts them; gitoxide may accept (then exactly) or reject
    DataOrError(usize),
}

fn expect_for(v: u32, lower: bool) -> Expect {
    let e = match v {
        0 => Expect::Special(W::Flush),
        1 => Expect::Special(W::Delim),
        2 => Expect::Special(W::End),
        3 | 4 => Expect::Error,
        5..=65520 => Expect::Data(v as usize - 4),
        _ => Expect::Error,
    };
    if lower {
        e
    } else {
        match e {
            Expect::Data(n) => Expect::DataOrError(n),
            e => e,
        }
    }
}

fn prefix_class(p: &[u8; 4], v: Option<u32>) -> &'static str {
    match v {
        None => "prefix-nonhex",
        Some(v) => {
            if p.iter().any(|c| c.is_ascii_uppercase()) {
                return "prefix-uppercase";
            }
            match v {
                0..=2 => "prefix-special",
                3 => "prefix=0003",
                4 => "prefix=0004",
                5 => "prefix=0005",
                6..=65520 => "prefix-valid",
                65521..=65524 => "prefix=fff1..fff4",
                _ => "prefix>fff0",
            }
        }
    }
}

/// class used in panic signatures: every oversized prefix is the same defect
fn panic_shape(p: &[u8; 4], v: Option<u32>) -> &'static str {
    match v {
        Some(v) if v > 65520 => "prefix>fff0",
        _ => prefix_class(p, v),
    }
}

/// what an entry point produced for one prefix
#[derive(Debug, PartialEq, Eq)]
enum Got {
    Special(W),
    /// data line; payload equals the filler (true/false) and its length
    Data(usize, bool),
    Error(String),
    Other(String),
}

struct Sweep {
    /// 4 prefix bytes + filler
    buf: Vec<u8>,
    it: StreamingPeekableIter<io::Cursor<Vec<u8>>>,
    poisoned: bool,
}

const FILL: usize = 65536 + 16;

fn filler_byte(i: usize) -> u8 {
    // never looks like a hex digit run, differs at every offset modulo 251
    (0x80 | (i % 251) as u8) ^ ((i / 251) as u8 & 0x3f)
}

impl Sweep {
    fn new() -> Sweep {
        let mut buf = vec![0u8; 4];
        buf.extend((0..FILL).map(filler_byte));
        let it = StreamingPeekableIter::new(io::Cursor::new(buf.clone()), DELIMS[1], false);
        Sweep { buf, it, poisoned: false }
    }

    /// put the stream (with `edit` applied) into a reader that carries no state from earlier checks
    fn load(&mut self, delims: &'static [PacketLineRef<'static>], edit: impl FnOnce(&mut Vec<u8>)) {
        let mut c = if self.poisoned {
            // a panic may have left the iterator's buffers in an arbitrary state: start over
            self.poisoned = false;
            let old = std::mem::replace(&mut self.it, StreamingPeekableIter::new(io::Cursor::new(Vec::new()), delims, false));
            old.into_inner().into_inner()
        } else {
            self.it.replace(io::Cursor::new(Vec::new())).into_inner()
        };
        if c.len() != self.buf.len() {
            c = self.buf.clone();
        }
        c[..4].copy_from_slice(&self.buf[..4]);
        edit(&mut c);
        self.it.replace(io::Cursor::new(c));
        self.it.reset_with(delims);
    }

    fn judge(ctx: &mut Ctx, api: &'static str, p: &[u8; 4], v: Option<u32>, expect: &Expect, got: Got) {
        let class = prefix_class(p, v);
        ctx.eval();
        ctx.distinct(("sweep", api, class, std::mem::discriminant(&got)));
        let ok = match (expect, &got) {
            (Expect::Special(w), Got::Special(g)) => w == g,
            (Expect::Data(n), Got::Data(g, same)) | (Expect::DataOrError(n), Got::Data(g, same)) => n == g && *same,
            (Expect::Error, Got::Error(_)) | (Expect::DataOrError(_), Got::Error(_)) => true,
            _ => false,
        };
        match &got {
            Got::Special(_) => ctx.count("sweep_special"),
            Got::Data(..) => ctx.count("sweep_data"),
            Got::Error(_) => ctx.count("sweep_error"),
            Got::Other(_) => ctx.count("sweep_other"),
        }
        if ok {
            return;
        }
        let verdict = match (expect, &got) {
            (Expect::Error, Got::Data(..)) | (Expect::Error, Got::Special(_)) => "accepted-malformed",
            (Expect::Data(_), Got::Error(_)) | (Expect::Special(_), Got::Error(_)) => "rejected-valid",
            _ => "wrong-line",
        };
        ctx.violation(
            &format!("prefix|{verdict}|{api}|{class}"),
            "a 4-byte length prefix was not handled as git's pkt-line format demands (0000/0001/0002 special, 0005..fff0 data of len-4 bytes, everything else an error)",
            json!({"prefix": show(p), "value": v, "api": api, "expect": format!("{expect:?}"), "got": format!("{got:?}")}),
        );
    }

    fn data_got(&self, d: &[u8], offset: usize) -> Got {
        Got::Data(d.len(), d == &self.buf[4 + offset..4 + offset + d.len()])
    }

    /// `full`: also peek_line and the side-band readers
    fn check(&mut self, ctx: &mut Ctx, p: [u8; 4], v: Option<u32>, expect: &Expect, full: bool) {
        self.buf[..4].copy_from_slice(&p);
        let witness = json!({"prefix": show(&p), "value": v, "followed_by": "65552 filler bytes"});
        let shape = panic_shape(&p, v);
        let upper = p.iter().any(|c| c.is_ascii_uppercase());
        // 1. hex_prefix
        match guard(|| decode::hex_prefix(&p)) {
            Err(pn) => ctx.panic_violation("decode::hex_prefix", &pn, shape, witness.clone()),
            Ok(res) => {
                let got = match res {
                    Ok(decode::PacketLineOrWantedSize::Line(l)) => Got::Special(to_w(l)),
                    Ok(decode::PacketLineOrWantedSize::Wanted(n)) => Got::Data(n as usize, true),
                    Err(e) => Got::Error(e.to_string()),
                };
                // hex_prefix alone does not apply the maximum: fff1..ffff are 'wanted sizes' which the callers must refuse
                let exp = match (expect, v) {
                    (Expect::Error, Some(v)) if v > 65520 && upper => Expect::DataOrError(v as usize - 4),
                    (Expect::Error, Some(v)) if v > 65520 => Expect::Data(v as usize - 4),
                    (e, _) => e.clone(),
                };
                Self::judge(ctx, "hex_prefix", &p, v, &exp, got);
            }
        }
        // 2. streaming / all_at_once with all bytes available
        for api in ["streaming", "all_at_once"] {
            let res = guard(|| {
                if api == "streaming" {
                    match decode::streaming(&self.buf) {
                        Ok(decode::Stream::Complete { line, bytes_consumed }) => match line {
                            PacketLineRef::Data(d) => {
                                if bytes_consumed == d.len() + 4 {
                                    self.data_got(d, 0)
                                } else {
                                    Got::Other(format!("consumed {bytes_consumed} for {} data bytes", d.len()))
                                }
                            }
                            l => {
                                if bytes_consumed == 4 {
                                    Got::Special(to_w(l))
                                } else {
                                    Got::Other(format!("consumed {bytes_consumed} for special line"))
                                }
                            }
                        },
                        Ok(decode::Stream::Incomplete { bytes_needed }) => Got::Other(format!("incomplete:{bytes_needed}")),
                        Err(e) => Got::Error(e.to_string()),
                    }
                } else {
                    match decode::all_at_once(&self.buf) {
                        Ok(PacketLineRef::Data(d)) => self.data_got(d, 0),
                        Ok(l) => Got::Special(to_w(l)),
                        Err(e) => Got::Error(e.to_string()),
                    }
                }
            });
            match res {
                Err(pn) => ctx.panic_violation(&format!("decode::{api}"), &pn, shape, witness.clone()),
                Ok(got) => Self::judge(ctx, api, &p, v, expect, got),
            }
        }
        // 2b. streaming with one byte missing must ask for it (valid data prefixes only)
        if let Expect::Data(n) = expect {
            let have = 4 + n - 1;
            match guard(|| decode::streaming(&self.buf[..have]).map(|s| matches!(s, decode::Stream::Incomplete { bytes_needed: 1 }))) {
                Ok(Ok(true)) => {}
                Ok(other) => ctx.violation(
                    "streaming|incomplete-bytes-needed",
                    "decode::streaming on a line missing one byte did not report bytes_needed=1",
                    json!({"prefix": show(&p), "got": format!("{:?}", other.map_err(|e| e.to_string()))}),
                ),
                Err(pn) => ctx.panic_violation("decode::streaming", &pn, shape, witness.clone()),
            }
            ctx.eval();
        }
        // 3. blocking reader: read_line (always), peek_line (full)
        for api in ["read_line", "peek_line"] {
            if api == "peek_line" && !full {
                continue;
            }
            self.load(DELIMS[1], |_| {});
            let res = guard(|| {
                fn cls(r: Option<io::Result<Result<PacketLineRef<'_>, decode::Error>>>, fill: &[u8]) -> Got {
                    match r {
                        None => Got::Other("None".into()),
                        Some(Err(e)) => Got::Other(format!("io:{e}")),
                        Some(Ok(Err(e))) => Got::Error(e.to_string()),
                        Some(Ok(Ok(PacketLineRef::Data(d)))) => Got::Data(d.len(), d == &fill[..d.len()]),
                        Some(Ok(Ok(l))) => Got::Special(to_w(l)),
                    }
                }
                if api == "read_line" {
                    cls(self.it.read_line(), &self.buf[4..])
                } else {
                    // peek twice, then read: all three must agree (errors are not repeated: they consume the prefix)
                    let a = cls(self.it.peek_line(), &self.buf[4..]);
                    if matches!(a, Got::Data(..) | Got::Special(_)) {
                        let b = cls(self.it.peek_line(), &self.buf[4..]);
                        let c = cls(self.it.read_line(), &self.buf[4..]);
                        if a != b || a != c {
                            return Got::Other(format!("peek {a:?}, peek again {b:?}, read {c:?}"));
                        }
                    }
                    a
                }
            });
            match res {
                Err(pn) => {
                    self.poisoned = true;
                    ctx.panic_violation("reader", &pn, shape, witness.clone())
                }
                Ok(got) => Self::judge(ctx, api, &p, v, expect, got),
            }
        }
        if !full {
            return;
        }
        // 4. side-band readers: prefix, (band byte,) payload, flush
        let vv = v.unwrap_or(0) as usize;
        let data_expected = matches!(expect, Expect::Data(_) | Expect::DataOrError(_));
        for band in [0u8, 1, 2, 3] {
            self.load(DELIMS[0], |c| {
                if data_expected {
                    // the line claims vv bytes in total; put a flush right behind it
                    c[vv..vv + 4].copy_from_slice(b"0000");
                }
                if band != 0 {
                    c[4] = band;
                }
            });
            let cbs: RefCell<Vec<(bool, Vec<u8>)>> = RefCell::new(Vec::new());
            let res = guard(|| {
                let mut data = Vec::new();
                let r = if band == 0 {
                    self.it.as_read().read_to_end(&mut data)
                } else {
                    self.it
                        .as_read_with_sidebands(|e: bool, t: &[u8]| {
                            cbs.borrow_mut().push((e, t.to_vec()));
                            ProgressAction::Continue
                        })
                        .read_to_end(&mut data)
                };
                (r.map_err(|e| e.to_string()), data)
            });
            // restore the shared stream from the pristine copy
            if res.is_err() {
                self.poisoned = true;
            }
            let (buf, it) = (&self.buf, &mut self.it);
            let mut c = it.replace(io::Cursor::new(Vec::new())).into_inner();
            if c.len() == buf.len() {
                if data_expected {
                    c[vv..vv + 4].copy_from_slice(&buf[vv..vv + 4]);
                }
                c[4] = buf[4];
            }
            it.replace(io::Cursor::new(c));
            let api: &'static str = ["as_read", "sideband-1", "sideband-2", "sideband-3"][band as usize];
            let (r, data) = match res {
                Err(pn) => {
                    let shape = if vv == 5 && band >= 2 { "empty-progress-or-error-band" } else { shape };
                    ctx.panic_violation(
                        "reader",
                        &pn,
                        shape,
                        json!({"prefix": show(&p), "value": v, "band": band, "followed_by": "band byte, payload, flush", "via": api}),
                    );
                    continue;
                }
                Ok(x) => x,
            };
            let cbs = cbs.into_inner();
            let got = match (&r, expect) {
                (Err(e), _) => Got::Error(e.clone()),
                (Ok(_), Expect::Data(n)) | (Ok(_), Expect::DataOrError(n)) => {
                    // payload the reader should deliver: filler after the band byte (band 0: whole line)
                    let skip = usize::from(band != 0);
                    let want = &self.buf[4 + skip..4 + n];
                    let ok = match band {
                        0 | 1 => data == want && cbs.is_empty(),
                        _ => data.is_empty() && cbs.len() == 1 && cbs[0].0 == (band == 3) && (cbs[0].1 == want || &cbs[0].1[..] == strip_nl(want)),
                    };
                    Got::Data(*n, ok)
                }
                // flush is the delimiter → Ok(0)
                (Ok(_), Expect::Special(W::Flush)) if data.is_empty() => Got::Special(W::Flush),
                (Ok(_), _) => Got::Other(format!("Ok with {} bytes", data.len())),
            };
            let exp = match expect {
                // a delimiter/response-end packet inside a data stream is refused by both readers
                Expect::Special(W::Delim) | Expect::Special(W::End) => Expect::Error,
                e => e.clone(),
            };
            Self::judge(ctx, api, &p, v, &exp, got);
        }
    }
}

fn sweep(ctx: &mut Ctx) {
    let mut s = Sweep::new();
    let quick = ctx.quick();
    for v in 0..=0xffffu32 {
        if v % 4096 == 0 && !ctx.time_left() {
            ctx.count("budget_stops");
            ctx.note("sweep_stopped_at", json!(v));
            return;
        }
        let p: [u8; 4] = format!("{v:04x}").into_bytes().try_into().expect("4 digits");
        let full = !quick || v <= 1100 || v >= 64_400 || v % 16 == 5;
        s.check(ctx, p, Some(v), &expect_for(v, true), full);
        // upper-case and mixed-case spellings (git's hexval accepts them)
        if p.iter().any(|c| c.is_ascii_lowercase()) && (v % 64 == 10 || v >= 0xffe0 || v <= 0x2f) {
            let mut up = p;
            for (i, c) in up.iter_mut().enumerate() {
                if v % 128 != 10 || i % 2 == 0 {
                    *c = c.to_ascii_uppercase();
                }
            }
            s.check(ctx, up, Some(v), &expect_for(v, false), false);
            ctx.count("sweep_uppercase_prefixes");
        }
    }
    ctx.note("sweep_hex_prefixes", json!(65536));
}

fn nonhex_case(ctx: &mut Ctx, r: &mut Rng, s: &mut Sweep) {
    let mut p = [0u8; 4];
    match r.below(4) {
        0 => {
            for c in p.iter_mut() {
                *c = r.next_u64() as u8;
            }
        }
        1 => {
            // valid digits with exactly one intruder next to the hex ranges
            let v = r.below(0x10000) as u32;
            p = format!("{v:04x}").into_bytes().try_into().expect("4");
            p[r.usize(4)] = *r.pick(&[b'g', b'G', b'/', b':', b'@', b'`', b' ', b'+', b'-', b'x', b'\n', 0, 0xff, 0x80 | b'1']);
        }
        2 => p = *r.pick(&[*b"0x10", *b" 123", *b"-001", *b"+005", *b"00 5", *b"5   ", *b"\n005", *b"1e03", *b"000\n", *b"\x00005"]),
        _ => {
            for c in p.iter_mut() {
                *c = *r.pick(b"0123456789abcdefABCDEFgG:/@` ");
            }
        }
    }
    if p.iter().all(|c| c.is_ascii_hexdigit()) {
        return;
    }
    s.check(ctx, p, None, &Expect::Error, r.chance(1, 4));
    ctx.count("sweep_nonhex_prefixes");
}

// ------------------------------------------------------------------ entry

pub fn run(ctx: &mut Ctx) {
    // the readers allocate and free 64 KiB buffers all the time: keep glibc from trimming and re-growing the heap
    // (thousands of brk calls + page faults dominated the run time otherwise). Harness-only tuning.
    #[cfg(not(miri))]
    unsafe {
        libc::mallopt(libc::M_TRIM_THRESHOLD, 1 << 30);
        libc::mallopt(libc::M_TOP_PAD, 64 << 20);
        libc::mallopt(libc::M_MMAP_THRESHOLD, 1 << 30);
    }
    ctx.rule(
        "roundtrip: one line (data/text/ERR/band1-3/flush/delim/response-end; payload length biased to 1..8, hex-boundary and 65511..65520) \
         encoded by the free functions or *Ref::write_to, compared with an independent framing model and decoded by all_at_once, streaming, \
         truncated streaming, typed views and read_line under a random chunking. stream: 1..40 lines (+ optional malformed-prefix tail or \
         truncation) read by StreamingPeekableIter under a read/peek/reset script with two chunkings (1,2,3,prime,random,all; Interrupted), \
         delimiters config and fail_on_err_lines, compared with a model of the line list. sideband: band/plain lines incl. keep-alive, \
         terminator flush/delim/EOF, four read modes, progress callbacks with delivered-byte stamps. writer: Writer binary/text with payloads \
         up to 4x the maximum. sweep: all 65536 lower-case prefixes, upper/mixed-case and non-hex prefixes through hex_prefix, streaming, \
         all_at_once, read_line, peek_line and the side-band readers. distinct = (part, kinds/length classes, chunk patterns, config, outcome class).",
    );
    ctx.assume("Miri run of the design was dropped: gix-packetline is #![deny(unsafe_code)]; panics unwind and are caught in-process");
    let n = ctx.n(40_000, 200_000);
    ctx.cases("roundtrip", n, roundtrip_case);
    let n = ctx.n(8_000, 60_000);
    ctx.cases("stream", n, stream_case);
    let n = ctx.n(6_000, 50_000);
    ctx.cases("sideband", n, sideband_case);
    let n = ctx.n(800, 10_000);
    ctx.cases("writer", n, writer_case);
    if ctx.replay.is_none() {
        sweep(ctx);
    }
    let n = ctx.n(4_000, 100_000);
    let mut s = Sweep::new();
    ctx.cases("prefix-nonhex", n, |ctx, r| nonhex_case(ctx, r, &mut s));
}
