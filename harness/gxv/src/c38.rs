//! C38 Attribute values agree with `git check-attr`.
//!
//! Oracle G: a generated worktree with `.gitattributes` at several levels, `.git/info/attributes` and
//! `core.attributesFile`, macros (`[attr]m a -b c=1`, nested, re-defined `binary`), `attr`, `-attr`, `!attr`, `attr=value`,
//! quoted patterns, with and without `core.ignoreCase`. For every file and directory (directories are asked as `dir/`,
//! which is how git's attr code learns that a path is a directory) ONE
//! `git check-attr -z --stdin <all attribute names of the universe>` gives the state of every attribute, including
//! "unspecified"; a second call with `-a` gives the set git reports as "all". gitoxide's answers come from
//! `gix::Repository::attributes_only()` -> `Stack::at_entry(path, mode).matching_attributes(&mut outcome)` with an outcome
//! for all attributes (`attribute_matches()`, compared with `-a`) and with a selection (`selected_attribute_matches`).
//! A `--cached` pass reads `.gitattributes` from the index on both sides (`Source::IdMapping`).
//!
//! Oracle R (re-use of one `Outcome`): the callers of the attribute search keep ONE `gix_attributes::search::Outcome` and
//! send many paths through it (`initialize()`/`reset()` before each path), often initialized with a selection of a few names,
//! which lets the search stop as soon as the selection is filled. For sequences of paths in random order (paths repeat)
//! and for random selections of 1..3 names (plain attributes, macros, names that never occur) as well as without a
//! selection, every value of the re-used outcome must equal `git check-attr <names>` (`-a` without a selection) AND
//! the value a fresh outcome gives for the same path (the answer for a path must not depend on the paths asked before).
//! Driven through `gix_worktree::Stack` (`selected_attribute_matches()`/`attribute_matches()`, `at_entry()`,
//! `matching_attributes()`) and through `gix_attributes::Search::pattern_matching_relative_path()` directly, with pattern
//! lists pushed and popped per directory the way gix-worktree does it.
//! For the Stack the re-used outcome is created after the first `at_entry()` (the root `.gitattributes` and `info/attributes`, and
//! with them all macro definitions, are known then); a second re-used outcome is created right after the Stack, before any
//! attribute file was read, as callers usually do: the two must agree (`early-outcome|...`).
use crate::fw::{git, guard, show, Ctx, Rng};
use bstr::ByteSlice;
use serde_json::json;
use std::collections::{BTreeMap, BTreeSet};
use std::path::PathBuf;

pub fn child(_mode: &str) {}

const NAMES: &[&str] = &["a", "b", "ab", "A", "B", "a.o", "b.o", "x.txt", "build", "src", "lib", "Makefile", "t s", "[x]", "a.O", "Build", "c", "d", "ab.c", "foo", "st*r", "q?", "b\\s", "-d", "a!", "#h"];
/// the attribute universe; m1, m2, m3 and binary are (possibly) macros
const ATTRS: &[&str] = &["text", "eol", "diff", "merge", "binary", "foo", "bar", "a-b", "x.y", "_u", "CAP", "m1", "m2", "m3"];
const VALUES: &[&str] = &["1", "lf", "crlf", "auto", "v", "a,b", "x=y", "UP"];

struct Scenario {
    root: PathBuf,
    files: Vec<String>,
    dirs: Vec<String>,
    attr_files: Vec<(String, Vec<u8>)>,
    icase: bool,
    global: Option<PathBuf>,
}

fn flip_case(r: &mut Rng, s: &str) -> String {
    s.chars().map(|c| if c.is_ascii_alphabetic() && r.chance(1, 2) { ((c as u8) ^ 0x20) as char } else { c }).collect()
}
fn escape_glob(s: &str) -> String {
    let mut o = String::new();
    for c in s.chars() {
        if matches!(c, '*' | '?' | '[' | '\\') {
            o.push('\\');
        }
        o.push(c);
    }
    o
}
/// C-style quoting as understood by git's `unquote_c_style`
fn c_quote(s: &str) -> String {
    let mut o = String::from("\"");
    for c in s.chars() {
        match c {
            '"' => o.push_str("\\\""),
            '\\' => o.push_str("\\\\"),
            '\t' => o.push_str("\\t"),
            _ => o.push(c),
        }
    }
    o.push('"');
    o
}

fn gen_assignments(r: &mut Rng, allow_macro_names: bool) -> String {
    let n = 1 + r.usize(4);
    let mut v = Vec::new();
    for _ in 0..n {
        let name = loop {
            let n = *r.pick(ATTRS);
            if allow_macro_names || !matches!(n, "m1" | "m2" | "m3") || r.chance(1, 6) {
                break n;
            }
        };
        v.push(match r.below(10) {
            0..=3 => name.to_string(),
            4 | 5 => format!("-{name}"),
            6 => format!("!{name}"),
            _ => format!("{name}={}", r.pick(VALUES)),
        });
    }
    v.join(if r.chance(1, 10) { "\t" } else { " " })
}

/// 2..5 assignments over a pool of 1..3 names and the macros, so that a line assigns an attribute more than once: directly
/// (`a -a`), through a macro and directly (`binary diff=v`), or through nested macros
fn gen_assignments_dense(r: &mut Rng) -> String {
    let pool: Vec<&str> = (0..1 + r.usize(3)).map(|_| *r.pick(ATTRS)).collect();
    let n = 2 + r.usize(4);
    let mut v = Vec::new();
    for _ in 0..n {
        if r.chance(1, 4) {
            let m = *r.pick(&["binary", "m1", "m2", "m3"]);
            v.push(if r.chance(1, 6) { format!("-{m}") } else { m.to_string() });
            continue;
        }
        let name = *r.pick(&pool);
        v.push(match r.below(10) {
            0..=2 => name.to_string(),
            3..=5 => format!("-{name}"),
            6 => format!("!{name}"),
            _ => format!("{name}={}", r.pick(VALUES)),
        });
    }
    v.join(" ")
}

/// the pattern part of a line for an attribute file whose directory contains `below`
fn gen_pattern(r: &mut Rng, below: &[String], icase: bool) -> String {
    let target: String = if !below.is_empty() && r.chance(4, 5) { r.pick(below).clone() } else { r.pick(NAMES).to_string() };
    let comps: Vec<&str> = target.split('/').collect();
    let base = *comps.last().unwrap();
    let first = comps[0];
    let q = |s: &str| escape_glob(s);
    let mut p: String = match r.below(14) {
        0 | 1 => q(base),
        2 => format!("/{}", q(first)),
        3 | 4 => q(&target),
        5 => match base.rfind('.') {
            Some(i) if i > 0 => format!("*{}", &base[i..]),
            _ => format!("{}*", &base[..1]),
        },
        6 => format!("**/{}", q(base)),
        7 => format!("{}/**", q(first)),
        8 => format!("{}/**/{}", q(first), q(base)),
        9 => "*".to_string(),
        10 => {
            let mut s = String::new();
            for c in target.chars() {
                match r.below(8) {
                    0 if c != '/' => s.push('?'),
                    1 if c != '/' => s.push('*'),
                    2 if c.is_ascii_alphanumeric() => s.push_str(&format!("[{}]", c.to_ascii_lowercase())),
                    3 if c.is_ascii_lowercase() && c != 'z' => s.push_str(&format!("[{}-{}]", c, ((c as u8) + 1) as char)),
                    _ => s.push_str(&escape_glob(&c.to_string())),
                }
            }
            s
        }
        11 => format!("{}/", q(base)),
        12 => {
            if comps.len() > 1 {
                format!("*/{}", q(base))
            } else {
                format!("{}/*", q(base))
            }
        }
        _ => format!("{}*", &first[..1]),
    };
    if icase && r.chance(1, 3) || r.chance(1, 25) {
        // keep escaped and bracketed letters lower-case (wildmatch-level case folding is C36's subject)
        let mut out = String::new();
        let (mut esc, mut br) = (false, false);
        for c in p.chars() {
            let c2 = if esc || br || !c.is_ascii_alphabetic() || r.bool() { c } else { ((c as u8) ^ 0x20) as char };
            if esc {
                esc = false;
            } else if c == '\\' {
                esc = true;
            } else if c == '[' {
                br = true;
            } else if c == ']' {
                br = false;
            }
            out.push(c2);
        }
        p = out;
    }
    if r.chance(1, 12) && !p.starts_with('/') {
        p.insert(0, '/');
    }
    p
}

fn gen_attr_file(r: &mut Rng, below: &[String], icase: bool, macros_allowed: bool, dense: bool) -> Vec<u8> {
    let n = 1 + r.usize(7);
    let crlf = r.chance(1, 12);
    let mut out = Vec::new();
    if r.chance(1, 30) {
        out.extend_from_slice(b"\xef\xbb\xbf");
    }
    for i in 0..n {
        let line: String = match r.below(30) {
            0 => "# comment".into(),
            1 => String::new(),
            2 => "   ".into(),
            3 | 4 | 5 if macros_allowed || r.chance(1, 8) => {
                let m = *r.pick(&["m1", "m2", "m3", "binary", "m1", "m2"]);
                format!("[attr]{m} {}", if dense && r.chance(1, 2) { gen_assignments_dense(r) } else { gen_assignments(r, true) })
            }
            6 => format!("!{} {}", gen_pattern(r, below, icase), gen_assignments(r, false)),
            7 => format!("{} {} bad/name", gen_pattern(r, below, icase), gen_assignments(r, false)),
            8 => gen_pattern(r, below, icase), // a pattern without attributes
            _ => {
                let p = gen_pattern(r, below, icase);
                let p = if p.contains(' ') || p.contains('\t') || p.starts_with('"') || p.starts_with('#') || r.chance(1, 10) { c_quote(&p) } else { p };
                let lead = if r.chance(1, 15) { "  " } else { "" };
                let sep = if r.chance(1, 10) { "\t" } else { " " };
                format!("{lead}{p}{sep}{}", if dense && r.chance(2, 3) { gen_assignments_dense(r) } else { gen_assignments(r, true) })
            }
        };
        out.extend_from_slice(line.as_bytes());
        let last = i + 1 == n;
        if last && r.chance(1, 6) {
            if crlf && r.chance(1, 3) {
                out.push(b'\r');
            }
        } else {
            out.extend_from_slice(if crlf { b"\r\n" } else { b"\n" });
        }
    }
    out
}

fn materialize(ctx: &mut Ctx, files: Vec<String>, dirs: Vec<String>, mut attr_files: Vec<(String, Vec<u8>)>, icase: bool) -> Result<Scenario, String> {
    let root = ctx.dir("attr-wt");
    let gd = root.join(".git");
    for d in ["objects/info", "objects/pack", "refs/heads", "refs/tags", "info"] {
        std::fs::create_dir_all(gd.join(d)).map_err(|e| e.to_string())?;
    }
    std::fs::write(gd.join("HEAD"), "ref: refs/heads/main\n").map_err(|e| e.to_string())?;
    for d in &dirs {
        std::fs::create_dir_all(root.join(d)).map_err(|e| format!("mkdir {d}: {e}"))?;
    }
    for f in &files {
        std::fs::write(root.join(f), b"").map_err(|e| format!("write {f}: {e}"))?;
    }
    let mut global = None;
    for (name, _) in attr_files.iter_mut() {
        if name == "<core.attributesFile>" {
            let p = ctx.dir("attr-global").join("global-attributes");
            *name = p.display().to_string();
            global = Some(p);
        }
    }
    for (name, content) in &attr_files {
        let p = if name.starts_with('/') { PathBuf::from(name) } else { root.join(name) };
        std::fs::write(&p, content).map_err(|e| format!("write {name}: {e}"))?;
    }
    let mut config = String::from("[core]\n\trepositoryformatversion = 0\n\tfilemode = true\n\tbare = false\n");
    if icase {
        config.push_str("\tignoreCase = true\n");
    }
    if let Some(p) = &global {
        config.push_str(&format!("\tattributesFile = {}\n", p.display()));
    }
    std::fs::write(gd.join("config"), config).map_err(|e| e.to_string())?;
    Ok(Scenario { root, files, dirs, attr_files, icase, global })
}

fn make_scenario(ctx: &mut Ctx, r: &mut Rng, dense: bool) -> Result<Scenario, String> {
    let icase = r.chance(3, 10);
    let mut files: BTreeSet<String> = BTreeSet::new();
    let mut dirs: BTreeSet<String> = BTreeSet::new();
    let nfiles = 5 + r.usize(30);
    let mut tries = 0;
    while files.len() < nfiles && tries < 400 {
        tries += 1;
        let depth = 1 + r.usize(4);
        let mut comps: Vec<String> = Vec::new();
        if !dirs.is_empty() && r.chance(1, 2) {
            let d = dirs.iter().nth(r.usize(dirs.len())).unwrap().clone();
            comps = d.split('/').map(|s| s.to_string()).collect();
        }
        while comps.len() < depth {
            comps.push(r.pick(NAMES).to_string());
        }
        comps.truncate(4);
        let path = comps.join("/");
        if files.contains(&path) || dirs.contains(&path) {
            continue;
        }
        let mut ok = true;
        let mut pre = String::new();
        let mut new_dirs = Vec::new();
        for c in &comps[..comps.len() - 1] {
            if !pre.is_empty() {
                pre.push('/');
            }
            pre.push_str(c);
            if files.contains(&pre) {
                ok = false;
                break;
            }
            new_dirs.push(pre.clone());
        }
        if !ok {
            continue;
        }
        files.insert(path);
        for d in new_dirs {
            dirs.insert(d);
        }
    }
    let all: Vec<String> = files.iter().chain(dirs.iter()).cloned().collect();
    let below = |dir: &str| -> Vec<String> {
        if dir.is_empty() {
            all.clone()
        } else {
            let p = format!("{dir}/");
            all.iter().filter_map(|x| x.strip_prefix(&p).map(|s| s.to_string())).collect()
        }
    };
    let mut attr_files: Vec<(String, Vec<u8>)> = Vec::new();
    if r.chance(4, 5) {
        attr_files.push((".gitattributes".into(), gen_attr_file(r, &below(""), icase, true, dense)));
    }
    for d in &dirs {
        if r.chance(1, 3) {
            attr_files.push((format!("{d}/.gitattributes"), gen_attr_file(r, &below(d), icase, false, dense)));
        }
    }
    if r.chance(2, 5) {
        attr_files.push((".git/info/attributes".into(), gen_attr_file(r, &below(""), icase, true, dense)));
    }
    if r.chance(3, 10) {
        attr_files.push(("<core.attributesFile>".into(), gen_attr_file(r, &below(""), icase, true, dense)));
    }
    materialize(ctx, files.into_iter().collect(), dirs.into_iter().collect(), attr_files, icase)
}

/// path -> attribute -> state ("set", "unset", "unspecified" or "=value")
type Table = BTreeMap<String, BTreeMap<String, String>>;

fn parse_check_attr(out: &[u8]) -> Result<Vec<(String, String, String)>, String> {
    let fields: Vec<&[u8]> = out.split(|&c| c == 0).collect();
    let mut v = Vec::new();
    let mut i = 0;
    while i + 2 < fields.len() {
        let s = |b: &[u8]| String::from_utf8_lossy(b).to_string();
        v.push((s(fields[i]), s(fields[i + 1]), s(fields[i + 2])));
        i += 3;
    }
    if i + 1 != fields.len() || !fields[i].is_empty() {
        return Err("check-attr output is not a sequence of NUL-terminated triples".into());
    }
    Ok(v)
}

fn norm_git_state(s: &str) -> String {
    match s {
        "set" | "unset" | "unspecified" => s.to_string(),
        v => format!("={v}"),
    }
}

fn git_table(sc: &Scenario, queries: &[String], args: &[&str]) -> Result<Table, String> {
    let mut input = Vec::new();
    for q in queries {
        input.extend_from_slice(q.as_bytes());
        input.push(0);
    }
    let mut a: Vec<&str> = vec!["check-attr", "-z", "--stdin"];
    a.extend_from_slice(args);
    let o = git::run_in_env(&sc.root, &a, &input, &[("GIT_ATTR_NOSYSTEM", "1")]).map_err(|e| e.to_string())?;
    if !o.ok {
        return Err(format!("check-attr failed ({:?}): {}", o.code, o.err_text()));
    }
    let mut t: Table = queries.iter().map(|q| (q.clone(), BTreeMap::new())).collect();
    for (path, attr, state) in parse_check_attr(&o.stdout)? {
        match t.get_mut(&path) {
            Some(m) => {
                m.insert(attr, norm_git_state(&state));
            }
            None => return Err(format!("check-attr answered for unknown path {:?}", path)),
        }
    }
    Ok(t)
}

fn state_text(s: gix::attrs::StateRef<'_>) -> String {
    match s {
        gix::attrs::StateRef::Set => "set".into(),
        gix::attrs::StateRef::Unset => "unset".into(),
        gix::attrs::StateRef::Unspecified => "unspecified".into(),
        gix::attrs::StateRef::Value(v) => format!("={}", v.as_bstr()),
    }
}

/// (selected table for ATTRS, table of everything that is not unspecified)
fn gix_tables(sc: &Scenario, queries: &[String], order: &[usize], from_index: bool) -> Result<(Table, Table), String> {
    use gix::worktree::stack::state::attributes::Source;
    let repo = gix::open_opts(&sc.root, gix::open::Options::isolated()).map_err(|e| format!("open: {e}"))?;
    let index = repo.index_or_empty().map_err(|e| format!("index: {e}"))?;
    let source = if from_index { Source::IdMapping } else { Source::WorktreeThenIdMapping };
    let mut stack = repo.attributes_only(&index, source).map_err(|e| format!("attributes_only: {e}"))?;
    let mut selected = stack.selected_attribute_matches(ATTRS.iter().copied());
    let mut all = stack.attribute_matches();
    let mut t_sel = Table::new();
    let mut t_all = Table::new();
    for &qi in order {
        let q = &queries[qi];
        let (rel, mode) = match q.strip_suffix('/') {
            Some(d) => (d, Some(gix::index::entry::Mode::DIR)),
            None => (q.as_str(), if sc.root.join(q).exists() { Some(gix::index::entry::Mode::FILE) } else { None }),
        };
        let platform = stack.at_entry(rel.as_bytes().as_bstr(), mode).map_err(|e| format!("at_entry({q:?}): {e}"))?;
        platform.matching_attributes(&mut selected);
        let mut m = BTreeMap::new();
        for mt in selected.iter_selected() {
            m.insert(mt.assignment.name.as_str().to_string(), state_text(mt.assignment.state));
        }
        t_sel.insert(q.clone(), m);
        platform.matching_attributes(&mut all);
        let mut m = BTreeMap::new();
        for mt in all.iter() {
            if !matches!(mt.assignment.state, gix::attrs::StateRef::Unspecified) {
                m.insert(mt.assignment.name.as_str().to_string(), state_text(mt.assignment.state));
            }
        }
        t_all.insert(q.clone(), m);
    }
    Ok((t_sel, t_all))
}


// ------------------------------------------------------------------------------------------------
// Classification aid (never a verdict): git's resolution rules re-stated on top of gitoxide's own line parser and
// pattern matcher, with two switches that re-state the rules the way gitoxide applies them. A disagreement is named
// after the switch setting that reproduces gitoxide's answer.
// ------------------------------------------------------------------------------------------------
#[derive(Clone, Copy, PartialEq, Eq)]
struct Rules {
    /// expand a macro whatever state it is assigned (git: only when it is *set*)
    expand_always: bool,
    /// info/attributes ranks between the root .gitattributes and those of sub-directories (git: above all of them)
    info_low: bool,
}

struct ParsedFile {
    /// directory of a worktree `.gitattributes` ("" for the root one), None for info/global files
    base: Option<String>,
    macros_allowed: bool,
    /// in file order: (pattern or macro name, assignments)
    lines: Vec<(gix_attributes::parse::Kind, Vec<(String, String)>)>,
}

fn parse_file(content: &[u8], base: Option<String>, macros_allowed: bool) -> ParsedFile {
    let mut lines = Vec::new();
    for l in gix_attributes::parse(content) {
        let Ok((kind, assignments, _line_no)) = l else { continue };
        let mut v = Vec::new();
        let mut ok = true;
        for a in assignments {
            match a {
                Ok(a) => v.push((a.name.as_str().to_string(), state_text(a.state))),
                Err(_) => ok = false,
            }
        }
        if ok {
            lines.push((kind, v));
        }
    }
    ParsedFile { base, macros_allowed, lines }
}

fn model(sc: &Scenario, path: &str, is_dir: bool, rules: Rules) -> BTreeMap<String, String> {
    let rel_path = path.trim_end_matches('/');
    let mut root_file = None;
    let mut info = None;
    let mut global = None;
    let mut dirs: Vec<(usize, ParsedFile)> = Vec::new();
    for (name, content) in &sc.attr_files {
        if name == ".git/info/attributes" {
            info = Some(parse_file(content, None, true));
        } else if name.starts_with('/') {
            global = Some(parse_file(content, None, true));
        } else if name == ".gitattributes" {
            root_file = Some(parse_file(content, Some(String::new()), true));
        } else if let Some(d) = name.strip_suffix("/.gitattributes") {
            let applies = rel_path.len() > d.len() + 1 && rel_path.as_bytes()[d.len()] == b'/' && rel_path.starts_with(d); // the directory itself is looked up on disk / in the index: exact case
            if applies {
                dirs.push((d.matches('/').count(), parse_file(content, Some(d.to_string()), false)));
            }
        }
    }
    dirs.sort_by_key(|(depth, _)| std::cmp::Reverse(*depth));
    let builtin = parse_file(b"[attr]binary -diff -merge -text", None, true);
    // priority: high -> low
    let mut order: Vec<&ParsedFile> = Vec::new();
    if !rules.info_low {
        order.extend(info.iter());
    }
    order.extend(dirs.iter().map(|(_, f)| f));
    if rules.info_low {
        order.extend(info.iter());
    }
    order.extend(root_file.iter());
    order.extend(global.iter());
    order.push(&builtin);
    // macro definitions: the highest ranking file that defines it, its last definition
    let mut macros: BTreeMap<String, Vec<(String, String)>> = BTreeMap::new();
    for f in [Some(&builtin), global.as_ref(), root_file.as_ref(), info.as_ref()].into_iter().flatten() {
        if !f.macros_allowed {
            continue;
        }
        for (kind, assignments) in &f.lines {
            if let gix_attributes::parse::Kind::Macro(name) = kind {
                macros.insert(name.as_str().to_string(), assignments.clone());
            }
        }
    }
    fn apply(out: &mut BTreeMap<String, String>, assignments: &[(String, String)], macros: &BTreeMap<String, Vec<(String, String)>>, rules: Rules, depth: usize) {
        for (name, state) in assignments.iter().rev() {
            if out.contains_key(name) {
                continue;
            }
            out.insert(name.clone(), state.clone());
            if let Some(m) = macros.get(name) {
                if (state == "set" || rules.expand_always) && depth < 20 {
                    apply(out, m, macros, rules, depth + 1);
                }
            }
        }
    }
    let case = if sc.icase { gix_glob::pattern::Case::Fold } else { gix_glob::pattern::Case::Sensitive };
    let mut out = BTreeMap::new();
    for f in order {
        let rel: &str = match f.base.as_deref() {
            None | Some("") => rel_path,
            Some(b) => &rel_path[b.len() + 1..],
        };
        for (kind, assignments) in f.lines.iter().rev() {
            let gix_attributes::parse::Kind::Pattern(p) = kind else { continue };
            if p.matches_repo_relative_path(rel.as_bytes().as_bstr(), rel.rfind('/').map(|i| i + 1), Some(is_dir), case, gix_glob::wildmatch::Mode::NO_MATCH_SLASH_LITERAL) {
                apply(&mut out, assignments, &macros, rules, 0);
            }
        }
    }
    out
}

/// name of the rule difference that reproduces gitoxide's answer `x` where git says `g`
fn explain(sc: &Scenario, path: &str, attr: &str, g: &str, x: &str) -> &'static str {
    let is_dir = path.ends_with('/');
    let get = |rules: Rules| model(sc, path, is_dir, rules).get(attr).cloned().unwrap_or_else(|| "unspecified".into());
    if get(Rules { expand_always: false, info_low: false }) != g {
        return "unexplained-by-rule-model";
    }
    let a = get(Rules { expand_always: true, info_low: false }) == x;
    let b = get(Rules { expand_always: false, info_low: true }) == x;
    match (a, b) {
        (true, false) => "macro-expanded-although-not-set",
        (false, true) => "info-attributes-outranked-by-subdirectory-gitattributes",
        (true, true) => "macro-expanded-although-not-set-or-info-attributes-outranked",
        (false, false) => {
            if get(Rules { expand_always: true, info_low: true }) == x {
                "macro-expanded-although-not-set+info-attributes-outranked"
            } else {
                "unexplained"
            }
        }
    }
}

fn kind_of(state: &str) -> &'static str {
    match state {
        "set" => "set",
        "unset" => "unset",
        "unspecified" => "unspecified",
        _ => "value",
    }
}

/// ask git and gitoxide about every query x attribute and compare
fn check_scenario(ctx: &mut Ctx, sc: &Scenario, queries: &[String], order: Vec<usize>, with_all: bool, with_index: bool, stash: &mut Vec<(bool, GitTables)>) {
    ctx.count("worktrees");
    ctx.count_n("attribute_files", sc.attr_files.len() as u64);
    if sc.global.is_some() {
        ctx.count("with_core_attributesfile");
    }
    if sc.icase {
        ctx.count("with_ignorecase");
    }
    let witness_base = json!({
        "attribute_files": sc.attr_files.iter().map(|(n, c)| json!({"file": n, "content": show(c)})).collect::<Vec<_>>(),
        "ignorecase": sc.icase,
    });
    let passes: Vec<(&str, bool)> = if with_index { vec![("worktree", false), ("index", true)] } else { vec![("worktree", false)] };
    for (pass, cached) in passes {
        if cached {
            let tracked: Vec<&String> = sc.attr_files.iter().map(|(n, _)| n).filter(|n| !n.starts_with(".git/") && !n.starts_with('/')).collect();
            if tracked.is_empty() {
                continue;
            }
            // git strips a UTF-8 BOM only when it reads an attribute file from disk, not from the index; that
            // inconsistency of git itself is not demanded from gitoxide
            if sc.attr_files.iter().any(|(n, c)| !n.starts_with(".git/") && !n.starts_with('/') && c.starts_with(b"\xef\xbb\xbf")) {
                ctx.count("index_pass_skipped_because_of_bom");
                continue;
            }
            let mut input = Vec::new();
            for t in &tracked {
                input.extend_from_slice(t.as_bytes());
                input.push(0);
            }
            match git::run_in(&sc.root, &["update-index", "--add", "-z", "--stdin"], &input) {
                Ok(o) if o.ok => ctx.count("git_spawns"),
                Ok(o) => {
                    ctx.inconclusive(&format!("git update-index --add failed: {}", o.err_text()));
                    return;
                }
                Err(e) => {
                    ctx.inconclusive(&format!("git spawn failed: {e}"));
                    return;
                }
            }
            ctx.count("worktrees_with_index_pass");
        }
        let mut args: Vec<&str> = Vec::new();
        if cached {
            args.push("--cached");
        }
        let mut sel_args = args.clone();
        sel_args.extend_from_slice(ATTRS);
        sel_args.extend_from_slice(NEVER); // not compared here: oracle R takes its expectations for selections from this answer
        let git_sel = match git_table(sc, queries, &sel_args) {
            Ok(t) => t,
            Err(e) => {
                ctx.inconclusive(&format!("git check-attr unusable: {e}"));
                return;
            }
        };
        ctx.count("git_spawns");
        let git_all = if with_all {
            let mut a = args.clone();
            a.push("-a");
            match git_table(sc, queries, &a) {
                Ok(t) => {
                    ctx.count("git_spawns");
                    Some(t)
                }
                Err(e) => {
                    ctx.inconclusive(&format!("git check-attr -a unusable: {e}"));
                    return;
                }
            }
        } else {
            None
        };
        stash.push((cached, GitTables { names: git_sel.clone(), all: git_all.clone() }));
        let (sc_ref, q_ref, ord) = (sc, queries, order.clone());
        let (gix_sel, gix_all) = match guard(move || gix_tables(sc_ref, q_ref, &ord, cached)) {
            Err(pi) => {
                ctx.panic_violation("Stack::at_entry/matching_attributes", &pi, pass, witness_base.clone());
                return;
            }
            Ok(Err(e)) => {
                ctx.violation(&format!("attr|error|{pass}"), &format!("gitoxide failed where git answered: {e}"), witness_base.clone());
                return;
            }
            Ok(Ok(t)) => t,
        };
        for q in queries {
            let is_dir = q.ends_with('/');
            let depth = q.trim_end_matches('/').matches('/').count().min(3);
            for attr in ATTRS {
                ctx.eval();
                ctx.count("attribute_values_compared");
                let g = git_sel[q].get(*attr).cloned().unwrap_or_else(|| "<missing>".into());
                let x = gix_sel[q].get(*attr).cloned().unwrap_or_else(|| "<missing>".into());
                let is_macro = matches!(*attr, "m1" | "m2" | "m3" | "binary");
                ctx.distinct((kind_of(&g), kind_of(&x), is_macro, depth, is_dir, sc.icase, cached));
                ctx.count(&format!("git_state_{}", kind_of(&g)));
                if g != x {
                    let mut w = witness_base.clone();
                    w["query"] = json!(q);
                    w["attribute"] = json!(attr);
                    w["git"] = json!(g);
                    w["gix"] = json!(x);
                    w["pass"] = json!(pass);
                    let cause = explain(sc, q, attr, &g, &x);
                    w["cause"] = json!(cause);
                    let cause = if cause == "macro-expanded-although-not-set-or-info-attributes-outranked" { "macro-expanded-although-not-set" } else { cause };
                    let sig = if cause.starts_with("unexplained") {
                        format!("attr|value|{cause}|git-{}|gix-{}{}", kind_of(&g), kind_of(&x), if is_macro { "|macro-name" } else { "" })
                    } else {
                        format!("attr|value|{cause}")
                    };
                    if std::env::var("GXV_C38_DUMP").is_ok() {
                        eprintln!("DUMP {sig}\t{q}\t{attr}\tgit={g}\tgix={x}\ticase={}\t{pass}", sc.icase);
                    }
                    ctx.violation(&sig, &format!("{:?}: attribute {attr}: git check-attr says {g}, gitoxide says {x} ({pass})", q), w);
                } else if ctx.want_sample() && g != "unspecified" {
                    ctx.sample(json!({"path": q, "attribute": attr, "both": g, "pass": pass, "ignorecase": sc.icase}));
                }
            }
            if let Some(git_all) = &git_all {
                ctx.eval();
                ctx.count("all_attribute_sets_compared");
                // the same values were compared above for the universe; here the *set* of reported names matters
                let gset: BTreeSet<&String> = git_all[q].keys().collect();
                let xset: BTreeSet<&String> = gix_all[q].keys().collect();
                if gset != xset {
                    let only_git: Vec<&&String> = gset.difference(&xset).collect();
                    let only_gix: Vec<&&String> = xset.difference(&gset).collect();
                    let mut w = witness_base.clone();
                    w["query"] = json!(q);
                    w["only_git"] = json!(only_git);
                    w["only_gix"] = json!(only_gix);
                    w["pass"] = json!(pass);
                    // name it after the cause of the first differing attribute (values from the two `-a`-like tables)
                    let first = only_git.first().or(only_gix.first()).map(|s| s.as_str()).unwrap_or("");
                    let gv = git_all[q].get(first).cloned().unwrap_or_else(|| "unspecified".into());
                    let xv = gix_all[q].get(first).cloned().unwrap_or_else(|| "unspecified".into());
                    let cause = explain(sc, q, first, &gv, &xv);
                    let cause = if cause == "macro-expanded-although-not-set-or-info-attributes-outranked" { "macro-expanded-although-not-set" } else { cause };
                    let sig = format!("attr|all-set|{cause}");
                    if std::env::var("GXV_C38_DUMP").is_ok() {
                        eprintln!("DUMP {sig}\t{q}\tonly_git={only_git:?}\tonly_gix={only_gix:?}\t{pass}");
                    }
                    ctx.violation(&sig, &format!("{:?}: `check-attr -a` lists {:?} which gitoxide does not, gitoxide lists {:?} which git does not ({pass})", q, only_git, only_gix), w);
                }
            }
        }
    }
}

// ------------------------------------------------------------------------------------------------
// Oracle R: one `Outcome` re-used over a sequence of paths
// ------------------------------------------------------------------------------------------------
/// attribute names that occur in no generated attribute file (attribute names are case-sensitive)
const NEVER: &[&str] = &["nope", "zz-never", "Text"];

#[derive(Clone)]
struct Plan {
    /// None: all attributes (`initialize()`), Some: `initialize_with_selection()`
    selection: Option<Vec<String>>,
    /// indices into the queries in the order they are asked; paths may be asked more than once
    order: Vec<usize>,
    /// `Search` API only. false: `initialize(collection)` before every path while pattern lists are loaded on demand (what
    /// gix-worktree does); true: every attribute file was seen before, only `reset()` before every path
    reset_only: bool,
    /// also through `gix_worktree::Stack` (it reads the attribute files from disk again and again, which is slow)
    via_stack: bool,
    /// ask git with exactly the selected names (one more process) instead of taking them from its answer for all names
    git_exact: bool,
}

struct Step {
    /// Stack only: what an outcome says that was created before the stack had read any attribute file and is re-used as well
    early: Option<BTreeMap<String, String>>,
    reused: BTreeMap<String, String>,
    fresh: BTreeMap<String, String>,
    /// the re-used outcome was `is_done()` after this path: the search had stopped early
    early_done: bool,
}

type Outcome = gix_attributes::search::Outcome;

fn new_outcome(collection: &gix_attributes::search::MetadataCollection, selection: &Option<Vec<String>>) -> Outcome {
    let mut out = Outcome::default();
    match selection {
        Some(names) => out.initialize_with_selection(collection, names.iter().map(|s| s.as_str())),
        None => out.initialize(collection),
    }
    out
}

/// what a caller reads from an outcome: the selected names in case of a selection, else everything that is not unspecified
fn outcome_map(out: &Outcome, selected: bool) -> BTreeMap<String, String> {
    let mut m = BTreeMap::new();
    if selected {
        for mt in out.iter_selected() {
            m.insert(mt.assignment.name.as_str().to_string(), state_text(mt.assignment.state));
        }
    } else {
        for mt in out.iter() {
            if !matches!(mt.assignment.state, gix::attrs::StateRef::Unspecified) {
                m.insert(mt.assignment.name.as_str().to_string(), state_text(mt.assignment.state));
            }
        }
    }
    m
}

/// (path without the trailing slash of a directory query, is_dir as gix-worktree derives it from the entry mode)
fn query_kind<'a>(sc: &Scenario, q: &'a str) -> (&'a str, Option<bool>) {
    match q.strip_suffix('/') {
        Some(d) => (d, Some(true)),
        None => (q, if sc.files.iter().any(|f| f == q) { Some(false) } else { None }),
    }
}

/// every plan through its own `gix_worktree::Stack` with one re-used outcome (and a fresh one per path)
fn stack_sequences(sc: &Scenario, queries: &[String], plans: &[Plan], from_index: bool) -> Result<Vec<Vec<Step>>, String> {
    use gix::worktree::stack::state::attributes::Source;
    let repo = gix::open_opts(&sc.root, gix::open::Options::isolated()).map_err(|e| format!("open: {e}"))?;
    let index = repo.index_or_empty().map_err(|e| format!("index: {e}"))?;
    let source = if from_index { Source::IdMapping } else { Source::WorktreeThenIdMapping };
    let mut res = Vec::new();
    for plan in plans {
        if !plan.via_stack {
            res.push(Vec::new());
            continue;
        }
        let mut stack = repo.attributes_only(&index, source).map_err(|e| format!("attributes_only: {e}"))?;
        let make = |stack: &gix::AttributeStack<'_>| match &plan.selection {
            Some(names) => stack.selected_attribute_matches(names.iter().map(|s| s.as_str())),
            None => stack.attribute_matches(),
        };
        let selected = plan.selection.is_some();
        // `early` is created when callers usually do it: right after the stack. `reused` is created once the stack has read
        // the root .gitattributes and info/attributes (all macro definitions are known then), so that a difference between
        // `reused` and a fresh outcome can only come from the paths asked before
        let mut early = make(&stack);
        if let Some(&qi) = plan.order.first() {
            let (rel, _) = query_kind(sc, &queries[qi]);
            let _ = stack.at_entry(rel.as_bytes().as_bstr(), None).map_err(|e| format!("at_entry({rel:?}): {e}"))?;
        }
        let mut reused = make(&stack);
        let mut steps = Vec::new();
        for &qi in &plan.order {
            let q = &queries[qi];
            let (rel, is_dir) = query_kind(sc, q);
            let mode = match is_dir {
                Some(true) => Some(gix::index::entry::Mode::DIR),
                Some(false) => Some(gix::index::entry::Mode::FILE),
                None => None,
            };
            let mut fresh = make(&stack);
            let platform = stack.at_entry(rel.as_bytes().as_bstr(), mode).map_err(|e| format!("at_entry({q:?}): {e}"))?;
            platform.matching_attributes(&mut early);
            platform.matching_attributes(&mut reused);
            platform.matching_attributes(&mut fresh);
            steps.push(Step { early: Some(outcome_map(&early, selected)), reused: outcome_map(&reused, selected), fresh: outcome_map(&fresh, selected), early_done: reused.is_done() });
        }
        res.push(steps);
    }
    Ok(res)
}

/// The pattern lists of a worktree the way `gix_worktree::stack::state::Attributes` arranges them: built-in and
/// `core.attributesFile` < root `.gitattributes` < those of sub-directories (pushed and popped as paths are visited; macros
/// only from the root) < `info/attributes`; one collection of names for all of them.
struct Lists<'a> {
    sc: &'a Scenario,
    root: PathBuf,
    case: gix_glob::pattern::Case,
    collection: gix_attributes::search::MetadataCollection,
    globals: gix_attributes::Search,
    stack: gix_attributes::Search,
    info: gix_attributes::Search,
    /// directories (spelled as on disk) that have a `.gitattributes`, without the root
    attr_dirs: BTreeSet<String>,
    /// the sub-directory lists on `stack`, outermost first
    pushed: Vec<String>,
}

impl<'a> Lists<'a> {
    fn content(sc: &'a Scenario, name: &str) -> Option<&'a [u8]> {
        sc.attr_files.iter().find(|(n, _)| n == name).map(|(_, c)| c.as_slice())
    }

    /// the attribute files are handed over as buffers (`add_patterns_buffer()`), except `core.attributesFile`
    fn new(sc: &'a Scenario) -> std::io::Result<Lists<'a>> {
        let mut collection = gix_attributes::search::MetadataCollection::default();
        let mut buf = Vec::new();
        let globals = gix_attributes::Search::new_globals(sc.global.iter().cloned(), &mut buf, &mut collection)?;
        let mut stack = gix_attributes::Search::default();
        if let Some(c) = Self::content(sc, ".gitattributes") {
            stack.add_patterns_buffer(c, sc.root.join(".gitattributes"), Some(&sc.root), &mut collection, true);
        }
        let mut info = gix_attributes::Search::default();
        if let Some(c) = Self::content(sc, ".git/info/attributes") {
            info.add_patterns_buffer(c, sc.root.join(".git/info/attributes"), None, &mut collection, true);
        }
        let attr_dirs = sc.attr_files.iter().filter_map(|(n, _)| n.strip_suffix("/.gitattributes").filter(|d| !d.starts_with('/')).map(|d| d.to_string())).collect();
        let case = if sc.icase { gix_glob::pattern::Case::Fold } else { gix_glob::pattern::Case::Sensitive };
        Ok(Lists { sc, root: sc.root.clone(), case, collection, globals, stack, info, attr_dirs, pushed: Vec::new() })
    }

    /// make `stack` hold the lists of the directories leading to `rel` (the directory an attribute file lives in is looked up
    /// on disk, hence by its exact spelling also with core.ignoreCase)
    fn enter_parent_of(&mut self, rel: &str) {
        let mut wanted: Vec<String> = Vec::new();
        let comps: Vec<&str> = rel.split('/').collect();
        let mut pre = String::new();
        for c in &comps[..comps.len() - 1] {
            if !pre.is_empty() {
                pre.push('/');
            }
            pre.push_str(c);
            if self.attr_dirs.contains(&pre) {
                wanted.push(pre.clone());
            }
        }
        let common = self.pushed.iter().zip(wanted.iter()).take_while(|(a, b)| a == b).count();
        while self.pushed.len() > common {
            self.stack.pop_pattern_list();
            self.pushed.pop();
        }
        for d in &wanted[common..] {
            let c = Self::content(self.sc, &format!("{d}/.gitattributes")).expect("attr_dirs are taken from the attribute files");
            self.stack.add_patterns_buffer(c, self.root.join(d).join(".gitattributes"), Some(&self.root), &mut self.collection, false);
            self.pushed.push(d.clone());
        }
    }

    fn matching(&self, rel: &str, is_dir: Option<bool>, out: &mut Outcome) {
        for group in [&self.info, &self.stack, &self.globals] {
            group.pattern_matching_relative_path(rel.as_bytes().as_bstr(), self.case, is_dir, out);
            if out.is_done() {
                break;
            }
        }
    }
}

/// every plan through `gix_attributes::Search` with one re-used outcome (and a fresh one per path)
fn search_sequences(sc: &Scenario, queries: &[String], plans: &[Plan]) -> Result<Vec<Vec<Step>>, String> {
    let mut res = Vec::new();
    for plan in plans {
        let mut lists = Lists::new(sc).map_err(|e| format!("reading attribute files: {e}"))?;
        if plan.reset_only {
            // all names are known before the outcome is created, the collection does not change any more
            for q in queries {
                lists.enter_parent_of(query_kind(sc, q).0);
            }
        }
        let selected = plan.selection.is_some();
        let mut reused = new_outcome(&lists.collection, &plan.selection);
        let mut steps = Vec::new();
        for &qi in &plan.order {
            let (rel, is_dir) = query_kind(sc, &queries[qi]);
            lists.enter_parent_of(rel);
            if plan.reset_only {
                reused.reset();
            } else {
                reused.initialize(&lists.collection);
            }
            lists.matching(rel, is_dir, &mut reused);
            let mut fresh = new_outcome(&lists.collection, &plan.selection);
            lists.matching(rel, is_dir, &mut fresh);
            steps.push(Step { early: None, reused: outcome_map(&reused, selected), fresh: outcome_map(&fresh, selected), early_done: reused.is_done() });
        }
        res.push(steps);
    }
    Ok(res)
}

/// 1..3 different names: attributes, macros, names that never occur
fn gen_selection(r: &mut Rng) -> Vec<String> {
    let n = 1 + r.usize(3);
    let mut v: Vec<String> = Vec::new();
    while v.len() < n {
        let name = if r.chance(1, 8) { *r.pick(NEVER) } else { *r.pick(ATTRS) };
        if !v.iter().any(|x| x == name) {
            v.push(name.to_string());
        }
    }
    v
}

/// every path at least once in random order, some a second time (also directly after itself)
fn gen_order(r: &mut Rng, n: usize) -> Vec<usize> {
    let mut order: Vec<usize> = (0..n).collect();
    for _ in 0..(n / 3 + 1) {
        order.push(r.usize(n));
    }
    r.shuffle(&mut order);
    if n > 0 && r.chance(1, 3) {
        let i = r.usize(order.len());
        let x = order[i];
        order.insert(i, x);
    }
    order
}

/// An attribute file has `**` glued to other pattern text (`ab**`, `**x`). git cuts the wildcard-free prefix of a pattern off
/// before it calls wildmatch, so that the `**` of `a/l**` becomes a leading one and matches across slashes; gitoxide does not
/// (known gix-glob deviation, subject of C37). Pattern matching as such is not what oracle R judges.
fn has_starstar_glued_to_text(sc: &Scenario) -> bool {
    sc.attr_files.iter().any(|(_, c)| {
        (0..c.len().saturating_sub(1)).any(|i| {
            c[i] == b'*' && c[i + 1] == b'*' && {
                let before = if i == 0 { b'\n' } else { c[i - 1] };
                let after = c.get(i + 2).copied().unwrap_or(b'\n');
                !matches!(before, b'/' | b' ' | b'\t' | b'\n' | b'"' | b'!') || !matches!(after, b'/' | b' ' | b'\t' | b'\n' | b'\r' | b'"')
            }
        })
    })
}

/// judge the steps of one plan: against git (`expected`) and against the fresh outcome
#[allow(clippy::too_many_arguments)]
fn judge_sequence(ctx: &mut Ctx, sc: &Scenario, api: &'static str, pass: &str, queries: &[String], plan: &Plan, steps: &[Step], expected: &Table, witness_base: &serde_json::Value) {
    let selected = plan.selection.is_some();
    let site = format!("{api}-{}", if selected { "selected" } else { "all" });
    ctx.count(&format!("reuse_sequences_{site}"));
    let has_macro = plan.selection.as_ref().map_or(false, |s| s.iter().any(|n| matches!(n.as_str(), "m1" | "m2" | "m3" | "binary")));
    let has_never = plan.selection.as_ref().map_or(false, |s| s.iter().any(|n| NEVER.contains(&n.as_str())));
    let nsel = plan.selection.as_ref().map_or(0, |s| s.len());
    let glued_starstar = has_starstar_glued_to_text(sc);
    for (i, step) in steps.iter().enumerate() {
        let q = &queries[plan.order[i]];
        let git = &expected[q];
        ctx.count("reuse_paths_compared");
        if step.early_done {
            ctx.count("reuse_paths_search_stopped_early");
        }
        // names to judge: the selection, or everything anybody reports
        let names: Vec<String> = match &plan.selection {
            Some(s) => s.clone(),
            None => git.keys().chain(step.reused.keys()).chain(step.fresh.keys()).chain(step.early.iter().flat_map(|m| m.keys())).cloned().collect::<BTreeSet<_>>().into_iter().collect(),
        };
        if !selected {
            ctx.eval();
            ctx.distinct(("reuse", api, 0usize, "all", step.early_done, false, false, i == 0, sc.icase));
        }
        for name in &names {
            let absent = if selected { "<missing>" } else { "unspecified" };
            let g = git.get(name).cloned().unwrap_or_else(|| absent.into());
            let x = step.reused.get(name).cloned().unwrap_or_else(|| absent.into());
            let f = step.fresh.get(name).cloned().unwrap_or_else(|| absent.into());
            if selected {
                ctx.eval();
                ctx.distinct(("reuse", api, nsel, kind_of(&g), step.early_done, has_macro, has_never, i == 0, sc.icase));
            }
            ctx.count("reuse_values_compared");
            if let Some(early) = &step.early {
                let e = early.get(name).cloned().unwrap_or_else(|| absent.into());
                ctx.count("early_outcome_values_compared");
                if e != x {
                    // two outcomes that saw the same paths in the same order; they differ in the moment of their creation only
                    let mut w = witness_base.clone();
                    w["selection"] = json!(plan.selection);
                    w["query"] = json!(q);
                    w["position_in_sequence"] = json!(i);
                    w["attribute"] = json!(name);
                    w["git"] = json!(g);
                    w["outcome_created_before_first_at_entry"] = json!(e);
                    w["outcome_created_after_first_at_entry"] = json!(x);
                    w["pass"] = json!(pass);
                    if std::env::var("GXV_C38_DUMP").is_ok() {
                        eprintln!("DUMP early-outcome|{site}\t{q}\t{name}\tgit={g}\tearly={e}\tlate={x}\t{pass}");
                    }
                    ctx.violation(
                        "early-outcome|stack|differs-from-outcome-created-after-root-attributes-were-read",
                        &format!("{q:?}: attribute {name} is {e} in an Outcome created right after the Stack (before its first at_entry()), {x} in one created after the first at_entry(); git check-attr says {g} ({pass})"),
                        w,
                    );
                }
            }
            if x == g && x == f {
                if selected && i > 0 && g != "unspecified" && step.early_done && ctx.counter("reuse_samples") < 2 {
                    ctx.count("reuse_samples");
                    ctx.sample(json!({"api": api, "selection": plan.selection, "path": q, "asked_before": queries[plan.order[i - 1]], "attribute": name, "git_and_reused_and_fresh_outcome": g, "pass": pass}));
                }
                continue;
            }
            if x == f && glued_starstar {
                ctx.count("reuse_git_difference_not_judged_starstar_glued_to_text");
                continue;
            }
            let mut w = witness_base.clone();
            w["api"] = json!(api);
            w["selection"] = json!(plan.selection);
            w["reset_only"] = json!(plan.reset_only);
            w["query"] = json!(q);
            w["asked_before"] = json!(plan.order[i.saturating_sub(4)..i].iter().map(|&k| queries[k].clone()).collect::<Vec<_>>());
            w["position_in_sequence"] = json!(i);
            w["attribute"] = json!(name);
            w["git"] = json!(g);
            w["reused_outcome"] = json!(x);
            w["fresh_outcome"] = json!(f);
            w["pass"] = json!(pass);
            let before = if i > 0 { queries[plan.order[i - 1]].as_str() } else { "<nothing>" };
            let sel_text = match &plan.selection {
                Some(s) => format!("selection {s:?}"),
                None => "no selection".to_string(),
            };
            if std::env::var("GXV_C38_DUMP").is_ok() {
                eprintln!("DUMP reuse|{site}\t{q}\tafter {before}\t{name}\tgit={g}\treused={x}\tfresh={f}\t{sel_text}\t{pass}");
            }
            if x != f {
                ctx.violation(
                    &format!("reuse|{site}|differs-from-fresh-outcome"),
                    &format!("{q:?} asked after {before:?} through one re-used Outcome ({sel_text}): attribute {name} is {x}, a fresh Outcome says {f}, git check-attr says {g} ({api}, {pass})"),
                    w,
                );
            } else {
                w["cause"] = json!(explain(sc, q, name, &g, &x));
                ctx.violation(
                    &format!("reuse|{site}|agrees-with-fresh-outcome-but-differs-from-git"),
                    &format!("{q:?} ({sel_text}): attribute {name}: git check-attr says {g}, re-used and fresh Outcome say {x} ({api}, {pass})"),
                    w,
                );
            }
        }
    }
}

/// what git says in one pass: for every name of the universe (ATTRS and NEVER), and with `-a`
struct GitTables {
    names: Table,
    all: Option<Table>,
}

fn git_tables(ctx: &mut Ctx, sc: &Scenario, queries: &[String], cached: bool, with_all: bool) -> Result<GitTables, String> {
    let mut args: Vec<&str> = Vec::new();
    if cached {
        args.push("--cached");
    }
    let mut a = args.clone();
    a.extend_from_slice(ATTRS);
    a.extend_from_slice(NEVER);
    let names = git_table(sc, queries, &a)?;
    ctx.count("git_spawns");
    let all = if with_all {
        let mut a = args.clone();
        a.push("-a");
        let t = git_table(sc, queries, &a)?;
        ctx.count("git_spawns");
        Some(t)
    } else {
        None
    };
    Ok(GitTables { names, all })
}

/// Oracle R for one worktree: `plans` (each with its own order) through the `Search` API (worktree pass) and through the Stack
/// (worktree pass, and index pass if the index was written). `known`: git's answers per pass (cached?) as far as they were
/// already obtained; `ask_all`: otherwise also ask `git check-attr -a`.
fn check_reuse(ctx: &mut Ctx, sc: &Scenario, queries: &[String], plans: &[Plan], known: Vec<(bool, GitTables)>, ask_all: bool) {
    if queries.is_empty() || plans.is_empty() {
        return;
    }
    ctx.count("reuse_worktrees");
    let witness_base = json!({
        "attribute_files": sc.attr_files.iter().map(|(n, c)| json!({"file": n, "content": show(c)})).collect::<Vec<_>>(),
        "ignorecase": sc.icase,
    });
    let index_written = sc.root.join(".git/index").exists();
    let mut known = known;
    let passes: Vec<(&str, bool)> = if index_written { vec![("worktree", false), ("index", true)] } else { vec![("worktree", false)] };
    for (pass, cached) in passes {
        let tables = match known.iter().position(|(c, _)| *c == cached) {
            Some(i) => known.swap_remove(i).1,
            None => match git_tables(ctx, sc, queries, cached, ask_all) {
                Ok(t) => t,
                Err(e) => {
                    ctx.inconclusive(&format!("git check-attr unusable: {e}"));
                    return;
                }
            },
        };
        // git's `-a` answer, or if that was not asked for: everything that is not unspecified in its answer for all names
        let all: Table = match &tables.all {
            Some(t) => {
                ctx.count("reuse_unselected_judged_by_git_check_attr_a");
                t.clone()
            }
            None => tables.names.iter().map(|(q, m)| (q.clone(), m.iter().filter(|(_, v)| v.as_str() != "unspecified").map(|(n, v)| (n.clone(), v.clone())).collect())).collect(),
        };
        // what git says per plan: `-a`, or the selected names out of the answer for all names, or (git_exact) the answer to
        // `git check-attr <selected names>`, which has to be the same
        let mut expected: Vec<Table> = Vec::new();
        for plan in plans {
            let Some(names) = &plan.selection else {
                expected.push(all.clone());
                continue;
            };
            let subset: Table = tables.names.iter().map(|(q, m)| (q.clone(), m.iter().filter(|(n, _)| names.contains(*n)).map(|(n, v)| (n.clone(), v.clone())).collect())).collect();
            if !plan.git_exact {
                expected.push(subset);
                continue;
            }
            let mut args: Vec<&str> = Vec::new();
            if cached {
                args.push("--cached");
            }
            args.extend(names.iter().map(|s| s.as_str()));
            match git_table(sc, queries, &args) {
                Ok(t) => {
                    ctx.count("git_spawns");
                    ctx.count("git_calls_with_exactly_the_selection");
                    if t != subset {
                        // git itself would be inconsistent; the monitor then follows the call that names the selection
                        ctx.count("git_answer_for_selection_differs_from_its_answer_for_all_names");
                    }
                    expected.push(t);
                }
                Err(e) => {
                    ctx.inconclusive(&format!("git check-attr unusable: {e}"));
                    return;
                }
            }
        }
        let apis: &[&'static str] = if cached { &["stack"] } else { &["search", "stack"] };
        for &api in apis {
            if api == "stack" && !plans.iter().any(|p| p.via_stack) {
                continue;
            }
            let (sc_ref, q_ref) = (sc, queries);
            let res = guard(move || if api == "stack" { stack_sequences(sc_ref, q_ref, plans, cached) } else { search_sequences(sc_ref, q_ref, plans) });
            let all_steps = match res {
                Err(pi) => {
                    ctx.panic_violation(if api == "stack" { "Stack::at_entry/matching_attributes with re-used Outcome" } else { "Search::pattern_matching_relative_path with re-used Outcome" }, &pi, pass, witness_base.clone());
                    continue;
                }
                Ok(Err(e)) => {
                    ctx.violation(&format!("reuse|error|{api}"), &format!("gitoxide failed where git answered: {e} ({pass})"), witness_base.clone());
                    continue;
                }
                Ok(Ok(s)) => s,
            };
            for (k, plan) in plans.iter().enumerate() {
                if api == "stack" && !plan.via_stack {
                    continue;
                }
                judge_sequence(ctx, sc, api, pass, queries, plan, &all_steps[k], &expected[k], &witness_base);
            }
        }
    }
}

/// add the tracked attribute files to the index so that a `--cached`/`Source::IdMapping` pass is possible (not when one starts
/// with a BOM, see `check_scenario`)
fn write_index(ctx: &mut Ctx, sc: &Scenario) -> bool {
    let tracked: Vec<&(String, Vec<u8>)> = sc.attr_files.iter().filter(|(n, _)| !n.starts_with(".git/") && !n.starts_with('/')).collect();
    if tracked.is_empty() || tracked.iter().any(|(_, c)| c.starts_with(b"\xef\xbb\xbf")) {
        return false;
    }
    let mut input = Vec::new();
    for (n, _) in &tracked {
        input.extend_from_slice(n.as_bytes());
        input.push(0);
    }
    match git::run_in(&sc.root, &["update-index", "--add", "-z", "--stdin"], &input) {
        Ok(o) if o.ok => {
            ctx.count("git_spawns");
            true
        }
        _ => {
            let _ = std::fs::remove_file(sc.root.join(".git/index"));
            ctx.count("reuse_index_not_written");
            false
        }
    }
}

/// `nselections` plans with a selection (the first `nstack` of them also through the Stack, the first `nexact` with their own
/// git call) and one without a selection
fn gen_plans(r: &mut Rng, nqueries: usize, nselections: usize, nstack: usize, nexact: usize) -> Vec<Plan> {
    let mut plans = Vec::new();
    for i in 0..nselections {
        plans.push(Plan { selection: Some(gen_selection(r)), order: gen_order(r, nqueries), reset_only: r.bool(), via_stack: i < nstack, git_exact: i < nexact });
    }
    plans.push(Plan { selection: None, order: gen_order(r, nqueries), reset_only: r.bool(), via_stack: true, git_exact: false });
    plans
}

pub fn run(ctx: &mut Ctx) {
    ctx.rule(
        "case = one generated worktree (5..35 files, depth<=4) with .gitattributes at root/sub-directories, info/attributes, core.attributesFile, \
         core.ignoreCase on/off; lines: pattern (basename, /anchored, with slash, *.ext, **/x, x/**, ?, [..], quoted) + 1..4 of attr, -attr, !attr, attr=value \
         over 14 names; macros [attr]m1..m3/binary (nested, redefined, also where git forbids them), negative patterns, invalid names, CRLF, BOM; \
         queries: every file, every directory as 'dir/', some non-existing names. \
         distinct = (git state kind, gitoxide state kind, attribute is a macro, depth of the path, dir/file, icase, pass). \
         Re-use (oracle R): on each of these worktrees 3 selections of 1..3 names out of the 14 + 3 that never occur, and no selection; in 25 (thorough 400) more \
         'reuse' worktrees whose lines assign an attribute several times (directly, via a macro, via nested macros) 6 selections and none; each plan is a sequence of all \
         queries in random order with repeats through ONE Outcome: gix_attributes::Search with initialize()-per-path or reset()-per-path (all plans), gix_worktree Stack \
         (1..2 selections and none; also from the index), judged per path x name against git check-attr (its answer for all names, for some selections the call with \
         exactly the selected names, `-a` or the specified part of the all-names answer without selection) and against a fresh Outcome; a hand-written worktree asks every \
         ordered pair of its 11 paths for every selection of 1 and 2 of 10 names. Stack: the re-used Outcome is created after the first at_entry(), one more is \
         created before it and must agree with it (a hand-written worktree re-defines `binary` in the root .gitattributes without any new attribute name). \
         distinct there = (api, size of selection, git state kind, search stopped early, selection has macro, has unknown name, first of sequence, icase)",
    );
    ctx.assume("attribute values are not the words set/unset/unspecified; no system/XDG attribute files (GIT_ATTR_NOSYSTEM=1, isolated open options); oracle R: no verdict from a difference to git that a fresh Outcome shares when an attribute file has `**` glued to other pattern text (git cuts the wildcard-free prefix off and then takes `**` as a leading one: gix-glob deviation known under C37); no --cached comparison when a tracked .gitattributes starts with a BOM (git strips it only when reading from disk)");
    ctx.cases("directed", 1, |ctx, _r| {
        // every known deviation class in a hand-written worktree, so that each is reported by every run
        let files: Vec<String> = ["p.x", "d/q.y", "d/q.z", "d/r.w", "d/r.v"].iter().map(|s| s.to_string()).collect();
        let attr_files: Vec<(String, Vec<u8>)> = vec![
            (".gitattributes".into(), b"[attr]m1 foo=1\n[attr]m2 foo=2\n[attr]m3 bar\n*.x -m3\n".to_vec()),
            (".git/info/attributes".into(), b"*.y text=1\n*.z !eol\n*.w m1\n*.v !foo\n".to_vec()),
            ("d/.gitattributes".into(), b"*.y text=2\n*.z eol\n*.w -m2\n*.v -m2\n".to_vec()),
        ];
        match materialize(ctx, files.clone(), vec!["d".to_string()], attr_files, false) {
            Ok(sc) => {
                ctx.count("directed_worktrees");
                let mut queries = files;
                queries.push("d/".into());
                let order = (0..queries.len()).collect();
                check_scenario(ctx, &sc, &queries, order, true, true, &mut Vec::new());
            }
            Err(e) => ctx.inconclusive(&format!("scenario setup failed: {e}")),
        }
    });
    ctx.cases("directed-reuse", 1, |ctx, _r| {
        // small scope, exhaustive: every ordered pair of paths, every selection of one and of two names (and none), so that
        // a dependence of a path's answer on the path asked before it is seen in every run
        let files: Vec<String> = ["k.one", "k.two", "k.mac", "k.nest", "k.val", "plain", "s/k.one", "s/other", "s/deep/k.val"].iter().map(|s| s.to_string()).collect();
        let attr_files: Vec<(String, Vec<u8>)> = vec![
            (
                ".gitattributes".into(),
                b"[attr]m1 foo -bar\n[attr]m2 m1 eol=lf bar\n* text\n*.one foo -foo bar\n*.two -foo foo\n*.mac binary diff=v merge\n*.nest m2 foo=2\n*.val eol=crlf eol=lf !bar bar=1\ns/ m1 -m1\n".to_vec(),
            ),
            ("s/.gitattributes".into(), b"other -text text=auto\ndeep/* m1 bar=s\n".to_vec()),
            (".git/info/attributes".into(), b"plain !foo foo=i -foo\n".to_vec()),
        ];
        match materialize(ctx, files.clone(), vec!["s".to_string(), "s/deep".to_string()], attr_files, false) {
            Ok(sc) => {
                ctx.count("directed_worktrees");
                let mut queries = files;
                queries.push("s/".into());
                queries.push("absent".into());
                // a walk that has every ordered pair of paths (also a path after itself) next to each other: Euler tour of the
                // complete directed graph with loops (Hierholzer)
                let n = queries.len();
                let mut next = vec![0usize; n];
                let (mut walk, mut order) = (vec![0usize], Vec::new());
                while let Some(&v) = walk.last() {
                    if next[v] < n {
                        next[v] += 1;
                        walk.push(next[v] - 1);
                    } else {
                        order.push(v);
                        walk.pop();
                    }
                }
                order.reverse();
                let names = ["text", "eol", "diff", "merge", "binary", "foo", "bar", "m1", "m2", "nope"];
                let mut plans = vec![Plan { selection: None, order: order.clone(), reset_only: false, via_stack: true, git_exact: false }];
                for (i, a) in names.iter().enumerate() {
                    plans.push(Plan { selection: Some(vec![a.to_string()]), order: order.clone(), reset_only: i % 2 == 0, via_stack: true, git_exact: i == 5 });
                    for (j, b) in names.iter().enumerate().skip(i + 1) {
                        let sel = if (i + j) % 2 == 0 { vec![a.to_string(), b.to_string()] } else { vec![b.to_string(), a.to_string()] };
                        plans.push(Plan { selection: Some(sel), order: order.clone(), reset_only: j % 2 == 0, via_stack: (i + j) % 3 == 0, git_exact: (i, j) == (2, 6) });
                    }
                }
                ctx.count_n("directed_reuse_ordered_pairs_of_paths", (n * n) as u64);
                check_reuse(ctx, &sc, &queries, &plans, Vec::new(), true);
            }
            Err(e) => ctx.inconclusive(&format!("scenario setup failed: {e}")),
        }
    });
    ctx.cases("directed-early-outcome", 1, |ctx, _r| {
        // the root .gitattributes re-defines a macro and brings no attribute name that the built-in `[attr]binary -diff -merge -text`
        // has not brought already: an Outcome created before the file was read keeps the old definition
        let files: Vec<String> = ["x.bin", "y.txt"].iter().map(|s| s.to_string()).collect();
        let attr_files: Vec<(String, Vec<u8>)> = vec![(".gitattributes".into(), b"[attr]binary -diff\n*.bin binary\n".to_vec())];
        match materialize(ctx, files.clone(), Vec::new(), attr_files, false) {
            Ok(sc) => {
                ctx.count("directed_worktrees");
                let order = vec![1, 0, 1, 0, 0];
                let mut plans = vec![Plan { selection: None, order: order.clone(), reset_only: false, via_stack: true, git_exact: false }];
                for sel in [vec!["merge"], vec!["text", "binary"], vec!["diff"]] {
                    plans.push(Plan { selection: Some(sel.iter().map(|s| s.to_string()).collect()), order: order.clone(), reset_only: false, via_stack: true, git_exact: true });
                }
                check_reuse(ctx, &sc, &files, &plans, Vec::new(), true);
            }
            Err(e) => ctx.inconclusive(&format!("scenario setup failed: {e}")),
        }
    });
    let n = ctx.n(45, 500);
    ctx.cases("worktree", n, |ctx, r| {
        let sc = match make_scenario(ctx, r, false) {
            Ok(s) => s,
            Err(e) => {
                ctx.inconclusive(&format!("scenario setup failed: {e}"));
                return;
            }
        };
        let mut queries: Vec<String> = sc.files.clone();
        queries.extend(sc.dirs.iter().map(|d| format!("{d}/")));
        for _ in 0..(2 + r.usize(8)) {
            let q = if !sc.dirs.is_empty() && r.chance(2, 3) {
                let di = r.usize(sc.dirs.len());
                format!("{}/{}", sc.dirs[di], r.pick(NAMES))
            } else {
                r.pick(NAMES).to_string()
            };
            let q = if r.chance(1, 3) { flip_case(r, &q) } else { q };
            if !sc.root.join(&q).exists() && !queries.contains(&q) {
                queries.push(q);
            }
        }
        let mut order: Vec<usize> = (0..queries.len()).collect();
        r.shuffle(&mut order);
        let with_all = r.chance(1, 2);
        let with_index = r.chance(1, 4);
        let mut stash = Vec::new();
        check_scenario(ctx, &sc, &queries, order, with_all, with_index, &mut stash);
        // oracle R on the same worktree, judged by the answers git has just given
        if !stash.is_empty() {
            let plans = gen_plans(r, queries.len(), 3, 1, 0);
            check_reuse(ctx, &sc, &queries, &plans, stash, false);
        }
    });
    let n = ctx.n(25, 400);
    ctx.cases("reuse", n, |ctx, r| {
        let sc = match make_scenario(ctx, r, true) {
            Ok(s) => s,
            Err(e) => {
                ctx.inconclusive(&format!("scenario setup failed: {e}"));
                return;
            }
        };
        let mut queries: Vec<String> = sc.files.clone();
        queries.extend(sc.dirs.iter().map(|d| format!("{d}/")));
        for _ in 0..(1 + r.usize(4)) {
            let q = if !sc.dirs.is_empty() && r.chance(2, 3) {
                let di = r.usize(sc.dirs.len());
                format!("{}/{}", sc.dirs[di], r.pick(NAMES))
            } else {
                r.pick(NAMES).to_string()
            };
            if !sc.root.join(&q).exists() && !queries.contains(&q) {
                queries.push(q);
            }
        }
        if r.chance(1, 6) && write_index(ctx, &sc) {
            ctx.count("reuse_worktrees_with_index_pass");
        }
        let nexact = if r.chance(1, 3) { 1 } else { 0 };
        let plans = gen_plans(r, queries.len(), 6, 2, nexact);
        let ask_all = r.chance(1, 4);
        check_reuse(ctx, &sc, &queries, &plans, Vec::new(), ask_all);
    });
}
