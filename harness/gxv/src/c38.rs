//! C38 Attribute values agree with `git check-attr`.
//!
//! Oracle G: a generated worktree with `.gitattributes` at several levels, `.git/info/attributes` and
//! `core.attributesFile`, macros (`[attr]m a -b c=1`, nested, re-defined `binary`), `attr`, `-attr`, `!attr`, `attr=value`,
//! quoted patterns, with and without `core.ignoreCase`. For every file and directory (directories are asked as `dir/`,
//! which is how git's attr code learns that a path is a directory) ONE
//! `git check-attr -z --stdin <all attribute names of the universe>` gives the state of every attribute, including
//! "unspecified"; a second call with `-a` gives the set git reports as "all". gitoxide's answers come from
//! `gix::Repository::attributes_only()` -> `Stack::at_entry(path, mode).matching_attributes(&mut outcome)` with an outcome
//! for all attributes (`attribute_matches()`, compared with `-a`) and with a selection (`selected_attribute_matches`).
//! A `--cached` pass reads `.gitattributes` from the index on both sides (`Source::IdMapping`).
use crate::fw::{git, guard, show, Ctx, Rng};
use bstr::ByteSlice;
use serde_json::json;
use std::collections::{BTreeMap, BTreeSet};
use std::path::PathBuf;

pub fn child(_mode: &str) {}

const NAMES: &[&str] = &["a", "b", "ab", "A", "B", "a.o", "b.o", "x.txt", "build", "src", "lib", "Makefile", "t s", "[x]", "a.O", "Build", "c", "d", "ab.c", "foo", "st*r", "q?", "b\\s", "-d", "a!", "#h"];
/// the attribute universe; m1, m2, m3 and binary are (possibly) macros
const ATTRS: &[&str] = &["text", "eol", "diff", "merge", "binary", "foo", "bar", "a-b", "x.y", "_u", "CAP", "m1", "m2", "m3"];
const VALUES: &[&str] = &["1", "lf", "crlf", "auto", "v", "a,b", "x=y", "UP"];

struct Scenario {
    root: PathBuf,
    files: Vec<String>,
    dirs: Vec<String>,
    attr_files: Vec<(String, Vec<u8>)>,
    icase: bool,
    global: Option<PathBuf>,
}

fn flip_case(r: &mut Rng, s: &str) -> String {
    s.chars().map(|c| if c.is_ascii_alphabetic() && r.chance(1, 2) { ((c as u8) ^ 0x20) as char } else { c }).collect()
}
fn escape_glob(s: &str) -> String {
    let mut o = String::new();
    for c in s.chars() {
        if matches!(c, '*' | '?' | '[' | '\\') {
            o.push('\\');
        }
        o.push(c);
    }
    o
}
/// C-style quoting as understood by git's `unquote_c_style`
fn c_quote(s: &str) -> String {
    let mut o = String::from("\"");
    for c in s.chars() {
        match c {
            '"' => o.push_str("\\\""),
            '\\' => o.push_str("\\\\"),
            '\t' => o.push_str("\\t"),
            _ => o.push(c),
        }
    }
    o.push('"');
    o
}

fn gen_assignments(r: &mut Rng, allow_macro_names: bool) -> String {
    let n = 1 + r.usize(4);
    let mut v = Vec::new();
    for _ in 0..n {
        let name = loop {
            let n = *r.pick(ATTRS);
            if allow_macro_names || !matches!(n, "m1" | "m2" | "m3") || r.chance(1, 6) {
                break n;
            }
        };
        v.push(match r.below(10) {
            0..=3 => name.to_string(),
            4 | 5 => format!("-{name}"),
            6 => format!("!{name}"),
            _ => format!("{name}={}", r.pick(VALUES)),
        });
    }
    v.join(if r.chance(1, 10) { "\t" } else { " " })
}

/// the pattern part of a line for an attribute file whose directory contains `below`
fn gen_pattern(r: &mut Rng, below: &[String], icase: bool) -> String {
    let target: String = if !below.is_empty() && r.chance(4, 5) { r.pick(below).clone() } else { r.pick(NAMES).to_string() };
    let comps: Vec<&str> = target.split('/').collect();
    let base = *comps.last().unwrap();
    let first = comps[0];
    let q = |s: &str| escape_glob(s);
    let mut p: String = match r.below(14) {
        0 | 1 => q(base),
        2 => format!("/{}", q(first)),
        3 | 4 => q(&target),
        5 => match base.rfind('.') {
            Some(i) if i > 0 => format!("*{}", &base[i..]),
            _ => format!("{}*", &base[..1]),
        },
        6 => format!("**/{}", q(base)),
        7 => format!("{}/**", q(first)),
        8 => format!("{}/**/{}", q(first), q(base)),
        9 => "*".to_string(),
        10 => {
            let mut s = String::new();
            for c in target.chars() {
                match r.below(8) {
                    0 if c != '/' => s.push('?'),
                    1 if c != '/' => s.push('*'),
                    2 if c.is_ascii_alphanumeric() => s.push_str(&format!("[{}]", c.to_ascii_lowercase())),
                    3 if c.is_ascii_lowercase() && c != 'z' => s.push_str(&format!("[{}-{}]", c, ((c as u8) + 1) as char)),
                    _ => s.push_str(&escape_glob(&c.to_string())),
                }
            }
            s
        }
        11 => format!("{}/", q(base)),
        12 => {
            if comps.len() > 1 {
                format!("*/{}", q(base))
            } else {
                format!("{}/*", q(base))
            }
        }
        _ => format!("{}*", &first[..1]),
    };
    if icase && r.chance(1, 3) || r.chance(1, 25) {
        // keep escaped and bracketed letters lower-case (wildmatch-level case folding is C36's subject)
        let mut out = String::new();
        let (mut esc, mut br) = (false, false);
        for c in p.chars() {
            let c2 = if esc || br || !c.is_ascii_alphabetic() || r.bool() { c } else { ((c as u8) ^ 0x20) as char };
            if esc {
                esc = false;
            } else if c == '\\' {
                esc = true;
            } else if c == '[' {
                br = true;
            } else if c == ']' {
                br = false;
            }
            out.push(c2);
        }
        p = out;
    }
    if r.chance(1, 12) && !p.starts_with('/') {
        p.insert(0, '/');
    }
    p
}

fn gen_attr_file(r: &mut Rng, below: &[String], icase: bool, macros_allowed: bool) -> Vec<u8> {
    let n = 1 + r.usize(7);
    let crlf = r.chance(1, 12);
    let mut out = Vec::new();
    if r.chance(1, 30) {
        out.extend_from_slice(b"\xef\xbb\xbf");
    }
    for i in 0..n {
        let line: String = match r.below(30) {
            0 => "# comment".into(),
            1 => String::new(),
            2 => "   ".into(),
            3 | 4 | 5 if macros_allowed || r.chance(1, 8) => {
                let m = *r.pick(&["m1", "m2", "m3", "binary", "m1", "m2"]);
                format!("[attr]{m} {}", gen_assignments(r, true))
            }
            6 => format!("!{} {}", gen_pattern(r, below, icase), gen_assignments(r, false)),
            7 => format!("{} {} bad/name", gen_pattern(r, below, icase), gen_assignments(r, false)),
            8 => gen_pattern(r, below, icase), // a pattern without attributes
            _ => {
                let p = gen_pattern(r, below, icase);
                let p = if p.contains(' ') || p.contains('\t') || p.starts_with('"') || p.starts_with('#') || r.chance(1, 10) { c_quote(&p) } else { p };
                let lead = if r.chance(1, 15) { "  " } else { "" };
                format!("{lead}{p}{}{}", if r.chance(1, 10) { "\t" } else { " " }, gen_assignments(r, true))
            }
        };
        out.extend_from_slice(line.as_bytes());
        let last = i + 1 == n;
        if last && r.chance(1, 6) {
            if crlf && r.chance(1, 3) {
                out.push(b'\r');
            }
        } else {
            out.extend_from_slice(if crlf { b"\r\n" } else { b"\n" });
        }
    }
    out
}

fn materialize(ctx: &mut Ctx, files: Vec<String>, dirs: Vec<String>, mut attr_files: Vec<(String, Vec<u8>)>, icase: bool) -> Result<Scenario, String> {
    let root = ctx.dir("attr-wt");
    let gd = root.join(".git");
    for d in ["objects/info", "objects/pack", "refs/heads", "refs/tags", "info"] {
        std::fs::create_dir_all(gd.join(d)).map_err(|e| e.to_string())?;
    }
    std::fs::write(gd.join("HEAD"), "ref: refs/heads/main\n").map_err(|e| e.to_string())?;
    for d in &dirs {
        std::fs::create_dir_all(root.join(d)).map_err(|e| format!("mkdir {d}: {e}"))?;
    }
    for f in &files {
        std::fs::write(root.join(f), b"").map_err(|e| format!("write {f}: {e}"))?;
    }
    let mut global = None;
    for (name, _) in attr_files.iter_mut() {
        if name == "<core.attributesFile>" {
            let p = ctx.dir("attr-global").join("global-attributes");
            *name = p.display().to_string();
            global = Some(p);
        }
    }
    for (name, content) in &attr_files {
        let p = if name.starts_with('/') { PathBuf::from(name) } else { root.join(name) };
        std::fs::write(&p, content).map_err(|e| format!("write {name}: {e}"))?;
    }
    let mut config = String::from("[core]\n\trepositoryformatversion = 0\n\tfilemode = true\n\tbare = false\n");
    if icase {
        config.push_str("\tignoreCase = true\n");
    }
    if let Some(p) = &global {
        config.push_str(&format!("\tattributesFile = {}\n", p.display()));
    }
    std::fs::write(gd.join("config"), config).map_err(|e| e.to_string())?;
    Ok(Scenario { root, files, dirs, attr_files, icase, global })
}

fn make_scenario(ctx: &mut Ctx, r: &mut Rng) -> Result<Scenario, String> {
    let icase = r.chance(3, 10);
    let mut files: BTreeSet<String> = BTreeSet::new();
    let mut dirs: BTreeSet<String> = BTreeSet::new();
    let nfiles = 5 + r.usize(30);
    let mut tries = 0;
    while files.len() < nfiles && tries < 400 {
        tries += 1;
        let depth = 1 + r.usize(4);
        let mut comps: Vec<String> = Vec::new();
        if !dirs.is_empty() && r.chance(1, 2) {
            let d = dirs.iter().nth(r.usize(dirs.len())).unwrap().clone();
            comps = d.split('/').map(|s| s.to_string()).collect();
        }
        while comps.len() < depth {
            comps.push(r.pick(NAMES).to_string());
        }
        comps.truncate(4);
        let path = comps.join("/");
        if files.contains(&path) || dirs.contains(&path) {
            continue;
        }
        let mut ok = true;
        let mut pre = String::new();
        let mut new_dirs = Vec::new();
        for c in &comps[..comps.len() - 1] {
            if !pre.is_empty() {
                pre.push('/');
            }
            pre.push_str(c);
            if files.contains(&pre) {
                ok = false;
                break;
            }
            new_dirs.push(pre.clone());
        }
        if !ok {
            continue;
        }
        files.insert(path);
        for d in new_dirs {
            dirs.insert(d);
        }
    }
    let all: Vec<String> = files.iter().chain(dirs.iter()).cloned().collect();
    let below = |dir: &str| -> Vec<String> {
        if dir.is_empty() {
            all.clone()
        } else {
            let p = format!("{dir}/");
            all.iter().filter_map(|x| x.strip_prefix(&p).map(|s| s.to_string())).collect()
        }
    };
    let mut attr_files: Vec<(String, Vec<u8>)> = Vec::new();
    if r.chance(4, 5) {
        attr_files.push((".gitattributes".into(), gen_attr_file(r, &below(""), icase, true)));
    }
    for d in &dirs {
        if r.chance(1, 3) {
            attr_files.push((format!("{d}/.gitattributes"), gen_attr_file(r, &below(d), icase, false)));
        }
    }
    if r.chance(2, 5) {
        attr_files.push((".git/info/attributes".into(), gen_attr_file(r, &below(""), icase, true)));
    }
    if r.chance(3, 10) {
        attr_files.push(("<core.attributesFile>".into(), gen_attr_file(r, &below(""), icase, true)));
    }
    materialize(ctx, files.into_iter().collect(), dirs.into_iter().collect(), attr_files, icase)
}

/// path -> attribute -> state ("set", "unset", "unspecified" or "=value")
type Table = BTreeMap<String, BTreeMap<String, String>>;

fn parse_check_attr(out: &[u8]) -> Result<Vec<(String, String, String)>, String> {
    let fields: Vec<&[u8]> = out.split(|&c| c == 0).collect();
    let mut v = Vec::new();
    let mut i = 0;
    while i + 2 < fields.len() {
        let s = |b: &[u8]| String::from_utf8_lossy(b).to_string();
        v.push((s(fields[i]), s(fields[i + 1]), s(fields[i + 2])));
        i += 3;
    }
    if i + 1 != fields.len() || !fields[i].is_empty() {
        return Err("check-attr output is not a sequence of NUL-terminated triples".into());
    }
    Ok(v)
}

fn norm_git_state(s: &str) -> String {
    match s {
        "set" | "unset" | "unspecified" => s.to_string(),
        v => format!("={v}"),
    }
}

fn git_table(sc: &Scenario, queries: &[String], args: &[&str]) -> Result<Table, String> {
    let mut input = Vec::new();
    for q in queries {
        input.extend_from_slice(q.as_bytes());
        input.push(0);
    }
    let mut a: Vec<&str> = vec!["check-attr", "-z", "--stdin"];
    a.extend_from_slice(args);
    let o = git::run_in_env(&sc.root, &a, &input, &[("GIT_ATTR_NOSYSTEM", "1")]).map_err(|e| e.to_string())?;
    if !o.ok {
        return Err(format!("check-attr failed ({:?}): {}", o.code, o.err_text()));
    }
    let mut t: Table = queries.iter().map(|q| (q.clone(), BTreeMap::new())).collect();
    for (path, attr, state) in parse_check_attr(&o.stdout)? {
        match t.get_mut(&path) {
            Some(m) => {
                m.insert(attr, norm_git_state(&state));
            }
            None => return Err(format!("check-attr answered for unknown path {:?}", path)),
        }
    }
    Ok(t)
}

fn state_text(s: gix::attrs::StateRef<'_>) -> String {
    match s {
        gix::attrs::StateRef::Set => "set".into(),
        gix::attrs::StateRef::Unset => "unset".into(),
        gix::attrs::StateRef::Unspecified => "unspecified".into(),
        gix::attrs::StateRef::Value(v) => format!("={}", v.as_bstr()),
    }
}

/// (selected table for ATTRS, table of everything that is not unspecified)
fn gix_tables(sc: &Scenario, queries: &[String], order: &[usize], from_index: bool) -> Result<(Table, Table), String> {
    use gix::worktree::stack::state::attributes::Source;
    let repo = gix::open_opts(&sc.root, gix::open::Options::isolated()).map_err(|e| format!("open: {e}"))?;
    let index = repo.index_or_empty().map_err(|e| format!("index: {e}"))?;
    let source = if from_index { Source::IdMapping } else { Source::WorktreeThenIdMapping };
    let mut stack = repo.attributes_only(&index, source).map_err(|e| format!("attributes_only: {e}"))?;
    let mut selected = stack.selected_attribute_matches(ATTRS.iter().copied());
    let mut all = stack.attribute_matches();
    let mut t_sel = Table::new();
    let mut t_all = Table::new();
    for &qi in order {
        let q = &queries[qi];
        let (rel, mode) = match q.strip_suffix('/') {
            Some(d) => (d, Some(gix::index::entry::Mode::DIR)),
            None => (q.as_str(), if sc.root.join(q).exists() { Some(gix::index::entry::Mode::FILE) } else { None }),
        };
        let platform = stack.at_entry(rel.as_bytes().as_bstr(), mode).map_err(|e| format!("at_entry({q:?}): {e}"))?;
        platform.matching_attributes(&mut selected);
        let mut m = BTreeMap::new();
        for mt in selected.iter_selected() {
            m.insert(mt.assignment.name.as_str().to_string(), state_text(mt.assignment.state));
        }
        t_sel.insert(q.clone(), m);
        platform.matching_attributes(&mut all);
        let mut m = BTreeMap::new();
        for mt in all.iter() {
            if !matches!(mt.assignment.state, gix::attrs::StateRef::Unspecified) {
                m.insert(mt.assignment.name.as_str().to_string(), state_text(mt.assignment.state));
            }
        }
        t_all.insert(q.clone(), m);
    }
    Ok((t_sel, t_all))
}


// ------------------------------------------------------------------------------------------------
// Classification aid (never a verdict): git's resolution rules re-stated on top of gitoxide's own line parser and
// pattern matcher, with two switches that re-state the rules the way gitoxide applies them. A disagreement is named
// after the switch setting that reproduces gitoxide's answer.
// ------------------------------------------------------------------------------------------------
#[derive(Clone, Copy, PartialEq, Eq)]
struct Rules {
    /// expand a macro whatever state it is assigned (git: only when it is *set*)
    expand_always: bool,
    /// info/attributes ranks between the root .gitattributes and those of sub-directories (git: above all of them)
    info_low: bool,
}

struct ParsedFile {
    /// directory of a worktree `.gitattributes` ("" for the root one), None for info/global files
    base: Option<String>,
    macros_allowed: bool,
    /// in file order: (pattern or macro name, assignments)
    lines: Vec<(gix_attributes::parse::Kind, Vec<(String, String)>)>,
}

fn parse_file(content: &[u8], base: Option<String>, macros_allowed: bool) -> ParsedFile {
    let mut lines = Vec::new();
    for l in gix_attributes::parse(content) {
        let Ok((kind, assignments, _line_no)) = l else { continue };
        let mut v = Vec::new();
        let mut ok = true;
        for a in assignments {
            match a {
                Ok(a) => v.push((a.name.as_str().to_string(), state_text(a.state))),
                Err(_) => ok = false,
            }
        }
        if ok {
            lines.push((kind, v));
        }
    }
    ParsedFile { base, macros_allowed, lines }
}

fn model(sc: &Scenario, path: &str, is_dir: bool, rules: Rules) -> BTreeMap<String, String> {
    let rel_path = path.trim_end_matches('/');
    let mut root_file = None;
    let mut info = None;
    let mut global = None;
    let mut dirs: Vec<(usize, ParsedFile)> = Vec::new();
    for (name, content) in &sc.attr_files {
        if name == ".git/info/attributes" {
            info = Some(parse_file(content, None, true));
        } else if name.starts_with('/') {
            global = Some(parse_file(content, None, true));
        } else if name == ".gitattributes" {
            root_file = Some(parse_file(content, Some(String::new()), true));
        } else if let Some(d) = name.strip_suffix("/.gitattributes") {
            let applies = rel_path.len() > d.len() + 1 && rel_path.as_bytes()[d.len()] == b'/' && rel_path.starts_with(d); // the directory itself is looked up on disk / in the index: exact case
            if applies {
                dirs.push((d.matches('/').count(), parse_file(content, Some(d.to_string()), false)));
            }
        }
    }
    dirs.sort_by_key(|(depth, _)| std::cmp::Reverse(*depth));
    let builtin = parse_file(b"[attr]binary -diff -merge -text", None, true);
    // priority: high -> low
    let mut order: Vec<&ParsedFile> = Vec::new();
    if !rules.info_low {
        order.extend(info.iter());
    }
    order.extend(dirs.iter().map(|(_, f)| f));
    if rules.info_low {
        order.extend(info.iter());
    }
    order.extend(root_file.iter());
    order.extend(global.iter());
    order.push(&builtin);
    // macro definitions: the highest ranking file that defines it, its last definition
    let mut macros: BTreeMap<String, Vec<(String, String)>> = BTreeMap::new();
    for f in [Some(&builtin), global.as_ref(), root_file.as_ref(), info.as_ref()].into_iter().flatten() {
        if !f.macros_allowed {
            continue;
        }
        for (kind, assignments) in &f.lines {
            if let gix_attributes::parse::Kind::Macro(name) = kind {
                macros.insert(name.as_str().to_string(), assignments.clone());
            }
        }
    }
    fn apply(out: &mut BTreeMap<String, String>, assignments: &[(String, String)], macros: &BTreeMap<String, Vec<(String, String)>>, rules: Rules, depth: usize) {
        for (name, state) in assignments.iter().rev() {
            if out.contains_key(name) {
                continue;
            }
            out.insert(name.clone(), state.clone());
            if let Some(m) = macros.get(name) {
                if (state == "set" || rules.expand_always) && depth < 20 {
                    apply(out, m, macros, rules, depth + 1);
                }
            }
        }
    }
    let case = if sc.icase { gix_glob::pattern::Case::Fold } else { gix_glob::pattern::Case::Sensitive };
    let mut out = BTreeMap::new();
    for f in order {
        let rel: &str = match f.base.as_deref() {
            None | Some("") => rel_path,
            Some(b) => &rel_path[b.len() + 1..],
        };
        for (kind, assignments) in f.lines.iter().rev() {
            let gix_attributes::parse::Kind::Pattern(p) = kind else { continue };
            if p.matches_repo_relative_path(rel.as_bytes().as_bstr(), rel.rfind('/').map(|i| i + 1), Some(is_dir), case, gix_glob::wildmatch::Mode::NO_MATCH_SLASH_LITERAL) {
                apply(&mut out, assignments, &macros, rules, 0);
            }
        }
    }
    out
}

/// name of the rule difference that reproduces gitoxide's answer `x` where git says `g`
fn explain(sc: &Scenario, path: &str, attr: &str, g: &str, x: &str) -> &'static str {
    let is_dir = path.ends_with('/');
    let get = |rules: Rules| model(sc, path, is_dir, rules).get(attr).cloned().unwrap_or_else(|| "unspecified".into());
    if get(Rules { expand_always: false, info_low: false }) != g {
        return "unexplained-by-rule-model";
    }
    let a = get(Rules { expand_always: true, info_low: false }) == x;
    let b = get(Rules { expand_always: false, info_low: true }) == x;
    match (a, b) {
        (true, false) => "macro-expanded-although-not-set",
        (false, true) => "info-attributes-outranked-by-subdirectory-gitattributes",
        (true, true) => "macro-expanded-although-not-set-or-info-attributes-outranked",
        (false, false) => {
            if get(Rules { expand_always: true, info_low: true }) == x {
                "macro-expanded-although-not-set+info-attributes-outranked"
            } else {
                "unexplained"
            }
        }
    }
}

fn kind_of(state: &str) -> &'static str {
    match state {
        "set" => "set",
        "unset" => "unset",
        "unspecified" => "unspecified",
        _ => "value",
    }
}

/// ask git and gitoxide about every query x attribute and compare
fn check_scenario(ctx: &mut Ctx, sc: &Scenario, queries: &[String], order: Vec<usize>, with_all: bool, with_index: bool) {
    ctx.count("worktrees");
    ctx.count_n("attribute_files", sc.attr_files.len() as u64);
    if sc.global.is_some() {
        ctx.count("with_core_attributesfile");
    }
    if sc.icase {
        ctx.count("with_ignorecase");
    }
    let witness_base = json!({
        "attribute_files": sc.attr_files.iter().map(|(n, c)| json!({"file": n, "content": show(c)})).collect::<Vec<_>>(),
        "ignorecase": sc.icase,
    });
    let passes: Vec<(&str, bool)> = if with_index { vec![("worktree", false), ("index", true)] } else { vec![("worktree", false)] };
    for (pass, cached) in passes {
        if cached {
            let tracked: Vec<&String> = sc.attr_files.iter().map(|(n, _)| n).filter(|n| !n.starts_with(".git/") && !n.starts_with('/')).collect();
            if tracked.is_empty() {
                continue;
            }
            // git strips a UTF-8 BOM only when it reads an attribute file from disk, not from the index; that
            // inconsistency of git itself is not demanded from gitoxide
            if sc.attr_files.iter().any(|(n, c)| !n.starts_with(".git/") && !n.starts_with('/') && c.starts_with(b"\xef\xbb\xbf")) {
                ctx.count("index_pass_skipped_because_of_bom");
                continue;
            }
            let mut input = Vec::new();
            for t in &tracked {
                input.extend_from_slice(t.as_bytes());
                input.push(0);
            }
            match git::run_in(&sc.root, &["update-index", "--add", "-z", "--stdin"], &input) {
                Ok(o) if o.ok => ctx.count("git_spawns"),
                Ok(o) => {
                    ctx.inconclusive(&format!("git update-index --add failed: {}", o.err_text()));
                    return;
                }
                Err(e) => {
                    ctx.inconclusive(&format!("git spawn failed: {e}"));
                    return;
                }
            }
            ctx.count("worktrees_with_index_pass");
        }
        let mut args: Vec<&str> = Vec::new();
        if cached {
            args.push("--cached");
        }
        let mut sel_args = args.clone();
        sel_args.extend_from_slice(ATTRS);
        let git_sel = match git_table(sc, queries, &sel_args) {
            Ok(t) => t,
            Err(e) => {
                ctx.inconclusive(&format!("git check-attr unusable: {e}"));
                return;
            }
        };
        ctx.count("git_spawns");
        let git_all = if with_all {
            let mut a = args.clone();
            a.push("-a");
            match git_table(sc, queries, &a) {
                Ok(t) => {
                    ctx.count("git_spawns");
                    Some(t)
                }
                Err(e) => {
                    ctx.inconclusive(&format!("git check-attr -a unusable: {e}"));
                    return;
                }
            }
        } else {
            None
        };
        let (sc_ref, q_ref, ord) = (sc, queries, order.clone());
        let (gix_sel, gix_all) = match guard(move || gix_tables(sc_ref, q_ref, &ord, cached)) {
            Err(pi) => {
                ctx.panic_violation("Stack::at_entry/matching_attributes", &pi, pass, witness_base.clone());
                return;
            }
            Ok(Err(e)) => {
                ctx.violation(&format!("attr|error|{pass}"), &format!("gitoxide failed where git answered: {e}"), witness_base.clone());
                return;
            }
            Ok(Ok(t)) => t,
        };
        for q in queries {
            let is_dir = q.ends_with('/');
            let depth = q.trim_end_matches('/').matches('/').count().min(3);
            for attr in ATTRS {
                ctx.eval();
                ctx.count("attribute_values_compared");
                let g = git_sel[q].get(*attr).cloned().unwrap_or_else(|| "<missing>".into());
                let x = gix_sel[q].get(*attr).cloned().unwrap_or_else(|| "<missing>".into());
                let is_macro = matches!(*attr, "m1" | "m2" | "m3" | "binary");
                ctx.distinct((kind_of(&g), kind_of(&x), is_macro, depth, is_dir, sc.icase, cached));
                ctx.count(&format!("git_state_{}", kind_of(&g)));
                if g != x {
                    let mut w = witness_base.clone();
                    w["query"] = json!(q);
                    w["attribute"] = json!(attr);
                    w["git"] = json!(g);
                    w["gix"] = json!(x);
                    w["pass"] = json!(pass);
                    let cause = explain(sc, q, attr, &g, &x);
                    w["cause"] = json!(cause);
                    let cause = if cause == "macro-expanded-although-not-set-or-info-attributes-outranked" { "macro-expanded-although-not-set" } else { cause };
                    let sig = if cause.starts_with("unexplained") {
                        format!("attr|value|{cause}|git-{}|gix-{}{}", kind_of(&g), kind_of(&x), if is_macro { "|macro-name" } else { "" })
                    } else {
                        format!("attr|value|{cause}")
                    };
                    if std::env::var("GXV_C38_DUMP").is_ok() {
                        eprintln!("DUMP {sig}\t{q}\t{attr}\tgit={g}\tgix={x}\ticase={}\t{pass}", sc.icase);
                    }
                    ctx.violation(&sig, &format!("{:?}: attribute {attr}: git check-attr says {g}, gitoxide says {x} ({pass})", q), w);
                } else if ctx.want_sample() && g != "unspecified" {
                    ctx.sample(json!({"path": q, "attribute": attr, "both": g, "pass": pass, "ignorecase": sc.icase}));
                }
            }
            if let Some(git_all) = &git_all {
                ctx.eval();
                ctx.count("all_attribute_sets_compared");
                // the same values were compared above for the universe; here the *set* of reported names matters
                let gset: BTreeSet<&String> = git_all[q].keys().collect();
                let xset: BTreeSet<&String> = gix_all[q].keys().collect();
                if gset != xset {
                    let only_git: Vec<&&String> = gset.difference(&xset).collect();
                    let only_gix: Vec<&&String> = xset.difference(&gset).collect();
                    let mut w = witness_base.clone();
                    w["query"] = json!(q);
                    w["only_git"] = json!(only_git);
                    w["only_gix"] = json!(only_gix);
                    w["pass"] = json!(pass);
                    // name it after the cause of the first differing attribute (values from the two `-a`-like tables)
                    let first = only_git.first().or(only_gix.first()).map(|s| s.as_str()).unwrap_or("");
                    let gv = git_all[q].get(first).cloned().unwrap_or_else(|| "unspecified".into());
                    let xv = gix_all[q].get(first).cloned().unwrap_or_else(|| "unspecified".into());
                    let cause = explain(sc, q, first, &gv, &xv);
                    let cause = if cause == "macro-expanded-although-not-set-or-info-attributes-outranked" { "macro-expanded-although-not-set" } else { cause };
                    let sig = format!("attr|all-set|{cause}");
                    if std::env::var("GXV_C38_DUMP").is_ok() {
                        eprintln!("DUMP {sig}\t{q}\tonly_git={only_git:?}\tonly_gix={only_gix:?}\t{pass}");
                    }
                    ctx.violation(&sig, &format!("{:?}: `check-attr -a` lists {:?} which gitoxide does not, gitoxide lists {:?} which git does not ({pass})", q, only_git, only_gix), w);
                }
            }
        }
    }
}

pub fn run(ctx: &mut Ctx) {
    ctx.rule(
        "case = one generated worktree (5..35 files, depth<=4) with .gitattributes at root/sub-directories, info/attributes, core.attributesFile, \
         core.ignoreCase on/off; lines: pattern (basename, /anchored, with slash, *.ext, **/x, x/**, ?, [..], quoted) + 1..4 of attr, -attr, !attr, attr=value \
         over 14 names; macros [attr]m1..m3/binary (nested, redefined, also where git forbids them), negative patterns, invalid names, CRLF, BOM; \
         queries: every file, every directory as 'dir/', some non-existing names. \
         distinct = (git state kind, gitoxide state kind, attribute is a macro, depth of the path, dir/file, icase, pass)",
    );
    ctx.assume("attribute values are not the words set/unset/unspecified; no system/XDG attribute files (GIT_ATTR_NOSYSTEM=1, isolated open options); no --cached comparison when a tracked .gitattributes starts with a BOM (git strips it only when reading from disk)");
    ctx.cases("directed", 1, |ctx, _r| {
        // every known deviation class in a hand-written worktree, so that each is reported by every run
        let files: Vec<String> = ["p.x", "d/q.y", "d/q.z", "d/r.w", "d/r.v"].iter().map(|s| s.to_string()).collect();
        let attr_files: Vec<(String, Vec<u8>)> = vec![
            (".gitattributes".into(), b"[attr]m1 foo=1\n[attr]m2 foo=2\n[attr]m3 bar\n*.x -m3\n".to_vec()),
            (".git/info/attributes".into(), b"*.y text=1\n*.z !eol\n*.w m1\n*.v !foo\n".to_vec()),
            ("d/.gitattributes".into(), b"*.y text=2\n*.z eol\n*.w -m2\n*.v -m2\n".to_vec()),
        ];
        match materialize(ctx, files.clone(), vec!["d".to_string()], attr_files, false) {
            Ok(sc) => {
                ctx.count("directed_worktrees");
                let mut queries = files;
                queries.push("d/".into());
                let order = (0..queries.len()).collect();
                check_scenario(ctx, &sc, &queries, order, true, true);
            }
            Err(e) => ctx.inconclusive(&format!("scenario setup failed: {e}")),
        }
    });
    let n = ctx.n(45, 500);
    ctx.cases("worktree", n, |ctx, r| {
        let sc = match make_scenario(ctx, r) {
            Ok(s) => s,
            Err(e) => {
                ctx.inconclusive(&format!("scenario setup failed: {e}"));
                return;
            }
        };
        let mut queries: Vec<String> = sc.files.clone();
        queries.extend(sc.dirs.iter().map(|d| format!("{d}/")));
        for _ in 0..(2 + r.usize(8)) {
            let q = if !sc.dirs.is_empty() && r.chance(2, 3) {
                let di = r.usize(sc.dirs.len());
                format!("{}/{}", sc.dirs[di], r.pick(NAMES))
            } else {
                r.pick(NAMES).to_string()
            };
            let q = if r.chance(1, 3) { flip_case(r, &q) } else { q };
            if !sc.root.join(&q).exists() && !queries.contains(&q) {
                queries.push(q);
            }
        }
        let mut order: Vec<usize> = (0..queries.len()).collect();
        r.shuffle(&mut order);
        let with_all = r.chance(1, 2);
        let with_index = r.chance(1, 4);
        check_scenario(ctx, &sc, &queries, order, with_all, with_index);
    });
}
