//! C54 Connectivity checks report exactly the missing objects.
//! Oracle: reference model (M) — a walk over the complete pre-deletion tree map (parsed from
//! `git cat-file --batch` output by the monitor itself) that stops at deleted trees — compared with
//! the exact multiset of `missing_cb` invocations of `gix_fsck::Connectivity::check_commit`;
//! the union over all commits is cross-checked with `git fsck --connectivity-only` (G).
use crate::fw::{git, guard, hex, repogen, Ctx, Rng};
use gix_hash::ObjectId;
use gix_object::Kind;
use serde_json::{json, Value};
use std::collections::{BTreeMap, BTreeSet, HashMap, HashSet, VecDeque};
use std::fmt::Write as _;
use std::path::{Path, PathBuf};

pub fn child(_mode: &str) {}

type Oid = [u8; 20];

const EMPTY_TREE: &str = "4b825dc642cb6eb9a060e54bf8d69288fbee4904";
const EMPTY_BLOB: &str = "e69de29bb2d1d6434b8b29ae775ad8c2e48c5391";

struct Entry {
    mode: u32,
    oid: Oid,
}

#[derive(Default)]
struct Model {
    trees: HashMap<Oid, Vec<Entry>>,
    blobs: HashSet<Oid>,
    /// commit -> root tree
    commits: BTreeMap<Oid, Oid>,
}

fn unhex(s: &str) -> Option<Oid> {
    if s.len() != 40 {
        return None;
    }
    let mut o = [0u8; 20];
    for i in 0..20 {
        o[i] = u8::from_str_radix(&s[2 * i..2 * i + 2], 16).ok()?;
    }
    Some(o)
}

fn parse_tree(data: &[u8]) -> Option<Vec<Entry>> {
    let mut out = Vec::new();
    let mut i = 0;
    while i < data.len() {
        let sp = i + data[i..].iter().position(|b| *b == b' ')?;
        let mode = u32::from_str_radix(std::str::from_utf8(&data[i..sp]).ok()?, 8).ok()?;
        let nul = sp + data[sp..].iter().position(|b| *b == 0)?;
        if nul + 21 > data.len() {
            return None;
        }
        let mut oid = [0u8; 20];
        oid.copy_from_slice(&data[nul + 1..nul + 21]);
        out.push(Entry { mode, oid });
        i = nul + 21;
    }
    Some(out)
}

/// parse `git cat-file --batch-all-objects --batch`
fn read_model(dir: &Path) -> Result<Model, String> {
    let o = git::run(dir, &["cat-file", "--batch-all-objects", "--batch"]).map_err(|e| e.to_string())?;
    if !o.ok {
        return Err(format!("cat-file failed: {}", o.err_text()));
    }
    let d = &o.stdout;
    let mut m = Model::default();
    let mut i = 0;
    while i < d.len() {
        let nl = i + d[i..].iter().position(|b| *b == b'\n').ok_or("batch header")?;
        let head = std::str::from_utf8(&d[i..nl]).map_err(|e| e.to_string())?;
        let mut it = head.split(' ');
        let (Some(id), Some(kind), Some(size)) = (it.next(), it.next(), it.next()) else {
            return Err(format!("bad batch header {head:?}"));
        };
        let id = unhex(id).ok_or("bad id")?;
        let size: usize = size.parse().map_err(|_| "bad size")?;
        let body = d.get(nl + 1..nl + 1 + size).ok_or("short batch body")?;
        match kind {
            "tree" => {
                m.trees.insert(id, parse_tree(body).ok_or("unparsable tree")?);
            }
            "blob" => {
                m.blobs.insert(id);
            }
            "commit" => {
                let line = body.split(|b| *b == b'\n').next().unwrap_or(&[]);
                let t = line.strip_prefix(b"tree ").and_then(|h| std::str::from_utf8(h).ok()).and_then(unhex).ok_or("commit without tree line")?;
                m.commits.insert(id, t);
            }
            _ => {}
        }
        i = nl + 1 + size + 1;
    }
    Ok(m)
}

/// move every pack's content into loose objects
fn loosen(dir: &Path) -> Result<u32, String> {
    let pack_dir = dir.join("objects").join("pack");
    let mut calls = 0;
    let Ok(rd) = std::fs::read_dir(&pack_dir) else { return Ok(0) };
    let packs: Vec<PathBuf> = rd.filter_map(|e| e.ok()).map(|e| e.path()).filter(|p| p.extension().map_or(false, |e| e == "pack")).collect();
    for (n, p) in packs.iter().enumerate() {
        let tmp = dir.join(format!("gxv-tmp-{n}.pack"));
        std::fs::rename(p, &tmp).map_err(|e| e.to_string())?;
        for ext in ["idx", "rev", "bitmap", "keep"] {
            let _ = std::fs::remove_file(p.with_extension(ext));
        }
        let data = std::fs::read(&tmp).map_err(|e| e.to_string())?;
        let o = git::run_in(dir, &["unpack-objects", "-q"], &data).map_err(|e| e.to_string())?;
        calls += 1;
        if !o.ok {
            return Err(format!("unpack-objects failed: {}", o.err_text()));
        }
        let _ = std::fs::remove_file(&tmp);
    }
    Ok(calls)
}

fn loose_path(dir: &Path, id: &Oid) -> PathBuf {
    let h = hex(id);
    dir.join("objects").join(&h[..2]).join(&h[2..])
}

/// Add commits whose trees place existing subtrees / blobs under several paths and depths
/// (same id reachable through different parents) and carry gitlinks to absent commits.
fn composite(dir: &Path, r: &mut Rng, m: &Model, n: usize) -> Result<(), String> {
    let trees: Vec<Oid> = {
        let mut v: Vec<Oid> = m.trees.keys().copied().collect();
        v.sort_unstable();
        v
    };
    let blobs: Vec<Oid> = {
        let mut v: Vec<Oid> = m.blobs.iter().copied().collect();
        v.sort_unstable();
        v
    };
    if trees.is_empty() || blobs.is_empty() {
        return Ok(());
    }
    const DIRS: &[&str] = &["p", "q", "p/q", "deep/er/still", "deep/er", "s", "t/u/v/w"];
    const FILES: &[&str] = &["f1", "f2", "p/f", "deep/f", "deep/er/f", "t/u/v/w/f", "zz"];
    let mut s = String::new();
    for k in 0..n {
        let _ = writeln!(s, "commit refs/keep/c{k}");
        let _ = writeln!(s, "committer C O Mitter <committer@example.com> 1600000000 +0000");
        let _ = writeln!(s, "data 2\nc\n");
        // fast-import applies the operations in order; later ones may replace earlier ones, which is fine
        let shared_tree = *r.pick(&trees);
        let shared_blob = *r.pick(&blobs);
        let mut dirs: Vec<&str> = DIRS.to_vec();
        r.shuffle(&mut dirs);
        for (j, d) in dirs.iter().take(2 + r.usize(3)).enumerate() {
            let t = if j < 2 || r.bool() { shared_tree } else { *r.pick(&trees) };
            let _ = writeln!(s, "M 040000 {} {}", hex(&t), d);
        }
        let mut files: Vec<&str> = FILES.to_vec();
        r.shuffle(&mut files);
        for (j, f) in files.iter().take(2 + r.usize(3)).enumerate() {
            let b = if j < 2 || r.bool() { shared_blob } else { *r.pick(&blobs) };
            let mode = *r.pick(&["100644", "100644", "100755", "120000"]);
            let _ = writeln!(s, "M {} {} {}", mode, hex(&b), f);
        }
        if r.chance(1, 2) {
            let mut fake = [0u8; 20];
            for x in fake.iter_mut() {
                *x = r.next_u64() as u8;
            }
            let _ = writeln!(s, "M 160000 {} {}", hex(&fake), r.pick(&["sub", "p/sub", "deep/sub"]));
        }
        s.push('\n');
    }
    let o = git::run_in(dir, &["fast-import", "--quiet"], s.as_bytes()).map_err(|e| e.to_string())?;
    if !o.ok {
        return Err(format!("fast-import (composite) failed: {}", o.err_text()));
    }
    Ok(())
}

struct Expect {
    /// in report order of a breadth-first walk (order is not compared)
    missing: Vec<(Oid, Kind)>,
    /// number of references from present, reachable trees per id
    refs: HashMap<Oid, u32>,
    /// depth of the highest missing tree (0 = root tree), if any
    top_missing_tree_depth: Option<usize>,
    /// deleted objects of this commit's full closure that are hidden behind a missing tree
    hidden: usize,
    gitlinks: usize,
}

fn expect(m: &Model, deleted: &HashSet<Oid>, root: Oid) -> Expect {
    let mut seen: HashSet<Oid> = HashSet::new();
    let mut q: VecDeque<(Oid, usize)> = VecDeque::new();
    let mut e = Expect { missing: Vec::new(), refs: HashMap::new(), top_missing_tree_depth: None, hidden: 0, gitlinks: 0 };
    q.push_back((root, 0));
    while let Some((t, depth)) = q.pop_front() {
        if !seen.insert(t) {
            continue;
        }
        if deleted.contains(&t) {
            e.missing.push((t, Kind::Tree));
            e.top_missing_tree_depth = Some(e.top_missing_tree_depth.map_or(depth, |d| d.min(depth)));
            continue;
        }
        let Some(entries) = m.trees.get(&t) else { continue };
        for en in entries {
            match en.mode {
                0o040000 => {
                    *e.refs.entry(en.oid).or_insert(0) += 1;
                    q.push_back((en.oid, depth + 1));
                }
                0o160000 => e.gitlinks += 1,
                _ => {
                    *e.refs.entry(en.oid).or_insert(0) += 1;
                    if seen.insert(en.oid) && deleted.contains(&en.oid) {
                        e.missing.push((en.oid, Kind::Blob));
                    }
                }
            }
        }
    }
    // full closure ignoring deletions, to count what is hidden
    let mut full: HashSet<Oid> = HashSet::new();
    let mut st = vec![root];
    while let Some(t) = st.pop() {
        if !full.insert(t) {
            continue;
        }
        if let Some(entries) = m.trees.get(&t) {
            for en in entries {
                match en.mode {
                    0o040000 => st.push(en.oid),
                    0o160000 => {}
                    _ => {
                        full.insert(en.oid);
                    }
                }
            }
        }
    }
    let reported: HashSet<Oid> = e.missing.iter().map(|x| x.0).collect();
    e.hidden = full.iter().filter(|o| deleted.contains(*o) && !reported.contains(*o)).count();
    e
}

fn kind_name(k: Kind) -> &'static str {
    match k {
        Kind::Tree => "tree",
        Kind::Blob => "blob",
        Kind::Commit => "commit",
        Kind::Tag => "tag",
    }
}

fn as_sorted(v: &[(Oid, Kind)]) -> Vec<(String, &'static str)> {
    let mut o: Vec<(String, &'static str)> = v.iter().map(|(i, k)| (hex(i), kind_name(*k))).collect();
    o.sort();
    o
}

fn run_gix(odb: &gix_odb::Handle, commits: &[Oid]) -> Result<Vec<Result<Vec<(Oid, Kind)>, String>>, crate::fw::PanicInfo> {
    // one Connectivity instance for all `commits`; per call the list of callback invocations
    guard(|| {
        let calls: std::cell::RefCell<Vec<(Oid, Kind)>> = std::cell::RefCell::new(Vec::new());
        let mut conn = gix_fsck::Connectivity::new(odb.clone(), |id: &ObjectId, kind: Kind| {
            let mut o = [0u8; 20];
            o.copy_from_slice(id.as_bytes());
            calls.borrow_mut().push((o, kind));
        });
        let mut out = Vec::new();
        for c in commits {
            let id = ObjectId::from(*c);
            let res = conn.check_commit(&id);
            let got = std::mem::take(&mut *calls.borrow_mut());
            out.push(match res {
                Ok(()) => Ok(got),
                Err(e) => Err(e.to_string()),
            });
        }
        out
    })
}

fn scenario(ctx: &mut Ctx, r: &mut Rng) {
    let dir = ctx.dir("repo");
    let spec = repogen::DagSpec {
        commits: 1 + r.usize(if ctx.quick() { 14 } else { 24 }),
        max_parents: 2,
        merge_pct: 15,
        root_pct: 10,
        time_mode: repogen::TimeMode::Increasing,
        max_changes: 3 + r.usize(6),
        rich_trees: true,
        delta_fodder: false,
    };
    if let Err(e) = repogen::build_dag(&dir, r, &spec) {
        ctx.inconclusive(&format!("repogen failed: {}", e.chars().take(120).collect::<String>()));
        return;
    }
    ctx.count_n("git_calls", 2);
    let n_comp = r.usize(4);
    let setup = (|| -> Result<Model, String> {
        if n_comp > 0 {
            let base = read_model(&dir)?;
            composite(&dir, r, &base, n_comp)?;
        }
        loosen(&dir)?;
        let m = read_model(&dir)?;
        if dir.join("objects").join("pack").read_dir().map(|mut d| d.next().is_some()).unwrap_or(false) {
            return Err("object database is not loose-only".into());
        }
        Ok(m)
    })();
    ctx.count_n("git_calls", 4);
    let m = match setup {
        Ok(m) => m,
        Err(e) => {
            ctx.inconclusive(&format!("setup failed: {}", e.chars().take(160).collect::<String>()));
            return;
        }
    };
    let commits: Vec<Oid> = m.commits.keys().copied().collect();
    let empty_tree = unhex(EMPTY_TREE).unwrap();
    let empty_blob = unhex(EMPTY_BLOB).unwrap();
    let mut candidates: Vec<(Oid, bool)> = Vec::new(); // (id, is_tree)
    for t in m.trees.keys() {
        candidates.push((*t, true));
    }
    for b in &m.blobs {
        candidates.push((*b, false));
    }
    candidates.sort_unstable();
    let before = candidates.len();
    candidates.retain(|c| c.0 != empty_tree && c.0 != empty_blob);
    ctx.count_n("skipped_empty_tree_or_blob_never_deleted", (before - candidates.len()) as u64);
    let roots: Vec<Oid> = {
        let s: BTreeSet<Oid> = m.commits.values().copied().filter(|t| *t != empty_tree).collect();
        s.into_iter().collect()
    };
    ctx.count("repos");
    ctx.count_n("repo_objects", (m.trees.len() + m.blobs.len() + m.commits.len()) as u64);

    let rounds = 5;
    for round in 0..rounds {
        // --- choose and delete
        let mix = r.below(8); // 0 none, 1 blobs only, 2 trees only, else both
        let pct = if mix == 0 { 0 } else { 1 + r.below(40) };
        let mut deleted: HashSet<Oid> = HashSet::new();
        for (id, is_tree) in &candidates {
            let allowed = match mix {
                0 => false,
                1 => !*is_tree,
                2 => *is_tree,
                _ => true,
            };
            if allowed && r.below(100) < pct {
                deleted.insert(*id);
            }
        }
        if mix >= 2 && !roots.is_empty() && r.chance(1, 4) {
            deleted.insert(*r.pick(&roots));
        }
        let mut saved: Vec<(PathBuf, Vec<u8>)> = Vec::new();
        let mut setup_ok = true;
        let mut del_sorted: Vec<Oid> = deleted.iter().copied().collect();
        del_sorted.sort_unstable();
        for id in &del_sorted {
            let p = loose_path(&dir, id);
            match std::fs::read(&p) {
                Ok(bytes) => {
                    if std::fs::remove_file(&p).is_err() {
                        setup_ok = false;
                    }
                    saved.push((p, bytes));
                }
                Err(_) => setup_ok = false,
            }
        }
        if !setup_ok {
            ctx.inconclusive("could not delete a loose object file");
            restore(&saved);
            return;
        }
        let n_del_trees = deleted.iter().filter(|d| m.trees.contains_key(*d)).count();
        let n_del_blobs = deleted.len() - n_del_trees;
        ctx.count_n("deleted_trees", n_del_trees as u64);
        ctx.count_n("deleted_blobs", n_del_blobs as u64);
        let kinds_mix: u8 = (n_del_trees > 0) as u8 | ((n_del_blobs > 0) as u8) << 1;
        let scen = |extra: Value| -> Value {
            json!({
                "round": round,
                "deleted": del_sorted.iter().map(|d| format!("{} {}", if m.trees.contains_key(d) {"tree"} else {"blob"}, hex(d))).collect::<Vec<_>>(),
                "objects_in_repo": m.trees.len() + m.blobs.len() + m.commits.len(),
                "detail": extra,
            })
        };

        let odb = match gix_odb::at(dir.join("objects")) {
            Ok(o) => o,
            Err(e) => {
                ctx.inconclusive(&format!("gix_odb::at failed: {e}"));
                restore(&saved);
                return;
            }
        };
        let expects: Vec<Expect> = commits.iter().map(|c| expect(&m, &deleted, m.commits[c])).collect();

        // --- (a) a fresh instance per commit: exact multiset
        for (ci, c) in commits.iter().enumerate() {
            let ex = &expects[ci];
            ctx.eval();
            ctx.count("fresh_instance_checks");
            let got = match run_gix(&odb, &[*c]) {
                Err(pn) => {
                    ctx.panic_violation("Connectivity::check_commit", &pn, "fresh", scen(json!({"commit": hex(c)})));
                    continue;
                }
                Ok(mut v) => match v.pop() {
                    Some(Ok(g)) => g,
                    Some(Err(e)) => {
                        ctx.violation(
                            "fresh|check_commit-error-with-commit-present",
                            "check_commit failed although the commit object exists",
                            scen(json!({"commit": hex(c), "error": e})),
                        );
                        continue;
                    }
                    None => continue,
                },
            };
            let want_s = as_sorted(&ex.missing);
            let got_s = as_sorted(&got);
            let shared_reported = ex.missing.iter().any(|(id, _)| ex.refs.get(id).copied().unwrap_or(0) >= 2);
            if want_s != got_s {
                let got_ids: Vec<&String> = got_s.iter().map(|x| &x.0).collect();
                let mut dedup = got_ids.clone();
                dedup.dedup();
                let want_ids: HashSet<&String> = want_s.iter().map(|x| &x.0).collect();
                let got_set: HashSet<&String> = got_ids.iter().copied().collect();
                let class = if dedup.len() != got_ids.len() {
                    "reported-more-than-once"
                } else if got_set == want_ids {
                    "wrong-kind"
                } else if got_set.is_subset(&want_ids) {
                    "missing-object-not-reported"
                } else if want_ids.is_subset(&got_set) {
                    if got_set.difference(&want_ids).all(|g| unhex(g).map_or(false, |o| deleted.contains(&o))) {
                        "reported-object-behind-missing-tree"
                    } else {
                        "reported-present-or-unrelated-object"
                    }
                } else {
                    "different-set"
                };
                ctx.violation(
                    &format!("fresh|{class}"),
                    "missing_cb invocations differ from the deleted objects reachable through present trees",
                    scen(json!({"commit": hex(c), "root_tree": hex(&m.commits[c]), "want": want_s, "got": got_s})),
                );
            }
            ctx.count_n("missing_reported", got.len() as u64);
            if shared_reported {
                ctx.count("checks_with_shared_missing_object");
            }
            if ex.hidden > 0 {
                ctx.count("checks_with_objects_hidden_behind_missing_tree");
            }
            if ex.gitlinks > 0 {
                ctx.count("checks_with_gitlinks");
            }
            let nm = match ex.missing.len() {
                0 => 0,
                1 => 1,
                2..=3 => 2,
                _ => 3,
            };
            if !ex.missing.is_empty() {
                ctx.distinct((nm, shared_reported, kinds_mix, ex.top_missing_tree_depth.map_or(9, |d| d.min(4)), ex.hidden > 0, ex.gitlinks > 0));
            }
        }

        // --- (b) one instance for all commits in random order: union, each once
        let mut order: Vec<usize> = (0..commits.len()).collect();
        r.shuffle(&mut order);
        let seq: Vec<Oid> = order.iter().map(|i| commits[*i]).collect();
        let mut union_want: BTreeMap<Oid, Kind> = BTreeMap::new();
        for ex in &expects {
            for (id, k) in &ex.missing {
                union_want.insert(*id, *k);
            }
        }
        ctx.eval();
        ctx.count("reused_instance_sequences");
        match run_gix(&odb, &seq) {
            Err(pn) => ctx.panic_violation("Connectivity::check_commit", &pn, "reused", scen(json!({"sequence": seq.iter().map(|c| hex(c)).collect::<Vec<_>>()}))),
            Ok(results) => {
                let mut all: Vec<(Oid, Kind)> = Vec::new();
                let mut bad: Option<(&'static str, Value)> = None;
                for (k, res) in results.iter().enumerate() {
                    match res {
                        Err(e) => {
                            bad = Some(("reused|check_commit-error-with-commit-present", json!({"commit": hex(&seq[k]), "error": e})));
                            break;
                        }
                        Ok(got) => {
                            let allowed: HashSet<Oid> = expects[order[k]].missing.iter().map(|x| x.0).collect();
                            if let Some((id, _)) = got.iter().find(|(id, _)| !allowed.contains(id)) {
                                bad = Some(("reused|reported-object-not-missing-for-this-commit", json!({"commit": hex(&seq[k]), "reported": hex(id), "position_in_sequence": k})));
                                break;
                            }
                            all.extend(got.iter().copied());
                        }
                    }
                }
                if bad.is_none() {
                    let got_s = as_sorted(&all);
                    let want_s: Vec<(String, &'static str)> = union_want.iter().map(|(i, k)| (hex(i), kind_name(*k))).collect();
                    if got_s != want_s {
                        let ids: Vec<&String> = got_s.iter().map(|x| &x.0).collect();
                        let mut dd = ids.clone();
                        dd.dedup();
                        let class = if dd.len() != ids.len() { "reused|reported-more-than-once" } else { "reused|union-differs" };
                        bad = Some((class, json!({"want": want_s, "got": got_s})));
                    }
                }
                if let Some((sig, mut w)) = bad {
                    if let Some(o) = w.as_object_mut() {
                        o.insert("sequence".into(), json!(seq.iter().map(|c| hex(c)).collect::<Vec<_>>()));
                    }
                    ctx.violation(sig, "with one Connectivity instance over several commits the reports are not exactly the union of missing objects, each once", scen(w));
                }
            }
        }

        // --- (c) git fsck on the same object database (all commits are kept by refs)
        ctx.count("git_calls");
        match git::run(&dir, &["fsck", "--connectivity-only", "--no-dangling", "--no-progress"]) {
            Err(e) => ctx.inconclusive(&format!("git spawn failed: {e}")),
            Ok(o) => {
                let mut git_missing: BTreeSet<(String, String)> = BTreeSet::new();
                let text = format!("{}\n{}", String::from_utf8_lossy(&o.stdout), String::from_utf8_lossy(&o.stderr));
                for line in text.lines() {
                    if let Some(rest) = line.strip_prefix("missing ") {
                        let mut it = rest.split(' ');
                        if let (Some(k), Some(id)) = (it.next(), it.next()) {
                            git_missing.insert((id.to_string(), k.to_string()));
                        }
                    }
                }
                let want: BTreeSet<(String, String)> = union_want.iter().map(|(i, k)| (hex(i), kind_name(*k).to_string())).collect();
                ctx.eval();
                if git_missing == want {
                    ctx.count("git_fsck_agrees_with_model");
                    if o.ok != want.is_empty() {
                        ctx.count("git_fsck_exit_status_unexpected");
                    }
                } else {
                    ctx.count("git_fsck_differs_from_model");
                    ctx.inconclusive("git fsck --connectivity-only reports a different missing set than the reference model");
                    if ctx.counter("git_fsck_differs_from_model") <= 2 {
                        ctx.note(
                            &format!("git_model_difference_{}", ctx.counter("git_fsck_differs_from_model")),
                            scen(json!({"git": git_missing, "model": want})),
                        );
                    }
                }
            }
        }
        if ctx.want_sample() && !union_want.is_empty() {
            ctx.sample(json!({
                "commits": commits.len(), "trees": m.trees.len(), "blobs": m.blobs.len(),
                "deleted_trees": n_del_trees, "deleted_blobs": n_del_blobs,
                "missing_union": union_want.iter().map(|(i, k)| format!("{} {}", kind_name(*k), hex(i))).collect::<Vec<_>>(),
                "per_commit_missing": expects.iter().map(|e| e.missing.len()).collect::<Vec<_>>(),
                "hidden_behind_missing_trees": expects.iter().map(|e| e.hidden).collect::<Vec<_>>(),
            }));
        }
        restore(&saved);
    }
}

fn restore(saved: &[(PathBuf, Vec<u8>)]) {
    for (p, bytes) in saved {
        let _ = std::fs::write(p, bytes);
    }
}

pub fn run(ctx: &mut Ctx) {
    ctx.rule(
        "case = one loose-only repository (repogen history with rich trees + up to 3 commits that graft the same subtree/blob under \
         several paths and depths and add gitlinks) x 5 deletion rounds (0..40% of trees/blobs, kinds mix none/blobs/trees/both, \
         sometimes a root tree); every commit is checked with a fresh Connectivity (exact multiset of callbacks vs model) and all \
         commits with one reused instance (union, each once), union cross-checked with git fsck --connectivity-only. \
         distinct = (#missing bucket, a reported id is referenced from >=2 present trees/paths, deleted-kind mix, depth of highest \
         missing tree, objects hidden behind a missing tree, gitlinks present)",
    );
    ctx.assume("the empty tree and the empty blob are never deleted (git treats the empty tree as always present)");
    ctx.assume("commit objects are never deleted (the statement is about trees and blobs)");
    let n = ctx.n(30, 2400);
    ctx.cases("repo", n, scenario);
}
