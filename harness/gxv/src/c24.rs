//! C24 Index files decode to exactly what git wrote, for any thread limit.
//!
//! Three observers of the same `.git/index` file written by git 2.39.5:
//!   G = `git ls-files --stage --debug -z --sparse` (+ `--resolve-undo`, `cat-file --batch-check` for TREE ids),
//!   M = an independent byte-level reader (`reader`, written from Documentation/gitformat-index.txt),
//!   R = `gix_index::State::from_bytes` for thread limits 1,2,3,4,8,16 x {extensions inline, extensions in own thread}
//!       and `gix_index::File::at`.
//! M is calibrated against G on every index (a disagreement is *inconclusive*, never a violation);
//! R is compared with M field by field (path, stage, mode, id, flags, all stat fields, version, TREE, REUC,
//! link, sparse marker, EOIE/IEOT markers, trailing checksum).  The untracked cache's fields are private in
//! gix-index (no accessor), so only its presence is compared.
use crate::fw::{git, guard, hex, show, Ctx, Rng};
use serde_json::{json, Value};
use std::collections::{BTreeMap, BTreeSet};
use std::path::{Path, PathBuf};

pub fn child(_mode: &str) {}

// =========================================================================== independent reader (M)
#[allow(dead_code)]
pub(crate) mod reader {
    use crate::fw::sha1_bytes;

    #[derive(Clone, Copy, Debug, PartialEq, Eq, Default)]
    pub struct Stat {
        pub ctime: (u32, u32),
        pub mtime: (u32, u32),
        pub dev: u32,
        pub ino: u32,
        pub uid: u32,
        pub gid: u32,
        pub size: u32,
    }
    #[derive(Clone, Debug)]
    pub struct Entry {
        /// offset of the first byte of the entry in the file
        pub offset: usize,
        pub stat: Stat,
        pub mode: u32,
        pub id: [u8; 20],
        /// the 16 bit flags word as stored (including the name length bits)
        pub flags16: u16,
        /// the extended flags word, if the EXTENDED bit was set
        pub ext16: Option<u16>,
        pub path: Vec<u8>,
    }
    impl Entry {
        pub fn stage(&self) -> u32 {
            ((self.flags16 >> 12) & 3) as u32
        }
        /// persisted flags in git's in-memory layout: high nibble of the flags word | extended << 16
        pub fn mem_flags(&self) -> u32 {
            (self.flags16 & 0xf000) as u32 | ((self.ext16.unwrap_or(0) as u32) << 16)
        }
    }
    #[derive(Clone, Debug)]
    pub struct Tree {
        pub name: Vec<u8>,
        pub entry_count: i64,
        pub id: Option<[u8; 20]>,
        pub children: Vec<Tree>,
    }
    #[derive(Clone, Debug)]
    pub struct Reuc {
        pub path: Vec<u8>,
        pub modes: [u32; 3],
        pub ids: [Option<[u8; 20]>; 3],
    }
    #[derive(Clone, Debug, PartialEq, Eq)]
    pub struct Ewah {
        pub num_bits: u32,
        pub set: Vec<u64>,
    }
    #[derive(Clone, Debug)]
    pub struct Link {
        pub base: [u8; 20],
        pub bitmaps: Option<(Ewah, Ewah)>,
    }
    #[derive(Clone, Debug)]
    pub struct UntrDir {
        pub name: Vec<u8>,
        pub untracked: Vec<Vec<u8>>,
        pub n_sub: u64,
        pub stat: Option<Stat>,
        pub check_only: bool,
        pub oid: Option<[u8; 20]>,
    }
    #[derive(Clone, Debug)]
    pub struct Untr {
        pub ident: Vec<u8>,
        pub info_exclude_stat: Stat,
        pub excludes_file_stat: Stat,
        pub dir_flags: u32,
        pub info_exclude_oid: [u8; 20],
        pub excludes_file_oid: [u8; 20],
        pub exclude_per_dir: Vec<u8>,
        pub dirs: Vec<UntrDir>,
    }
    #[derive(Clone, Debug)]
    pub struct Index {
        pub version: u32,
        pub entries: Vec<Entry>,
        /// offset one past the last entry
        pub entries_end: usize,
        pub ext_order: Vec<String>,
        pub tree: Option<Tree>,
        pub reuc: Option<Vec<Reuc>>,
        pub link: Option<Link>,
        pub untr: Option<Untr>,
        pub sdir: bool,
        pub fsmn: bool,
        pub eoie: Option<(u32, [u8; 20])>,
        /// EOIE offset equals the end of entries and its hash covers the preceding extensions
        pub eoie_consistent: bool,
        pub ieot: Option<Vec<(u32, u32)>>,
        /// every IEOT block starts at an entry boundary and the counts add up
        pub ieot_consistent: bool,
        pub trailer: [u8; 20],
        pub trailer_zero: bool,
        pub checksum_ok: bool,
    }

    struct Cur<'a> {
        d: &'a [u8],
        p: usize,
    }
    impl<'a> Cur<'a> {
        fn need(&self, n: usize) -> Result<(), String> {
            if self.p + n > self.d.len() {
                Err(format!("truncated at {} (+{})", self.p, n))
            } else {
                Ok(())
            }
        }
        fn u32(&mut self) -> Result<u32, String> {
            self.need(4)?;
            let v = u32::from_be_bytes([self.d[self.p], self.d[self.p + 1], self.d[self.p + 2], self.d[self.p + 3]]);
            self.p += 4;
            Ok(v)
        }
        fn u16(&mut self) -> Result<u16, String> {
            self.need(2)?;
            let v = u16::from_be_bytes([self.d[self.p], self.d[self.p + 1]]);
            self.p += 2;
            Ok(v)
        }
        fn u64(&mut self) -> Result<u64, String> {
            let hi = self.u32()? as u64;
            let lo = self.u32()? as u64;
            Ok(hi << 32 | lo)
        }
        fn take(&mut self, n: usize) -> Result<&'a [u8], String> {
            self.need(n)?;
            let s = &self.d[self.p..self.p + n];
            self.p += n;
            Ok(s)
        }
        fn oid(&mut self) -> Result<[u8; 20], String> {
            let s = self.take(20)?;
            let mut o = [0u8; 20];
            o.copy_from_slice(s);
            Ok(o)
        }
        /// bytes up to (excluding) the next `term`, which is consumed
        fn until(&mut self, term: u8) -> Result<&'a [u8], String> {
            match self.d[self.p..].iter().position(|b| *b == term) {
                Some(n) => {
                    let s = &self.d[self.p..self.p + n];
                    self.p += n + 1;
                    Ok(s)
                }
                None => Err(format!("no terminator {:#x} after {}", term, self.p)),
            }
        }
        /// git's "offset" varint (varint.c)
        fn varint(&mut self) -> Result<u64, String> {
            self.need(1)?;
            let mut c = self.d[self.p];
            self.p += 1;
            let mut v = (c & 127) as u64;
            while c & 128 != 0 {
                v = v.checked_add(1).ok_or("varint overflow")?;
                if v >> 57 != 0 {
                    return Err("varint overflow".into());
                }
                self.need(1)?;
                c = self.d[self.p];
                self.p += 1;
                v = (v << 7) + (c & 127) as u64;
            }
            Ok(v)
        }
        fn rest(&self) -> usize {
            self.d.len() - self.p
        }
        fn stat36(&mut self) -> Result<Stat, String> {
            Ok(Stat {
                ctime: (self.u32()?, self.u32()?),
                mtime: (self.u32()?, self.u32()?),
                dev: self.u32()?,
                ino: self.u32()?,
                uid: self.u32()?,
                gid: self.u32()?,
                size: self.u32()?,
            })
        }
    }

    fn ewah(c: &mut Cur) -> Result<Ewah, String> {
        let num_bits = c.u32()?;
        let nwords = c.u32()? as usize;
        c.need(nwords * 8)?;
        let mut words = Vec::with_capacity(nwords);
        for _ in 0..nwords {
            words.push(c.u64()?);
        }
        let _rlw_pos = c.u32()?;
        let mut set = Vec::new();
        let mut pos: u64 = 0;
        let mut i = 0;
        while i < words.len() {
            let rlw = words[i];
            let run_bit = rlw & 1;
            let run_len = (rlw >> 1) & 0xffff_ffff;
            let literals = (rlw >> 33) as usize;
            if run_bit == 1 {
                for b in 0..run_len * 64 {
                    set.push(pos + b);
                }
            }
            pos += run_len * 64;
            i += 1;
            for _ in 0..literals {
                let w = *words.get(i).ok_or("ewah: literal words missing")?;
                for b in 0..64 {
                    if w >> b & 1 == 1 {
                        set.push(pos + b);
                    }
                }
                pos += 64;
                i += 1;
            }
        }
        Ok(Ewah { num_bits, set })
    }

    fn tree(c: &mut Cur) -> Result<Tree, String> {
        let name = c.until(0)?.to_vec();
        let cnt = std::str::from_utf8(c.until(b' ')?).map_err(|e| e.to_string())?;
        let entry_count: i64 = cnt.parse().map_err(|_| format!("TREE entry count {:?}", cnt))?;
        let sub = std::str::from_utf8(c.until(b'\n')?).map_err(|e| e.to_string())?;
        let n_sub: usize = sub.parse().map_err(|_| format!("TREE subtree count {:?}", sub))?;
        let id = if entry_count >= 0 { Some(c.oid()?) } else { None };
        let mut children = Vec::new();
        for _ in 0..n_sub {
            children.push(tree(c)?);
        }
        Ok(Tree { name, entry_count, id, children })
    }

    fn untr_dir(c: &mut Cur, out: &mut Vec<UntrDir>, depth: usize) -> Result<(), String> {
        if depth > 4096 {
            return Err("UNTR nesting".into());
        }
        let n_untracked = c.varint()?;
        let n_sub = c.varint()?;
        let name = c.until(0)?.to_vec();
        let mut untracked = Vec::new();
        for _ in 0..n_untracked {
            untracked.push(c.until(0)?.to_vec());
        }
        out.push(UntrDir { name, untracked, n_sub, stat: None, check_only: false, oid: None });
        for _ in 0..n_sub {
            untr_dir(c, out, depth + 1)?;
        }
        Ok(())
    }

    fn untr(d: &[u8]) -> Result<Untr, String> {
        let mut c = Cur { d, p: 0 };
        let ident_len = c.varint()? as usize;
        let ident = c.take(ident_len)?.to_vec();
        let info_exclude_stat = c.stat36()?;
        let excludes_file_stat = c.stat36()?;
        let dir_flags = c.u32()?;
        let info_exclude_oid = c.oid()?;
        let excludes_file_oid = c.oid()?;
        let exclude_per_dir = c.until(0)?.to_vec();
        let ndirs = c.varint()? as usize;
        let mut u = Untr {
            ident,
            info_exclude_stat,
            excludes_file_stat,
            dir_flags,
            info_exclude_oid,
            excludes_file_oid,
            exclude_per_dir,
            dirs: Vec::new(),
        };
        if ndirs == 0 {
            if c.rest() != 0 {
                return Err("UNTR: bytes after empty root".into());
            }
            return Ok(u);
        }
        untr_dir(&mut c, &mut u.dirs, 0)?;
        if u.dirs.len() != ndirs {
            return Err(format!("UNTR: {} dirs announced, {} read", ndirs, u.dirs.len()));
        }
        let valid = ewah(&mut c)?;
        let check_only = ewah(&mut c)?;
        let sha1_valid = ewah(&mut c)?;
        for b in &check_only.set {
            u.dirs.get_mut(*b as usize).ok_or("UNTR: check_only bit out of range")?.check_only = true;
        }
        for b in &valid.set {
            let st = c.stat36()?;
            u.dirs.get_mut(*b as usize).ok_or("UNTR: valid bit out of range")?.stat = Some(st);
        }
        for b in &sha1_valid.set {
            let o = c.oid()?;
            u.dirs.get_mut(*b as usize).ok_or("UNTR: sha1_valid bit out of range")?.oid = Some(o);
        }
        if c.rest() != 1 || c.d[c.p] != 0 {
            return Err(format!("UNTR: {} trailing bytes", c.rest()));
        }
        Ok(u)
    }

    pub fn parse(data: &[u8]) -> Result<Index, String> {
        if data.len() < 12 + 20 {
            return Err("too short".into());
        }
        let body_end = data.len() - 20;
        let mut trailer = [0u8; 20];
        trailer.copy_from_slice(&data[body_end..]);
        let mut c = Cur { d: &data[..body_end], p: 0 };
        if c.take(4)? != b"DIRC" {
            return Err("bad signature".into());
        }
        let version = c.u32()?;
        if !(2..=4).contains(&version) {
            return Err(format!("version {version}"));
        }
        let n = c.u32()? as usize;
        let mut entries: Vec<Entry> = Vec::with_capacity(n.min(1 << 20));
        let mut prev: Vec<u8> = Vec::new();
        for i in 0..n {
            let offset = c.p;
            let ctime = (c.u32()?, c.u32()?);
            let mtime = (c.u32()?, c.u32()?);
            let dev = c.u32()?;
            let ino = c.u32()?;
            let mode = c.u32()?;
            let uid = c.u32()?;
            let gid = c.u32()?;
            let size = c.u32()?;
            let id = c.oid()?;
            let flags16 = c.u16()?;
            let ext16 = if flags16 & 0x4000 != 0 {
                if version < 3 {
                    return Err(format!("entry {i}: extended flag in version 2"));
                }
                Some(c.u16()?)
            } else {
                None
            };
            let path;
            if version == 4 {
                let strip = c.varint()? as usize;
                if strip > prev.len() {
                    return Err(format!("entry {i}: strip {strip} > previous path length {}", prev.len()));
                }
                let suffix = c.until(0)?;
                let mut p = prev[..prev.len() - strip].to_vec();
                p.extend_from_slice(suffix);
                path = p;
            } else {
                let nl = (flags16 & 0x0fff) as usize;
                let p = if nl < 0x0fff {
                    let p = c.take(nl)?;
                    p.to_vec()
                } else {
                    let start = c.p;
                    let len = c.d[start..].iter().position(|b| *b == 0).ok_or("long path without NUL")?;
                    if len < 0x0fff {
                        return Err(format!("entry {i}: saturated name length but path is {len} bytes"));
                    }
                    c.take(len)?.to_vec()
                };
                // 1..8 NUL bytes pad the entry to a multiple of eight
                let len = c.p - offset;
                let padded = (len + 8) & !7;
                let pad = c.take(padded - len)?;
                if pad.iter().any(|b| *b != 0) {
                    return Err(format!("entry {i}: non-NUL padding"));
                }
                path = p;
            }
            prev = path.clone();
            entries.push(Entry {
                offset,
                stat: Stat { ctime, mtime, dev, ino, uid, gid, size },
                mode,
                id,
                flags16,
                ext16,
                path,
            });
        }
        let entries_end = c.p;
        let mut idx = Index {
            version,
            entries,
            entries_end,
            ext_order: Vec::new(),
            tree: None,
            reuc: None,
            link: None,
            untr: None,
            sdir: false,
            fsmn: false,
            eoie: None,
            eoie_consistent: true,
            ieot: None,
            ieot_consistent: true,
            trailer,
            trailer_zero: trailer == [0u8; 20],
            checksum_ok: sha1_bytes(&data[..body_end]) == trailer,
        };
        // extensions
        let mut toc: Vec<u8> = Vec::new();
        while c.rest() > 0 {
            let sig = c.take(4)?;
            let size = c.u32()? as usize;
            let body = c.take(size)?;
            let name = String::from_utf8_lossy(sig).to_string();
            idx.ext_order.push(name.clone());
            let mut e = Cur { d: body, p: 0 };
            match sig {
                b"TREE" => {
                    let t = tree(&mut e)?;
                    if e.rest() != 0 {
                        return Err("TREE: trailing bytes".into());
                    }
                    idx.tree = Some(t);
                }
                b"REUC" => {
                    let mut v = Vec::new();
                    while e.rest() > 0 {
                        let path = e.until(0)?.to_vec();
                        let mut modes = [0u32; 3];
                        for m in modes.iter_mut() {
                            let s = std::str::from_utf8(e.until(0)?).map_err(|x| x.to_string())?;
                            *m = u32::from_str_radix(s, 8).map_err(|_| format!("REUC mode {:?}", s))?;
                        }
                        let mut ids = [None, None, None];
                        for k in 0..3 {
                            if modes[k] != 0 {
                                ids[k] = Some(e.oid()?);
                            }
                        }
                        v.push(Reuc { path, modes, ids });
                    }
                    idx.reuc = Some(v);
                }
                b"link" => {
                    let base = e.oid()?;
                    let bitmaps = if e.rest() == 0 {
                        None
                    } else {
                        let d = ewah(&mut e)?;
                        let r = ewah(&mut e)?;
                        if e.rest() != 0 {
                            return Err("link: trailing bytes".into());
                        }
                        Some((d, r))
                    };
                    idx.link = Some(Link { base, bitmaps });
                }
                b"UNTR" => idx.untr = Some(untr(body)?),
                b"sdir" => {
                    if size != 0 {
                        return Err("sdir with payload".into());
                    }
                    idx.sdir = true;
                }
                b"FSMN" => idx.fsmn = true,
                b"EOIE" => {
                    let off = e.u32()?;
                    let h = e.oid()?;
                    if e.rest() != 0 {
                        return Err("EOIE size".into());
                    }
                    idx.eoie_consistent = off as usize == entries_end && sha1_bytes(&toc) == h && c.rest() == 0;
                    idx.eoie = Some((off, h));
                }
                b"IEOT" => {
                    let v = e.u32()?;
                    if v != 1 {
                        return Err(format!("IEOT version {v}"));
                    }
                    let mut blocks = Vec::new();
                    while e.rest() > 0 {
                        blocks.push((e.u32()?, e.u32()?));
                    }
                    let mut ok = !blocks.is_empty();
                    let mut at = 0usize;
                    for (off, cnt) in &blocks {
                        ok &= idx.entries.get(at).map(|en| en.offset == *off as usize).unwrap_or(false);
                        at += *cnt as usize;
                    }
                    ok &= at == idx.entries.len();
                    idx.ieot_consistent = ok;
                    idx.ieot = Some(blocks);
                }
                _ => {
                    if sig[0].is_ascii_lowercase() {
                        return Err(format!("unknown mandatory extension {name}"));
                    }
                }
            }
            if sig != b"EOIE" {
                toc.extend_from_slice(sig);
                toc.extend_from_slice(&(size as u32).to_be_bytes());
            }
        }
        Ok(idx)
    }
}

// =========================================================================== git's view (G)
pub(crate) struct GEntry {
    pub mode: u32,
    pub id: [u8; 20],
    pub stage: u32,
    pub path: Vec<u8>,
    pub stat: reader::Stat,
    pub flags: u32,
}

fn unhex20(h: &[u8]) -> Option<[u8; 20]> {
    if h.len() != 40 {
        return None;
    }
    let mut o = [0u8; 20];
    for i in 0..20 {
        let s = std::str::from_utf8(&h[2 * i..2 * i + 2]).ok()?;
        o[i] = u8::from_str_radix(s, 16).ok()?;
    }
    Some(o)
}

/// parse `git ls-files --stage --debug -z`
pub(crate) fn parse_ls_files_debug(out: &[u8]) -> Result<Vec<GEntry>, String> {
    fn num_after<'a>(line: &'a str, key: &str) -> Result<&'a str, String> {
        let at = line.find(key).ok_or_else(|| format!("no {key:?} in {line:?}"))?;
        let rest = &line[at + key.len()..];
        Ok(rest.split(|c: char| c == '\t' || c == '\n').next().unwrap_or("").trim())
    }
    let mut v = Vec::new();
    let mut p = 0usize;
    while p < out.len() {
        // "<mode:6> <sha:40> <stage:1>\t<path>\0"
        if out.len() < p + 50 || out[p + 6] != b' ' || out[p + 47] != b' ' || out[p + 49] != b'\t' {
            return Err(format!("ls-files: unexpected record at {p}"));
        }
        let mode = u32::from_str_radix(std::str::from_utf8(&out[p..p + 6]).map_err(|e| e.to_string())?, 8)
            .map_err(|e| e.to_string())?;
        let id = unhex20(&out[p + 7..p + 47]).ok_or("ls-files: bad oid")?;
        let stage = (out[p + 48] as char).to_digit(10).ok_or("ls-files: bad stage")?;
        let pe = out[p + 50..].iter().position(|b| *b == 0).ok_or("ls-files: unterminated path")?;
        let path = out[p + 50..p + 50 + pe].to_vec();
        p += 50 + pe + 1;
        // five debug lines
        let mut lines = Vec::new();
        for _ in 0..5 {
            let le = out[p..].iter().position(|b| *b == b'\n').ok_or("ls-files: debug lines truncated")?;
            lines.push(std::str::from_utf8(&out[p..p + le]).map_err(|e| e.to_string())?.to_string());
            p += le + 1;
        }
        let pair = |s: &str| -> Result<(u32, u32), String> {
            let (a, b) = s.split_once(':').ok_or_else(|| format!("time {s:?}"))?;
            Ok((a.parse().map_err(|_| format!("time {s:?}"))?, b.parse().map_err(|_| format!("time {s:?}"))?))
        };
        let n = |s: &str| -> Result<u32, String> { s.parse().map_err(|_| format!("number {s:?}")) };
        let stat = reader::Stat {
            ctime: pair(num_after(&lines[0], "ctime: ")?)?,
            mtime: pair(num_after(&lines[1], "mtime: ")?)?,
            dev: n(num_after(&lines[2], "dev: ")?)?,
            ino: n(num_after(&lines[2], "ino: ")?)?,
            uid: n(num_after(&lines[3], "uid: ")?)?,
            gid: n(num_after(&lines[3], "gid: ")?)?,
            size: n(num_after(&lines[4], "size: ")?)?,
        };
        let flags = u32::from_str_radix(num_after(&lines[4], "flags: ")?, 16).map_err(|e| e.to_string())?;
        v.push(GEntry { mode, id, stage, path, stat, flags });
    }
    Ok(v)
}

/// flags that are stored in the file: stage, EXTENDED, ASSUME_VALID, INTENT_TO_ADD, SKIP_WORKTREE
pub(crate) const PERSISTED_FLAGS: u32 = 0x6000_f000;

/// compare git's listing with the independent reader; Some(description) on the first difference
pub(crate) fn g_vs_m(g: &[GEntry], m: &reader::Index) -> Option<String> {
    if g.len() != m.entries.len() {
        return Some(format!("git lists {} entries, reader found {}", g.len(), m.entries.len()));
    }
    for (i, (a, b)) in g.iter().zip(m.entries.iter()).enumerate() {
        let same = a.mode == b.mode
            && a.id == b.id
            && a.stage == b.stage()
            && a.path == b.path
            && a.stat == b.stat
            && (a.flags & PERSISTED_FLAGS) == b.mem_flags();
        if !same {
            return Some(format!(
                "entry {i}: git {:o} {} {} {:?} {:?} flags {:x} vs reader {:o} {} {} {:?} {:?} flags {:x}",
                a.mode,
                hex(&a.id),
                a.stage,
                show(&a.path[..a.path.len().min(80)]),
                a.stat,
                a.flags,
                b.mode,
                hex(&b.id),
                b.stage(),
                show(&b.path[..b.path.len().min(80)]),
                b.stat,
                b.mem_flags()
            ));
        }
    }
    None
}

// =========================================================================== gitoxide's view (R) against M
#[derive(Clone, Copy, Debug, PartialEq, Eq, Hash)]
pub(crate) enum DecodePath {
    Serial,
    ExtThread,
    IeotThreads,
    FileAt,
}
impl DecodePath {
    fn name(self) -> &'static str {
        match self {
            DecodePath::Serial => "serial",
            DecodePath::ExtThread => "eoie-threaded",
            DecodePath::IeotThreads => "ieot-threaded",
            DecodePath::FileAt => "file-at",
        }
    }
}

pub(crate) fn cmp_tree(r: &gix_index::extension::Tree, m: &reader::Tree, at: &str, reordered: &mut bool) -> Option<String> {
    if r.name.as_slice() != m.name.as_slice() {
        return Some(format!("TREE node {at}: name {:?} vs stored {:?}", show(&r.name), show(&m.name)));
    }
    let want_n = if m.entry_count >= 0 { Some(m.entry_count as u32) } else { None };
    if r.num_entries != want_n {
        return Some(format!("TREE node {at}/{}: num_entries {:?} vs stored {}", show(&m.name), r.num_entries, m.entry_count));
    }
    match m.id {
        Some(id) => {
            if r.id.as_bytes() != id {
                return Some(format!("TREE node {at}/{}: id {} vs stored {}", show(&m.name), r.id, hex(&id)));
            }
        }
        None => {
            if !r.id.is_null() {
                return Some(format!("TREE node {at}/{}: invalidated node has id {}", show(&m.name), r.id));
            }
        }
    }
    if r.children.len() != m.children.len() {
        return Some(format!(
            "TREE node {at}/{}: {} children vs stored {}",
            show(&m.name),
            r.children.len(),
            m.children.len()
        ));
    }
    // gitoxide sorts children by name; content is compared as a set keyed by name
    let mut ms: Vec<&reader::Tree> = m.children.iter().collect();
    ms.sort_by(|a, b| a.name.cmp(&b.name));
    let mut rs: Vec<&gix_index::extension::Tree> = r.children.iter().collect();
    if rs.iter().zip(m.children.iter()).any(|(a, b)| a.name.as_slice() != b.name.as_slice()) {
        *reordered = true;
    }
    rs.sort_by(|a, b| a.name.cmp(&b.name));
    let here = format!("{at}/{}", show(&m.name));
    for (a, b) in rs.iter().zip(ms.iter()) {
        if let Some(d) = cmp_tree(a, b, &here, reordered) {
            return Some(d);
        }
    }
    None
}

fn ewah_bits(v: &gix_bitmap::ewah::Vec) -> (usize, Vec<u64>) {
    let mut out = Vec::new();
    let _ = v.for_each_set_bit(|i| {
        out.push(i as u64);
        Some(())
    });
    (v.num_bits(), out)
}

/// All differences (field class, description) between what gitoxide decoded and what the bytes hold.
pub(crate) fn r_vs_m(
    state: &gix_index::State,
    checksum: Option<gix_hash::ObjectId>,
    m: &reader::Index,
    counters: &mut BTreeMap<&'static str, u64>,
) -> Vec<(&'static str, String)> {
    let mut out: Vec<(&'static str, String)> = Vec::new();
    let push = |out: &mut Vec<(&'static str, String)>, f: &'static str, d: String| {
        if !out.iter().any(|(g, _)| *g == f) {
            out.push((f, d));
        }
    };
    if state.version() as u32 != m.version {
        push(&mut out, "version", format!("version {:?} vs stored {}", state.version(), m.version));
    }
    let es = state.entries();
    if es.len() != m.entries.len() {
        push(&mut out, "entry-count", format!("{} entries vs stored {}", es.len(), m.entries.len()));
    }
    for (i, (e, w)) in es.iter().zip(m.entries.iter()).enumerate() {
        let path: &[u8] = e.path(state).as_ref();
        if path != w.path.as_slice() {
            push(
                &mut out,
                "path",
                format!(
                    "entry {i}: path ({} bytes) {:?} vs stored ({} bytes) {:?}",
                    path.len(),
                    show(&path[..path.len().min(120)]),
                    w.path.len(),
                    show(&w.path[..w.path.len().min(120)])
                ),
            );
        }
        if e.stage_raw() != w.stage() {
            push(&mut out, "stage", format!("entry {i} {:?}: stage {} vs stored {}", show(&w.path), e.stage_raw(), w.stage()));
        }
        if e.mode.bits() != w.mode {
            push(&mut out, "mode", format!("entry {i} {:?}: mode {:o} vs stored {:o}", show(&w.path), e.mode.bits(), w.mode));
        }
        if e.id.as_bytes() != w.id {
            push(&mut out, "id", format!("entry {i} {:?}: id {} vs stored {}", show(&w.path), e.id, hex(&w.id)));
        }
        if e.flags.bits() != w.mem_flags() {
            push(
                &mut out,
                "flags",
                format!("entry {i} {:?}: flags {:#x} vs stored {:#x}", show(&w.path), e.flags.bits(), w.mem_flags()),
            );
        }
        let s = e.stat;
        let got = reader::Stat {
            ctime: (s.ctime.secs, s.ctime.nsecs),
            mtime: (s.mtime.secs, s.mtime.nsecs),
            dev: s.dev,
            ino: s.ino,
            uid: s.uid,
            gid: s.gid,
            size: s.size,
        };
        if got != w.stat {
            push(&mut out, "stat", format!("entry {i} {:?}: stat {:?} vs stored {:?}", show(&w.path), got, w.stat));
        }
    }
    *counters.entry("entries_compared").or_insert(0) += es.len().min(m.entries.len()) as u64;
    // extensions
    match (state.tree(), &m.tree) {
        (None, None) => {}
        (Some(r), Some(w)) => {
            let mut reordered = false;
            if let Some(d) = cmp_tree(r, w, "", &mut reordered) {
                push(&mut out, "tree", d);
            }
            *counters.entry("tree_ext_compared").or_insert(0) += 1;
            if reordered {
                *counters.entry("tree_children_order_differs_from_file").or_insert(0) += 1;
            }
        }
        (r, w) => push(&mut out, "tree", format!("TREE decoded={} stored={}", r.is_some(), w.is_some())),
    }
    match (state.resolve_undo(), &m.reuc) {
        (None, None) => {}
        (Some(r), Some(w)) => {
            *counters.entry("reuc_ext_compared").or_insert(0) += 1;
            if r.len() != w.len() {
                push(&mut out, "reuc", format!("REUC has {} paths vs stored {}", r.len(), w.len()));
            }
        }
        (r, w) => push(&mut out, "reuc", format!("REUC decoded={} stored={}", r.is_some(), w.is_some())),
    }
    match (state.link(), &m.link) {
        (None, None) => {}
        (Some(r), Some(w)) => {
            *counters.entry("link_ext_compared").or_insert(0) += 1;
            if r.shared_index_checksum.as_bytes() != w.base {
                push(&mut out, "link", format!("link base {} vs stored {}", r.shared_index_checksum, hex(&w.base)));
            }
            match (&r.bitmaps, &w.bitmaps) {
                (None, None) => {}
                (Some(rb), Some((wd, wr))) => {
                    let (dn, db) = ewah_bits(&rb.delete);
                    let (rn, rbits) = ewah_bits(&rb.replace);
                    if dn != wd.num_bits as usize || db != wd.set {
                        push(&mut out, "link", format!("link delete bitmap {dn}:{db:?} vs stored {}:{:?}", wd.num_bits, wd.set));
                    }
                    if rn != wr.num_bits as usize || rbits != wr.set {
                        push(&mut out, "link", format!("link replace bitmap {rn}:{rbits:?} vs stored {}:{:?}", wr.num_bits, wr.set));
                    }
                }
                (a, b) => push(&mut out, "link", format!("link bitmaps decoded={} stored={}", a.is_some(), b.is_some())),
            }
        }
        (r, w) => push(&mut out, "link", format!("link decoded={} stored={}", r.is_some(), w.is_some())),
    }
    if state.untracked().is_some() != m.untr.is_some() {
        push(
            &mut out,
            "untracked-presence",
            format!("UNTR decoded={} stored={}", state.untracked().is_some(), m.untr.is_some()),
        );
    } else if m.untr.is_some() {
        *counters.entry("untr_presence_compared").or_insert(0) += 1;
    }
    let want_sparse = m.sdir || m.entries.iter().any(|e| e.mode == 0o040000);
    if state.is_sparse() != want_sparse {
        push(&mut out, "sparse", format!("is_sparse {} vs stored sdir={} dir-entries={}", state.is_sparse(), m.sdir, want_sparse));
    }
    if state.had_end_of_index_marker() != m.eoie.is_some() {
        push(&mut out, "eoie-marker", format!("had_end_of_index_marker {} vs stored {}", state.had_end_of_index_marker(), m.eoie.is_some()));
    }
    if state.had_offset_table() != m.ieot.is_some() {
        push(&mut out, "ieot-marker", format!("had_offset_table {} vs stored {}", state.had_offset_table(), m.ieot.is_some()));
    }
    let want_sum = if m.trailer_zero { None } else { Some(m.trailer) };
    if checksum.map(|c| {
        let mut o = [0u8; 20];
        o.copy_from_slice(c.as_bytes());
        o
    }) != want_sum
    {
        push(&mut out, "checksum", format!("returned checksum {:?} vs trailer {}", checksum, hex(&m.trailer)));
    }
    out
}

/// features of an index that select a signature class
fn shape_class(m: &reader::Index) -> &'static str {
    if m.version < 4 && m.entries.iter().any(|e| e.path.len() >= 0xfff) {
        "v2v3-path>=4095"
    } else {
        "plain"
    }
}

/// Decode `data` with every option and compare with M. Returns the number of decodes that agreed.
fn check_gitoxide(ctx: &mut Ctx, data: &[u8], file: &Path, m: &reader::Index, witness: &Value, use_file_at: bool) -> u64 {
    let mut agreed = 0;
    let shape = shape_class(m);
    let mut counters: BTreeMap<&'static str, u64> = BTreeMap::new();
    let mut runs: Vec<(Option<usize>, usize, DecodePath)> = Vec::new();
    for &t in &[1usize, 2, 3, 4, 8, 16] {
        for &min_ext in &[0usize, usize::MAX] {
            let path = if t > 1 && m.eoie.is_some() && m.eoie_consistent {
                if m.ieot.is_some() {
                    DecodePath::IeotThreads
                } else if min_ext == 0 {
                    DecodePath::ExtThread
                } else {
                    DecodePath::Serial
                }
            } else {
                DecodePath::Serial
            };
            if t == 1 && min_ext != 0 {
                continue;
            }
            runs.push((Some(t), min_ext, path));
        }
    }
    if use_file_at {
        runs.push((None, 0, DecodePath::FileAt));
    }
    let ts = gix_index::State::new(gix_hash::Kind::Sha1).timestamp();
    for (limit, min_ext, dpath) in runs {
        ctx.eval();
        ctx.count(&format!("decodes_{}", dpath.name()));
        let res = guard(|| {
            if dpath == DecodePath::FileAt {
                gix_index::File::at(file, gix_hash::Kind::Sha1, false, Default::default())
                    .map(|f| {
                        let sum = f.checksum();
                        (gix_index::State::from(f), sum)
                    })
                    .map_err(|e| format!("{e}: {:?}", std::error::Error::source(&e).map(|s| s.to_string())))
            } else {
                gix_index::State::from_bytes(
                    data,
                    ts,
                    gix_hash::Kind::Sha1,
                    gix_index::decode::Options {
                        thread_limit: limit,
                        min_extension_block_in_bytes_for_threading: min_ext,
                        expected_checksum: None,
                    },
                )
                .map_err(|e| e.to_string())
            }
        });
        let mut w = witness.clone();
        w["thread_limit"] = json!(limit);
        w["min_extension_block"] = json!(if min_ext == 0 { "0" } else { "max" });
        w["decode_path"] = json!(dpath.name());
        match res {
            Err(p) => {
                ctx.panic_violation("State::from_bytes", &p, &format!("{}|{}", dpath.name(), shape), w);
            }
            Ok(Err(e)) => {
                w["error"] = json!(e);
                let sig = if shape == "plain" { format!("decode-error|{}|plain", dpath.name()) } else { format!("entries-misparsed|{shape}") };
                ctx.violation(
                    &sig,
                    &format!("gitoxide rejects an index written by git ({}): {}", dpath.name(), e),
                    w,
                );
            }
            Ok(Ok((state, sum))) => {
                let diffs = r_vs_m(&state, sum, m, &mut counters);
                if diffs.is_empty() {
                    agreed += 1;
                }
                for (field, d) in diffs {
                    let mut w = w.clone();
                    w["difference"] = json!(d);
                    // an entry stream that went out of step garbles every later field and extension: one signature
                    let sig = if shape == "plain" { format!("{}|{}|plain", field, dpath.name()) } else { format!("entries-misparsed|{shape}") };
                    ctx.violation(
                        &sig,
                        &format!("decoded index differs from the bytes git wrote ({}, thread_limit {:?}): {}", dpath.name(), limit, d),
                        w,
                    );
                }
            }
        }
    }
    for (k, v) in counters {
        ctx.count_n(k, v);
    }
    agreed
}

// =========================================================================== workload
const SIMPLE: &[u8] = b"abcdefghijklmnopqrstuvwxyzABCXYZ0123456789_-.";
const NASTY: &[u8] = b"ab01 \"'\\\t\x01\x7f\xc3\xa9\xff*?[]{}~#!$&()+,;=@^`|<>:%\n";

pub(crate) struct PathGen {
    bases: Vec<Vec<u8>>,
    nasty: bool,
}
impl PathGen {
    pub fn new(r: &mut Rng) -> PathGen {
        let nasty = r.chance(1, 3);
        let long_names = r.chance(1, 3);
        let nb = 2 + r.usize(5);
        let mut bases = Vec::new();
        for _ in 0..nb {
            let len = if long_names && r.chance(1, 2) { 100 + r.usize(140) } else { 1 + r.usize(10) };
            bases.push(r.bytes_from(len, SIMPLE));
        }
        PathGen { bases, nasty }
    }
    pub fn component(&self, r: &mut Rng) -> Vec<u8> {
        loop {
            let mut c = if r.chance(2, 3) { r.pick(&self.bases).clone() } else { Vec::new() };
            let tail = if c.is_empty() { 1 + r.usize(12) } else { r.usize(8) };
            let alpha: &[u8] = if self.nasty && r.chance(1, 2) { NASTY } else { SIMPLE };
            c.extend(r.bytes_from(tail, alpha));
            c.truncate(250);
            let lower = c.to_ascii_lowercase();
            if c.is_empty() || c == b"." || c == b".." || lower.starts_with(b".git") || lower.starts_with(b"git~") {
                continue;
            }
            return c;
        }
    }
}

/// a random forest of file paths without file/directory conflicts; `max_len` bounds the total path length
pub(crate) fn gen_paths(r: &mut Rng, pg: &PathGen, n: usize, max_len: usize, prefix: &[u8]) -> Vec<Vec<u8>> {
    let mut dirs: Vec<Vec<u8>> = vec![prefix.to_vec()];
    let mut used: BTreeSet<Vec<u8>> = BTreeSet::new();
    let mut files = Vec::new();
    let mut attempts = 0;
    while files.len() < n && attempts < n * 20 + 50 {
        attempts += 1;
        let di = if r.chance(1, 2) { dirs.len() - 1 - r.usize(dirs.len().min(3)) } else { r.usize(dirs.len()) };
        let mut dir = dirs[di].clone();
        if r.chance(1, 4) && dir.iter().filter(|b| **b == b'/').count() < 10 {
            let c = pg.component(r);
            let mut nd = dir.clone();
            if !nd.is_empty() {
                nd.push(b'/');
            }
            nd.extend_from_slice(&c);
            if nd.len() + 2 < max_len && !used.contains(&nd) {
                used.insert(nd.clone());
                dirs.push(nd.clone());
                dir = nd;
            }
        }
        let c = pg.component(r);
        let mut p = dir.clone();
        if !p.is_empty() {
            p.push(b'/');
        }
        p.extend_from_slice(&c);
        if p.len() > max_len || used.contains(&p) {
            continue;
        }
        used.insert(p.clone());
        files.push(p);
    }
    files
}

fn os(p: &[u8]) -> &std::ffi::OsStr {
    use std::os::unix::ffi::OsStrExt;
    std::ffi::OsStr::from_bytes(p)
}

fn random_time(r: &mut Rng) -> Option<std::time::SystemTime> {
    use std::time::{Duration, UNIX_EPOCH};
    let secs: u64 = match r.below(8) {
        0 => return None,
        1 => 0,
        2 => 1,
        3 => 0x7fff_ffff,
        4 => 0x8000_0000,
        5 => 0xffff_ffff,
        6 => 0x1_0000_0000 + r.below(1000),
        _ => r.below(0xffff_ffff),
    };
    let nanos = match r.below(4) {
        0 => 0,
        1 => 999_999_999,
        _ => r.below(1_000_000_000) as u32,
    };
    Some(UNIX_EPOCH + Duration::new(secs, nanos))
}

fn write_file(root: &Path, rel: &[u8], r: &mut Rng) -> std::io::Result<()> {
    let p = root.join(os(rel));
    if let Some(d) = p.parent() {
        std::fs::create_dir_all(d)?;
    }
    let kind = r.below(12);
    if kind == 0 {
        let tl = 1 + r.usize(20);
        let target = r.bytes_from(tl, SIMPLE);
        let _ = std::fs::remove_file(&p);
        std::os::unix::fs::symlink(os(&target), &p)?;
        return Ok(());
    }
    let len = match r.below(10) {
        0 => 0,
        1 => 1000 + r.usize(4000),
        _ => r.usize(64),
    };
    std::fs::write(&p, r.bytes(len))?;
    if kind == 1 {
        use std::os::unix::fs::PermissionsExt;
        std::fs::set_permissions(&p, std::fs::Permissions::from_mode(0o755))?;
    }
    if r.chance(1, 3) {
        let ids = [0u32, 1, 1000, 65534, 0x7fff_ffff, 0xffff_fffe];
        let _ = std::os::unix::fs::chown(&p, Some(*r.pick(&ids)), Some(*r.pick(&ids)));
    }
    if let Some(t) = random_time(r) {
        if let Ok(f) = std::fs::File::options().write(true).open(&p) {
            let _ = f.set_modified(t);
        }
    }
    Ok(())
}

pub(crate) struct Scn {
    pub dir: PathBuf,
    pub steps: Vec<String>,
    pub cfg: Value,
    pub last: Option<reader::Index>,
    pub committed: bool,
    pub sparse: bool,
    pub split: bool,
    pub files: Vec<Vec<u8>>,
    pub pg: PathGen,
    pub virt_counter: usize,
    pub observe: bool,
}

impl Scn {
    fn git(&mut self, ctx: &mut Ctx, name: &str, args: &[&str]) -> bool {
        self.steps.push(format!("git {}", args.join(" ")));
        match git::run(&self.dir, args) {
            Ok(o) if o.ok => {
                ctx.count("git_calls");
                true
            }
            Ok(o) => {
                ctx.count(&format!("step_failed_{name}"));
                self.steps.push(format!("  -> failed: {}", o.err_text().lines().next().unwrap_or("")));
                false
            }
            Err(e) => {
                ctx.inconclusive(&format!("git spawn failed: {e}"));
                false
            }
        }
    }
    fn git_in(&mut self, ctx: &mut Ctx, name: &str, args: &[&str], input: &[u8]) -> bool {
        self.steps.push(format!("git {} < ({} bytes)", args.join(" "), input.len()));
        match git::run_in(&self.dir, args, input) {
            Ok(o) if o.ok => {
                ctx.count("git_calls");
                true
            }
            Ok(o) => {
                ctx.count(&format!("step_failed_{name}"));
                self.steps.push(format!("  -> failed: {}", o.err_text().lines().next().unwrap_or("")));
                false
            }
            Err(e) => {
                ctx.inconclusive(&format!("git spawn failed: {e}"));
                false
            }
        }
    }
    fn unmerged(&self) -> bool {
        self.last.as_ref().map(|m| m.entries.iter().any(|e| e.stage() != 0)).unwrap_or(false)
    }
    fn blob_ids(&self) -> Vec<[u8; 20]> {
        self.last
            .as_ref()
            .map(|m| {
                m.entries
                    .iter()
                    .filter(|e| e.mode & 0o170000 == 0o100000 && e.stage() == 0 && e.ext16.unwrap_or(0) & 0x2000 == 0)
                    .map(|e| e.id)
                    .collect()
            })
            .unwrap_or_default()
    }
}

pub(crate) fn new_repo(ctx: &mut Ctx, r: &mut Rng, dir: PathBuf) -> Option<Scn> {
    if let Err(e) = git::init(&dir, false) {
        ctx.inconclusive(&format!("git init failed: {e}"));
        return None;
    }
    let version = *r.pick(&[2u32, 3, 4, 4]);
    let threads = *r.pick(&["", "", "1", "2", "3", "4", "5", "8", "16", "33", "true"]);
    let untracked_cache = r.chance(1, 2);
    let many_files = r.chance(1, 10);
    let mut cfg: Vec<(String, String)> = vec![
        ("core.protectNTFS".into(), "false".into()),
        ("core.protectHFS".into(), "false".into()),
        ("core.splitIndex".into(), "false".into()),
        ("index.version".into(), version.to_string()),
        ("core.untrackedCache".into(), if untracked_cache { "true" } else { "false" }.into()),
        ("gc.auto".into(), "0".into()),
        ("core.quotePath".into(), "false".into()),
    ];
    if !threads.is_empty() {
        cfg.push(("index.threads".into(), threads.into()));
    }
    if r.chance(1, 8) {
        cfg.push(("index.recordOffsetTable".into(), if r.bool() { "true" } else { "false" }.into()));
    }
    if r.chance(1, 8) {
        cfg.push(("index.recordEndOfIndexEntries".into(), if r.bool() { "true" } else { "false" }.into()));
    }
    if many_files {
        cfg.insert(0, ("feature.manyFiles".into(), "true".into()));
    }
    let mut text = String::new();
    for (k, v) in &cfg {
        let (sec, key) = k.split_once('.').unwrap();
        text.push_str(&format!("[{sec}]\n\t{key} = {v}\n"));
    }
    use std::io::Write;
    match std::fs::OpenOptions::new().append(true).open(dir.join(".git/config")) {
        Ok(mut f) => {
            let _ = f.write_all(text.as_bytes());
        }
        Err(e) => {
            ctx.inconclusive(&format!("cannot write config: {e}"));
            return None;
        }
    }
    Some(Scn {
        dir,
        steps: Vec::new(),
        cfg: json!(cfg.iter().map(|(k, v)| format!("{k}={v}")).collect::<Vec<_>>()),
        last: None,
        committed: false,
        sparse: false,
        split: false,
        files: Vec::new(),
        pg: PathGen::new(r),
        virt_counter: 0,
        observe: true,
    })
}

/// Observe the current `.git/index` with G, M and R (with `observe == false` only M reads it, to steer later steps).
fn check_index(ctx: &mut Ctx, s: &mut Scn, label: &str) {
    let file = s.dir.join(".git/index");
    if !s.observe {
        s.last = std::fs::read(&file).ok().and_then(|d| reader::parse(&d).ok());
        return;
    }
    let data = match std::fs::read(&file) {
        Ok(d) => d,
        Err(_) => {
            ctx.count("no_index_file");
            return;
        }
    };
    let m = match reader::parse(&data) {
        Ok(m) => m,
        Err(e) => {
            ctx.inconclusive(&format!("independent reader failed on a git-written index: {e}"));
            return;
        }
    };
    ctx.count("indices_observed");
    if !m.checksum_ok || !m.eoie_consistent || !m.ieot_consistent {
        ctx.inconclusive(&format!(
            "independent reader: inconsistent file (checksum_ok={} eoie={} ieot={})",
            m.checksum_ok, m.eoie_consistent, m.ieot_consistent
        ));
        return;
    }
    // --- G calibrates M (expectFilesOutsideOfPatterns keeps git from clearing SKIP_WORKTREE in memory for files that
    // are present in a sparse checkout: the listing must show what is stored)
    if m.link.is_none() {
        match git::run(&s.dir, &["-c", "sparse.expectFilesOutsideOfPatterns=true", "ls-files", "--stage", "--debug", "-z", "--sparse"]) {
            Ok(o) if o.ok => {
                ctx.count("git_calls");
                match parse_ls_files_debug(&o.stdout) {
                    Ok(g) => {
                        if let Some(d) = g_vs_m(&g, &m) {
                            ctx.inconclusive(&format!("independent reader disagrees with git ls-files --debug: {d}"));
                            return;
                        }
                        ctx.count("reader_calibrated_by_ls_files");
                    }
                    Err(e) => {
                        ctx.inconclusive(&format!("cannot parse ls-files --debug: {e}"));
                        return;
                    }
                }
            }
            Ok(o) => {
                ctx.inconclusive(&format!("git ls-files failed: {}", o.err_text()));
                return;
            }
            Err(e) => {
                ctx.inconclusive(&format!("git spawn failed: {e}"));
                return;
            }
        }
        if let Some(reuc) = &m.reuc {
            if let Ok(o) = git::run(&s.dir, &["ls-files", "--resolve-undo", "-z"]) {
                ctx.count("git_calls");
                let mut want: Vec<u8> = Vec::new();
                for u in reuc {
                    for k in 0..3 {
                        if let Some(id) = u.ids[k] {
                            want.extend_from_slice(format!("{:06o} {} {}\t", u.modes[k], hex(&id), k + 1).as_bytes());
                            want.extend_from_slice(&u.path);
                            want.push(0);
                        }
                    }
                }
                if o.ok && o.stdout == want {
                    ctx.count("reader_reuc_calibrated_by_git");
                } else {
                    ctx.inconclusive("independent reader disagrees with git ls-files --resolve-undo");
                    return;
                }
            }
        }
        if let Some(t) = &m.tree {
            let mut ids = Vec::new();
            fn collect(t: &reader::Tree, ids: &mut Vec<[u8; 20]>) {
                if let Some(id) = t.id {
                    ids.push(id);
                }
                for c in &t.children {
                    collect(c, ids);
                }
            }
            collect(t, &mut ids);
            if !ids.is_empty() {
                let input: String = ids.iter().map(|i| format!("{}\n", hex(i))).collect();
                if let Ok(o) = git::run_in(&s.dir, &["cat-file", "--batch-check=%(objecttype)"], input.as_bytes()) {
                    ctx.count("git_calls");
                    let text = String::from_utf8_lossy(&o.stdout).to_string();
                    if o.ok && text.lines().count() == ids.len() && text.lines().all(|l| l == "tree") {
                        ctx.count_n("reader_tree_ids_confirmed_by_git", ids.len() as u64);
                    } else {
                        ctx.inconclusive("independent reader: a TREE node id is not a tree object in git's odb");
                        return;
                    }
                }
            }
        }
    } else {
        ctx.count("split_index_observed_without_ls_files");
    }
    // --- shape
    let mut flagclass = 0u32;
    let mut maxlen = 0usize;
    let mut max_strip = 0usize;
    let mut prev: &[u8] = &[];
    for e in &m.entries {
        if e.stage() != 0 {
            flagclass |= 1;
        }
        if e.flags16 & 0x8000 != 0 {
            flagclass |= 2;
        }
        if let Some(x) = e.ext16 {
            if x & 0x2000 != 0 {
                flagclass |= 4;
            }
            if x & 0x4000 != 0 {
                flagclass |= 8;
            }
        }
        match e.mode {
            0o040000 => flagclass |= 16,
            0o120000 => flagclass |= 32,
            0o160000 => flagclass |= 64,
            0o100755 => flagclass |= 128,
            _ => {}
        }
        maxlen = maxlen.max(e.path.len());
        let common = prev.iter().zip(e.path.iter()).take_while(|(a, b)| a == b).count();
        max_strip = max_strip.max(prev.len() - common);
        prev = &e.path;
    }
    let len_class = match maxlen {
        0..=127 => 0,
        128..=4094 => 1,
        _ => 2,
    };
    let n_class = match m.entries.len() {
        0 => 0,
        1..=9 => 1,
        10..=99 => 2,
        100..=999 => 3,
        _ => 4,
    };
    let blocks = m.ieot.as_ref().map(|b| b.len()).unwrap_or(0);
    let exts: Vec<&str> = m.ext_order.iter().map(|s| s.as_str()).collect();
    ctx.distinct((m.version, exts.join(","), blocks.min(17), flagclass, len_class, n_class, m.version == 4 && max_strip >= 128));
    for e in &m.ext_order {
        ctx.count(&format!("ext_{e}"));
    }
    ctx.count(&format!("version_{}", m.version));
    if blocks > 0 {
        ctx.count("with_ieot");
    }
    if len_class == 2 {
        ctx.count("with_path_ge_4095");
    }
    if m.version == 4 && max_strip >= 128 {
        ctx.count("v4_strip_len_multibyte_varint");
    }
    for (bit, name) in [(1, "conflict"), (2, "assume_valid"), (4, "intent_to_add"), (8, "skip_worktree"), (16, "sparse_dir")] {
        if flagclass & bit != 0 {
            ctx.count(&format!("with_{name}"));
        }
    }
    if let Some(u) = &m.untr {
        if !u.dirs.is_empty() {
            ctx.count("untr_with_directories");
        }
    }
    let witness = json!({
        "config": s.cfg, "steps": s.steps, "snapshot": label,
        "index_len": data.len(), "index_sha1": crate::fw::sha1_hex(&data),
        "index_hex": if data.len() <= 6000 { Value::String(hex(&data)) } else { Value::Null },
        "version": m.version, "entries": m.entries.len(), "extensions": m.ext_order,
    });
    let agreed = check_gitoxide(ctx, &data, &file, &m, &witness, m.link.is_none());
    if ctx.want_sample() {
        ctx.sample(json!({
            "snapshot": label, "version": m.version, "entries": m.entries.len(), "extensions": m.ext_order,
            "ieot_blocks": blocks, "max_path_len": maxlen, "flag_classes": flagclass, "decodes_agreeing": agreed,
            "first_path": m.entries.first().map(|e| show(&e.path[..e.path.len().min(60)])),
        }));
    }
    s.last = Some(m);
}

fn index_info_line(out: &mut Vec<u8>, mode: u32, id: &[u8; 20], stage: u32, path: &[u8]) {
    if mode == 0 {
        out.extend_from_slice(format!("0 {}\t", hex(&[0u8; 20])).as_bytes());
    } else {
        out.extend_from_slice(format!("{:o} {} {}\t", mode, hex(id), stage).as_bytes());
    }
    out.extend_from_slice(path);
    out.push(0);
}

fn scenario(ctx: &mut Ctx, r: &mut Rng) {
    let dir = ctx.dir("s");
    let max_files = if ctx.quick() { 200 } else { 1200 };
    build_scenario(ctx, r, dir, max_files, true);
}

/// Build a repository and drive git through random index-changing steps. With `observe` every intermediate
/// index is checked (C24); without, the final index is left for the caller (C25).
pub(crate) fn build_scenario(ctx: &mut Ctx, r: &mut Rng, dir: PathBuf, max_files: usize, observe: bool) -> Option<Scn> {
    build_scenario_scripted(ctx, r, dir, max_files, observe, &[])
}

/// `script`: steps forced in this order before the random ones (the "tour" visits every extension in one small repository)
pub(crate) fn build_scenario_scripted(ctx: &mut Ctx, r: &mut Rng, dir: PathBuf, max_files: usize, observe: bool, script: &[u64]) -> Option<Scn> {
    let mut s = new_repo(ctx, r, dir)?;
    s.observe = observe;
    let tour = !script.is_empty();
    let n = match r.below(10) {
        _ if tour => 6 + r.usize(20),
        0 => 1 + r.usize(3),
        1..=6 => 2 + r.usize(60),
        7..=8 => 50 + r.usize(max_files),
        _ => max_files + r.usize(max_files * 2),
    };
    let mut files = gen_paths(r, &s.pg, n, 3800, b"");
    if tour {
        s.git(ctx, "config", &["config", "core.untrackedCache", "true"]);
        let t = *r.pick(&["2", "3", "5"]);
        s.git(ctx, "config", &["config", "index.threads", t]);
        files.extend(gen_paths(r, &s.pg, 3, 300, b"dirA"));
        files.extend(gen_paths(r, &s.pg, 3, 300, b"dirB"));
    }
    for f in &files {
        if let Err(e) = write_file(&s.dir, f, r) {
            ctx.inconclusive(&format!("cannot create worktree file: {e}"));
            return None;
        }
    }
    s.files = files;
    s.steps.push(format!("create {} files", s.files.len()));
    s.git(ctx, "add", &["add", "-A"]);
    check_index(ctx, &mut s, "add");
    let n_steps = if tour { script.len() } else { 2 + r.usize(7) };
    for k in 0..n_steps {
        if !ctx.time_left() {
            break;
        }
        let mut step = r.below(16);
        if s.committed && !s.sparse && !s.unmerged() && r.chance(1, 4) {
            step = 14;
        }
        if s.unmerged() && r.chance(1, 2) {
            step = 8;
        }
        if tour {
            step = script[k];
        }
        let label = match step {
            15 => {
                if s.unmerged() {
                    continue;
                }
                s.git(ctx, "commit", &["commit", "-q", "-m", "c"]);
                s.committed = true;
                "commit"
            }
            0 => {
                if s.unmerged() {
                    continue;
                }
                s.git(ctx, "commit", &["commit", "-q", "-m", "c"]);
                s.committed = true;
                "commit"
            }
            1 => {
                if !s.committed || s.sparse {
                    continue;
                }
                s.git(ctx, "read-tree", &["read-tree", "HEAD"]);
                if r.bool() {
                    s.git(ctx, "refresh", &["update-index", "-q", "--refresh"]);
                }
                "read-tree"
            }
            2 => {
                // intent-to-add
                let cnt = 1 + r.usize(3);
                let extra = gen_paths(r, &s.pg, cnt, 3000, format!("ita{k}").as_bytes());
                let mut args: Vec<String> = vec!["add".into(), "-N".into(), "--".into()];
                for f in &extra {
                    if write_file(&s.dir, f, r).is_ok() {
                        match std::str::from_utf8(f) {
                            Ok(t) => args.push(t.to_string()),
                            Err(_) => {}
                        }
                    }
                }
                if args.len() == 3 || s.sparse {
                    continue;
                }
                let a: Vec<&str> = args.iter().map(|x| x.as_str()).collect();
                s.git(ctx, "ita", &a);
                "intent-to-add"
            }
            3 | 4 => {
                // skip-worktree / assume-unchanged on random stage-0 entries
                let paths: Vec<Vec<u8>> = s
                    .last
                    .as_ref()
                    .map(|m| m.entries.iter().filter(|e| e.stage() == 0 && e.mode != 0o040000).map(|e| e.path.clone()).collect())
                    .unwrap_or_default();
                if paths.is_empty() {
                    continue;
                }
                let flag = *r.pick(&["--skip-worktree", "--assume-unchanged", "--no-skip-worktree", "--no-assume-unchanged"]);
                let mut input = Vec::new();
                for _ in 0..1 + r.usize(paths.len().min(20)) {
                    let p: &Vec<u8> = r.pick(&paths);
                    input.extend_from_slice(p);
                    input.push(0);
                }
                s.git_in(ctx, "flag", &["update-index", flag, "-z", "--stdin"], &input);
                if flag == "--skip-worktree" {
                    "skip-worktree"
                } else {
                    "flag-change"
                }
            }
            5 | 6 => {
                // entries without worktree files: modes, gitlinks, long paths
                if s.sparse {
                    continue;
                }
                let blobs = s.blob_ids();
                s.virt_counter += 1;
                let prefix = format!("virt{}", s.virt_counter);
                let mut input = Vec::new();
                let long = r.chance(1, 3);
                let very_long_ok = r.chance(1, 3);
                let cnt = 1 + r.usize(12);
                let mut paths = gen_paths(r, &s.pg, cnt, if long { 4600 } else { 300 }, prefix.as_bytes());
                if long {
                    // paths right at the 0xfff name-length saturation point
                    for target in [4094usize, 4095, 4096, 4097 + r.usize(600)] {
                        if !very_long_ok && target >= 4095 {
                            continue;
                        }
                        let mut p = format!("{prefix}/L{target}/").into_bytes();
                        while p.len() < target {
                            let room = target - p.len();
                            if room > 200 {
                                p.extend(r.bytes_from(199, SIMPLE));
                                p.push(b'/');
                            } else {
                                p.extend(r.bytes_from(room, SIMPLE));
                            }
                        }
                        paths.push(p);
                    }
                }
                for p in &paths {
                    let mode = *r.pick(&[0o100644u32, 0o100644, 0o100755, 0o120000, 0o160000]);
                    let id = if mode == 0o160000 || blobs.is_empty() {
                        let mut b = [0u8; 20];
                        b.copy_from_slice(&r.bytes(20));
                        b
                    } else {
                        *r.pick(&blobs)
                    };
                    let mode = if blobs.is_empty() { 0o160000 } else { mode };
                    index_info_line(&mut input, mode, &id, 0, p);
                }
                s.git_in(ctx, "index-info", &["update-index", "-z", "--index-info"], &input);
                "index-info"
            }
            7 => {
                // conflicts: stages 1..3 for existing or new paths
                if s.sparse {
                    continue;
                }
                let blobs = s.blob_ids();
                if blobs.is_empty() {
                    continue;
                }
                let existing: Vec<Vec<u8>> = s
                    .last
                    .as_ref()
                    .map(|m| m.entries.iter().filter(|e| e.stage() == 0).map(|e| e.path.clone()).collect())
                    .unwrap_or_default();
                let mut input = Vec::new();
                for _ in 0..1 + r.usize(5) {
                    let p = if !existing.is_empty() && r.chance(2, 3) {
                        r.pick(&existing).clone()
                    } else {
                        s.virt_counter += 1;
                        {
                            let l = 1 + r.usize(9);
                            format!("conflict{}/{}", s.virt_counter, String::from_utf8_lossy(&r.bytes_from(l, SIMPLE))).into_bytes()
                        }
                    };
                    index_info_line(&mut input, 0, &[0; 20], 0, &p);
                    let stages = 1 + r.below(7) as u32; // non-empty subset of {1,2,3}
                    for st in 1..=3u32 {
                        if stages >> (st - 1) & 1 == 1 {
                            let mode = *r.pick(&[0o100644u32, 0o100755, 0o120000]);
                            index_info_line(&mut input, mode, r.pick(&blobs), st, &p);
                        }
                    }
                }
                s.git_in(ctx, "conflict", &["update-index", "-z", "--index-info"], &input);
                "conflict"
            }
            8 => {
                // resolve conflicts -> resolve-undo
                let conflicted: BTreeSet<Vec<u8>> = s
                    .last
                    .as_ref()
                    .map(|m| m.entries.iter().filter(|e| e.stage() != 0).map(|e| e.path.clone()).collect())
                    .unwrap_or_default();
                let blobs = s.blob_ids();
                if conflicted.is_empty() {
                    continue;
                }
                let all: Vec<Vec<u8>> = conflicted.into_iter().collect();
                let mut input = Vec::new();
                for p in &all {
                    if tour || r.chance(2, 3) {
                        if r.bool() || blobs.is_empty() {
                            index_info_line(&mut input, 0, &[0; 20], 0, p);
                        } else {
                            index_info_line(&mut input, 0o100644, r.pick(&blobs), 0, p);
                        }
                    }
                }
                if input.is_empty() {
                    continue;
                }
                s.git_in(ctx, "resolve", &["update-index", "-z", "--index-info"], &input);
                "resolve"
            }
            9 | 10 => {
                // untracked files + status (fills the untracked cache when enabled)
                for j in 0..1 + r.usize(4) {
                    let d = format!("untracked{k}_{j}");
                    let cnt = 1 + r.usize(4);
                    let extra = gen_paths(r, &s.pg, cnt, 1000, d.as_bytes());
                    for f in &extra {
                        let _ = write_file(&s.dir, f, r);
                    }
                }
                if r.chance(1, 3) {
                    let _ = std::fs::write(s.dir.join(".gitignore"), b"*.ign\nuntracked0_0/\n");
                }
                s.git(ctx, "status", &["status", "--porcelain", "-uall"]);
                if r.bool() {
                    s.git(ctx, "status", &["status", "--porcelain"]);
                }
                "status"
            }
            11 => {
                // modify + add / remove some tracked files (partial TREE invalidation)
                if s.files.is_empty() || s.sparse {
                    continue;
                }
                let mut input = Vec::new();
                for _ in 0..1 + r.usize(4) {
                    let f = r.pick(&s.files).clone();
                    if r.bool() {
                        let _ = std::fs::remove_file(s.dir.join(os(&f)));
                        let _ = write_file(&s.dir, &f, r);
                    } else {
                        let _ = std::fs::remove_file(s.dir.join(os(&f)));
                    }
                    input.extend_from_slice(&f);
                    input.push(0);
                }
                s.git_in(ctx, "update", &["update-index", "--add", "--remove", "-z", "--stdin"], &input);
                "update"
            }
            12 => {
                let v = *r.pick(&["2", "3", "4"]);
                s.git(ctx, "index-version", &["update-index", "--index-version", v]);
                "index-version"
            }
            13 => {
                let t = *r.pick(&["1", "2", "3", "4", "6", "8", "16", "40", "true"]);
                s.git(ctx, "config", &["config", "index.threads", t]);
                if r.chance(1, 4) {
                    let v = if r.bool() { "true" } else { "false" };
                    s.git(ctx, "config", &["config", "index.recordOffsetTable", v]);
                }
                s.git(ctx, "force-write", &["update-index", "--force-write-index"]);
                "threads"
            }
            _ => {
                // sparse index (cone mode) — needs a commit and a clean, merged index
                if !s.committed || s.unmerged() || s.sparse {
                    continue;
                }
                let mut tops: BTreeSet<String> = BTreeSet::new();
                for f in &s.files {
                    if let Some(pos) = f.iter().position(|b| *b == b'/') {
                        if let Ok(t) = std::str::from_utf8(&f[..pos]) {
                            if !t.contains(|c: char| c.is_control() || "*?[]\\!# \"".contains(c)) {
                                tops.insert(t.to_string());
                            }
                        }
                    }
                }
                let tops: Vec<String> = tops.into_iter().collect();
                if tops.len() < 2 {
                    continue;
                }
                s.git(ctx, "reset", &["reset", "-q", "--hard"]);
                let keep = r.pick(&tops).clone();
                if s.git(ctx, "sparse", &["sparse-checkout", "set", "--cone", "--sparse-index", &keep]) {
                    s.sparse = true;
                }
                "sparse-index"
            }
        };
        check_index(ctx, &mut s, label);
    }
    // beyond the quantifier ("split-index off"): a split index is decoded with from_bytes only, compared
    // with the independent reader (link extension, raw entries)
    if observe && (r.chance(1, 6) || tour) && !s.sparse && ctx.time_left() {
        s.git(ctx, "config", &["config", "core.splitIndex", "true"]);
        if s.git(ctx, "split", &["update-index", "--split-index"]) {
            s.split = true;
            check_index(ctx, &mut s, "split-index-fresh");
            if !s.files.is_empty() {
                let f = r.pick(&s.files).clone();
                let _ = std::fs::remove_file(s.dir.join(os(&f)));
                let _ = write_file(&s.dir, &f, r);
                let mut input = f.clone();
                input.push(0);
                s.git_in(ctx, "update", &["update-index", "--add", "--remove", "-z", "--stdin"], &input);
            }
            check_index(ctx, &mut s, "split-index");
        }
    }
    Some(s)
}

/// Directed case: a small index of every version holding paths right at the 0xfff name-length saturation point.
fn boundary(ctx: &mut Ctx, r: &mut Rng) {
    let dir = ctx.dir("s");
    let mut s = match new_repo(ctx, r, dir) {
        Some(s) => s,
        None => return,
    };
    let nf = 2 + r.usize(6);
    let files = gen_paths(r, &s.pg, nf, 300, b"");
    for f in &files {
        let _ = write_file(&s.dir, f, r);
    }
    s.files = files;
    s.git(ctx, "add", &["add", "-A"]);
    check_index(ctx, &mut s, "add");
    let blobs = s.blob_ids();
    for version in ["2", "3", "4"] {
        let mut input = Vec::new();
        for target in [4093usize, 4094, 4095, 4096, 4097, 4100 + r.usize(900)] {
            let mut p = format!("b{version}/L{target}/").into_bytes();
            while p.len() < target {
                let room = target - p.len();
                if room > 200 {
                    p.extend(r.bytes_from(199, SIMPLE));
                    p.push(b'/');
                } else {
                    p.extend(r.bytes_from(room, SIMPLE));
                }
            }
            let id = if blobs.is_empty() { [0x11u8; 20] } else { *r.pick(&blobs) };
            index_info_line(&mut input, if blobs.is_empty() { 0o160000 } else { 0o100644 }, &id, 0, &p);
            if target == 4094 && version != "2" {
                // below the boundary in the versions where an index can stay decodable: check separately
                s.git_in(ctx, "index-info", &["update-index", "-z", "--index-info"], &input);
                s.git(ctx, "index-version", &["update-index", "--index-version", version]);
                check_index(ctx, &mut s, "just-below-0xfff");
                input.clear();
            }
        }
        s.git_in(ctx, "index-info", &["update-index", "-z", "--index-info"], &input);
        s.git(ctx, "index-version", &["update-index", "--index-version", version]);
        if version == "3" {
            // keep version 3 from being demoted to 2: needs an extended flag
            let mut one = s.files.first().cloned().unwrap_or_default();
            one.push(0);
            s.git_in(ctx, "flag", &["update-index", "--skip-worktree", "-z", "--stdin"], &one);
        }
        check_index(ctx, &mut s, "at-and-above-0xfff");
    }
}

pub fn run(ctx: &mut Ctx) {
    ctx.rule(
        "case = one scenario: a fresh repository (index.version 2/3/4, index.threads unset/1/2..33/true, core.untrackedCache, \
         recordOffsetTable/recordEndOfIndexEntries overrides, feature.manyFiles) whose worktree gets 1..3600 random files \
         (shared long prefixes, nasty bytes, symlinks, executables, chown'ed, mtimes at u32 boundaries), then 2..8 random git steps \
         (commit, read-tree, add -N, skip-worktree/assume-unchanged, index-info entries incl. gitlinks and paths of 4094..4700 bytes, \
         stage 1-3 conflicts, conflict resolution (REUC), status with untracked files (UNTR), update/remove, index-version switch, \
         index.threads switch, cone sparse-index); after every step the index file is observed by git ls-files --debug, the independent \
         reader and gitoxide with thread limits 1,2,3,4,8,16 x {extensions inline, own thread} plus File::at. \
         distinct = (version, extension list in file order, IEOT block count, flag/mode classes present, path-length class, entry-count \
         class, multi-byte v4 strip length)",
    );
    ctx.assume("git 2.39.5 writes well-formed index files; `git ls-files --stage --debug` prints what git stored");
    ctx.note("untracked_cache_scope", json!("UntrackedCache has only private fields and no accessors in gix-index; presence is the only observable and the only thing compared"));
    ctx.cases("boundary", 1, |ctx, r| boundary(ctx, r));
    // tours: a small repository driven through a fixed step list so that every run reaches every extension:
    // commit, conflict, resolve, status, intent-to-add, flags, index-version, index-info, threads, split index / commit, flags, sparse index, status, index-version, threads
    ctx.cases("tour-split", 1, |ctx, r| {
        let dir = ctx.dir("s");
        build_scenario_scripted(ctx, r, dir, 30, true, &[15, 7, 8, 9, 2, 3, 12, 5, 13]);
    });
    ctx.cases("tour-sparse", 1, |ctx, r| {
        let dir = ctx.dir("s");
        build_scenario_scripted(ctx, r, dir, 30, true, &[15, 3, 14, 9, 12, 13]);
    });
    let n = ctx.n(45, 1500);
    ctx.cases("scenario", n, |ctx, r| scenario(ctx, r));
}
