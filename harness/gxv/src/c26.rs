//! C26 Config files round-trip losslessly.
//! Oracle S (self-consistency): (1) for every byte string the event parser accepts, the concatenation of
//! `Event::write_to` over all events equals the input; (2) `File::from_bytes_no_includes(b).to_bstring()` parses
//! again and yields the same (section, subsection, key, raw value) sequence - judged by an independent projection
//! of the parse events and by the `File` API.
//! The grammar-based generator `gen_config` is shared with C27 and C28.
use crate::fw::{gen, guard, show, Ctx, Rng};
use bstr::ByteSlice;
use gix_config::parse::{Event, Events};
use serde_json::json;

pub fn child(_mode: &str) {}

// ------------------------------------------------------------------ generator (shared with c27/c28)

#[derive(Clone, Debug)]
pub struct GenOpts {
    /// only constructs `git config` 2.39 accepts and reads the same way newer gits do
    /// (no unquoted interior TAB/CR in values, no `\b`, no NUL/FF/VT, no `k v` lines)
    pub git_safe: bool,
    /// bias values towards booleans / integers / paths
    pub typed: bool,
    pub max_sections: u64,
    pub max_lines: u64,
}

pub struct GenOut {
    pub bytes: Vec<u8>,
    /// bitset over `FEATS`
    pub feats: u64,
    /// 0 = LF, 1 = CRLF, 2 = mixed
    pub eol: u8,
}

pub const FEATS: &[&str] = &[
    "bom",
    "front-comment",
    "front-blank",
    "header-plain",
    "header-legacy",
    "header-legacy-multidot",
    "header-quoted",
    "sub-escaped-quote",
    "sub-escaped-backslash",
    "sub-needless-escape",
    "sub-empty",
    "header-line-shared",
    "key-implicit",
    "key-implicit-trailing-ws",
    "kv-tight",
    "value-empty",
    "value-bare",
    "value-quoted",
    "value-escape",
    "value-escape-b",
    "value-continuation",
    "continuation-indent",
    "continuation-leading",
    "inline-comment",
    "comment-char-in-quotes",
    "trailing-ws",
    "interior-tab",
    "comment-line",
    "blank-line",
    "no-final-newline",
    "typed-bool",
    "typed-int",
    "typed-path",
    "non-ascii",
    "odd-line",
    "empty-section",
    "upper-case-names",
];

fn feat(name: &str) -> u64 {
    1u64 << FEATS.iter().position(|f| *f == name).expect("known feature")
}

pub fn feat_names(bits: u64) -> Vec<&'static str> {
    FEATS.iter().enumerate().filter(|(i, _)| bits & (1 << i) != 0).map(|(_, n)| *n).collect()
}

pub const SECTION_NAMES: &[&str] = &["a", "core", "Core", "remote", "b-c", "x1", "A", "9z", "-d", "remote"];
pub const LEGACY_SUBS: &[&str] = &["sub", "s-1", "origin", "Sub", "x.y", "", "o2"];
pub const QUOTED_SUBS: &[&str] = &["origin", "Origin", "o r", "a.b", "", "sub", "ü", "x]y", "#;=", "s-1"];
pub const KEYS: &[&str] = &["k", "key", "Key", "a-b", "x2", "url", "path", "flag", "n", "K"];
pub const BOOLS: &[&str] = &["true", "yes", "on", "1", "false", "no", "off", "0", "TRUE", "Yes", "oN", "2", "-1", "tru", "yess", "00"];
pub const INTS: &[&str] = &[
    "0", "1", "-1", "42", "10k", "1M", "2g", "3K", "1G", "-2k", "9223372036854775807", "9223372036854775808",
    "-9223372036854775808", "8589934591g", "8589934592g", "9007199254740992k", "010", "0x10", "+5", "1kb", "k", "1 k", "-",
    "12abc", "1.5", "1_000", "0k", "0xfg", "007", "4294967296", "2147483648", "- 1", "1t",
];
pub const PATHS: &[&str] = &[
    "~/x", "~/", "~", "~root/x", "~root", "~nouser-gxv/x", "/abs/p", "rel/p", "~//x", "~/a b", "./x", "../y", "~x", "a~/b", "~/ü",
];

struct G<'a> {
    r: &'a mut Rng,
    o: &'a GenOpts,
    out: Vec<u8>,
    feats: u64,
    eol_mode: u8,
    crlf_used: bool,
    lf_used: bool,
}

impl G<'_> {
    fn f(&mut self, name: &str) {
        self.feats |= feat(name);
    }
    fn nl(&mut self) {
        let crlf = match self.eol_mode {
            0 => false,
            1 => true,
            _ => self.r.bool(),
        };
        if crlf {
            self.crlf_used = true;
            self.out.extend_from_slice(b"\r\n");
        } else {
            self.lf_used = true;
            self.out.push(b'\n');
        }
    }
    /// 0..=max blanks (space or tab)
    fn ws(&mut self, max: u64) -> usize {
        let n = self.r.below(max + 1) as usize;
        for _ in 0..n {
            let c = if self.r.chance(1, 3) { b'\t' } else { b' ' };
            self.out.push(c);
        }
        n
    }
    fn comment(&mut self) {
        let tag = if self.r.bool() { b'#' } else { b';' };
        self.out.push(tag);
        let text: &[u8] = *self.r.pick(&[
            &b""[..],
            b" a comment",
            b" ",
            b"[not-a-section]",
            b" k = v",
            b" \"quote",
            b" back\\slash\\",
            b"#;#",
            b"\t tab",
            b" \xc3\xbc",
        ]);
        self.out.extend_from_slice(text);
    }
    fn frontmatter(&mut self) {
        let n = self.r.below(4);
        for _ in 0..n {
            self.misc_line(true);
        }
    }
    fn misc_line(&mut self, front: bool) {
        if self.r.bool() {
            self.ws(2);
            self.comment();
            self.f(if front { "front-comment" } else { "comment-line" });
        } else {
            self.ws(2);
            self.f(if front { "front-blank" } else { "blank-line" });
        }
        self.nl();
    }
    fn word(&mut self) -> Vec<u8> {
        const WORDS: &[&str] = &[
            "x", "value", "v1", "a=b", "/p/q", "http://h/x.git", "a,b", "1", "-", "+refs/heads/*:refs/remotes/o/*", "[x]", "a'b", "ü", "{}", "!", "%(prefix)/x",
            "C:/w", "x.y", "$HOME", "a@b", "*", "?", "e",
        ];
        let w = *self.r.pick(WORDS);
        if !w.is_ascii() {
            self.f("non-ascii");
        }
        w.as_bytes().to_vec()
    }
    fn escape(&mut self) {
        let safe = self.o.git_safe;
        let c = loop {
            let c = *self.r.pick(b"nt\\\"b");
            if c == b'b' && safe {
                continue;
            }
            break c;
        };
        self.f(if c == b'b' { "value-escape-b" } else { "value-escape" });
        self.out.push(b'\\');
        self.out.push(c);
    }
    fn continuation(&mut self) {
        self.f("value-continuation");
        self.out.push(b'\\');
        self.nl();
        let n = if self.r.bool() { self.ws_safe(3) } else { 0 };
        if n > 0 {
            self.f("continuation-indent");
        }
    }
    /// blanks inside or next to a value: only spaces in git-safe mode (git 2.39 rewrites unquoted TABs to spaces)
    fn ws_safe(&mut self, max: u64) -> usize {
        let n = self.r.below(max + 1) as usize;
        for _ in 0..n {
            let c = if !self.o.git_safe && self.r.chance(1, 3) {
                self.feats |= feat("interior-tab");
                b'\t'
            } else {
                b' '
            };
            self.out.push(c);
        }
        n
    }
    fn quoted(&mut self) {
        self.f("value-quoted");
        self.out.push(b'"');
        let n = self.r.below(4);
        for i in 0..n {
            if i > 0 || self.r.chance(1, 3) {
                // inside quotes any blank is literal for git as well
                let k = 1 + self.r.below(2);
                for _ in 0..k {
                    let c = if self.r.chance(1, 4) { b'\t' } else { b' ' };
                    self.out.push(c);
                }
            }
            match self.r.below(8) {
                0 => {
                    self.f("comment-char-in-quotes");
                    let c = *self.r.pick(b";#");
                    self.out.push(c);
                }
                1 => self.escape(),
                2 => {
                    if self.r.chance(1, 2) {
                        self.continuation()
                    } else {
                        let w = self.word();
                        self.out.extend_from_slice(&w);
                    }
                }
                _ => {
                    let w = self.word();
                    self.out.extend_from_slice(&w);
                }
            }
        }
        if self.r.chance(1, 4) {
            self.out.push(b' ');
        }
        self.out.push(b'"');
    }
    fn typed_value(&mut self) {
        let (pool, name) = match self.r.below(3) {
            0 => (BOOLS, "typed-bool"),
            1 => (INTS, "typed-int"),
            _ => (PATHS, "typed-path"),
        };
        self.f(name);
        let v = *self.r.pick(pool);
        if !v.is_ascii() {
            self.f("non-ascii");
        }
        let quote = self.r.chance(1, 6);
        if quote {
            self.f("value-quoted");
            self.out.push(b'"');
        }
        self.out.extend_from_slice(v.as_bytes());
        if quote {
            self.out.push(b'"');
        }
    }
    fn value(&mut self) {
        let typed_odds = if self.o.typed { 2 } else { 8 };
        if self.r.chance(1, typed_odds) {
            self.typed_value();
            return;
        }
        if self.r.chance(1, 8) {
            self.f("value-empty");
            if self.r.chance(1, 3) {
                self.f("value-quoted");
                self.out.extend_from_slice(b"\"\"");
            }
            return;
        }
        let pieces = 1 + self.r.below(4);
        if self.r.chance(1, 10) {
            // continuation right after `=`: the value starts on the next line
            self.f("continuation-leading");
            self.continuation();
        }
        for i in 0..pieces {
            if i > 0 {
                match self.r.below(6) {
                    0 => {}
                    1 => self.continuation(),
                    2 => {
                        self.ws_safe(2);
                        self.continuation();
                    }
                    _ => {
                        self.out.push(b' ');
                        self.ws_safe(2);
                    }
                }
            }
            match self.r.below(7) {
                0 | 1 => self.quoted(),
                2 => self.escape(),
                _ => {
                    self.f("value-bare");
                    let w = self.word();
                    self.out.extend_from_slice(&w);
                }
            }
        }
        if !self.o.git_safe && self.r.chance(1, 12) {
            // unquoted interior control characters git 2.39 folds into a space
            self.f("interior-tab");
            let c = *self.r.pick(&[&b"\tz"[..], b"\rz", b"\x0cz", b"\x0bz"]);
            self.out.extend_from_slice(c);
        }
    }
    fn kv(&mut self) {
        let key = *self.r.pick(KEYS);
        if key.bytes().any(|c| c.is_ascii_uppercase()) {
            self.f("upper-case-names");
        }
        self.out.extend_from_slice(key.as_bytes());
        match self.r.below(10) {
            0 => {
                self.f("key-implicit");
                if self.r.chance(1, 3) && self.ws(2) > 0 {
                    self.f("key-implicit-trailing-ws");
                }
                // no inline comment here: git rejects `key ;comment`
                return;
            }
            1 => {
                self.f("kv-tight");
                self.out.push(b'=');
            }
            _ => {
                self.ws(2);
                self.out.push(b'=');
                self.ws(2);
            }
        }
        self.value();
        if self.r.chance(1, 4) && self.ws(3) > 0 {
            self.f("trailing-ws");
        }
        if self.r.chance(1, 5) {
            self.f("inline-comment");
            self.comment();
        }
    }
    fn odd_line(&mut self) {
        // things git rejects or reads differently; only for the self-consistency monitor
        self.f("odd-line");
        let s: &[u8] = *self.r.pick(&[
            &b"k v"[..],
            b"k ; c",
            b"k = a\\bc",
            b"k = x\x0c",
            b"k = x \r y",
            b"k = \"a\\\nb\"",
            b"k=v [s]",
            b"k = v\\\n\\\n\\\nw",
            b"k = \\\n",
            b"k = a\\\n  \n",
            b"a b c",
            b"k\t=\t\"\"\t\"\"",
        ]);
        self.out.extend_from_slice(s);
    }
    fn header(&mut self) {
        let name = *self.r.pick(SECTION_NAMES);
        if name.bytes().any(|c| c.is_ascii_uppercase()) {
            self.f("upper-case-names");
        }
        self.out.push(b'[');
        self.out.extend_from_slice(name.as_bytes());
        match self.r.below(5) {
            0 | 1 => self.f("header-plain"),
            2 => {
                let sub = *self.r.pick(LEGACY_SUBS);
                self.f("header-legacy");
                if sub.contains('.') {
                    self.f("header-legacy-multidot");
                }
                if sub.is_empty() {
                    self.f("sub-empty");
                }
                if sub.bytes().any(|c| c.is_ascii_uppercase()) {
                    self.f("upper-case-names");
                }
                self.out.push(b'.');
                self.out.extend_from_slice(sub.as_bytes());
            }
            _ => {
                self.f("header-quoted");
                let n = 1 + self.r.below(2);
                for _ in 0..n {
                    let c = if self.r.chance(1, 4) { b'\t' } else { b' ' };
                    self.out.push(c);
                }
                self.out.push(b'"');
                let sub = *self.r.pick(QUOTED_SUBS);
                if sub.is_empty() {
                    self.f("sub-empty");
                }
                if !sub.is_ascii() {
                    self.f("non-ascii");
                }
                self.out.extend_from_slice(sub.as_bytes());
                match self.r.below(8) {
                    0 => {
                        self.f("sub-escaped-quote");
                        self.out.extend_from_slice(b"\\\"q");
                    }
                    1 => {
                        self.f("sub-escaped-backslash");
                        self.out.extend_from_slice(b"\\\\b");
                    }
                    2 => {
                        self.f("sub-needless-escape");
                        self.out.extend_from_slice(b"\\t");
                    }
                    _ => {}
                }
                self.out.push(b'"');
            }
        }
        self.out.push(b']');
    }
    fn section(&mut self) {
        self.ws(1);
        self.header();
        let lines = self.r.below(self.o.max_lines + 1);
        match self.r.below(8) {
            0 => {
                self.f("header-line-shared");
                self.ws(1);
                self.kv();
            }
            1 => {
                self.f("header-line-shared");
                self.ws(2);
                self.comment();
            }
            2 => {
                self.ws(2);
            }
            _ => {}
        }
        self.nl();
        if lines == 0 {
            self.f("empty-section");
        }
        for _ in 0..lines {
            match self.r.below(10) {
                0 => self.misc_line(false),
                1 if !self.o.git_safe => {
                    self.ws(1);
                    self.odd_line();
                    self.nl();
                }
                _ => {
                    self.ws(2);
                    self.kv();
                    self.nl();
                }
            }
        }
    }
}

/// Grammar-based config text. Everything is derived from `r`.
pub fn gen_config(r: &mut Rng, o: &GenOpts) -> GenOut {
    let eol_mode = match r.below(6) {
        0 | 1 => 1,
        2 => 2,
        _ => 0,
    };
    let mut g = G { r, o, out: Vec::new(), feats: 0, eol_mode, crlf_used: false, lf_used: false };
    if g.r.chance(1, 10) {
        g.f("bom");
        g.out.extend_from_slice(b"\xef\xbb\xbf");
    }
    g.frontmatter();
    let sections = if g.r.chance(1, 20) { 0 } else { 1 + g.r.below(g.o.max_sections) };
    for _ in 0..sections {
        g.section();
    }
    if g.r.chance(1, 6) {
        g.f("no-final-newline");
        while matches!(g.out.last(), Some(b'\n' | b'\r')) {
            g.out.pop();
        }
    }
    let eol = match (g.crlf_used, g.lf_used) {
        (true, true) => 2,
        (true, false) => 1,
        _ => 0,
    };
    GenOut { bytes: g.out, feats: g.feats, eol }
}

// ------------------------------------------------------------------ projection of events

/// (section name, subsection, [(key, implicit, raw value text, continuation lines joined by backslash-LF)])
pub type Proj = Vec<(Vec<u8>, Option<Vec<u8>>, Vec<(Vec<u8>, bool, Vec<u8>)>)>;

/// Independent reading of the event stream: which keys with which raw value text live in which section.
pub fn project(ev: &Events<'_>) -> Proj {
    let mut out = Vec::new();
    for s in &ev.sections {
        let mut kvs: Vec<(Vec<u8>, bool, Vec<u8>)> = Vec::new();
        let mut saw_sep = false;
        let mut open = false;
        for e in &s.events {
            match e {
                Event::SectionValueName(k) => {
                    kvs.push((k.as_ref().as_bytes().to_vec(), true, Vec::new()));
                    saw_sep = false;
                    open = true;
                }
                Event::KeyValueSeparator => saw_sep = true,
                Event::Value(v) | Event::ValueDone(v) => {
                    if let Some(last) = kvs.last_mut() {
                        if open {
                            last.2.extend_from_slice(v.as_ref());
                            last.1 = !saw_sep;
                        }
                    }
                    open = false;
                }
                Event::ValueNotDone(v) => {
                    if let Some(last) = kvs.last_mut() {
                        if open {
                            last.2.extend_from_slice(v.as_ref());
                            // marks the continuation (whatever the line ending was)
                            last.2.extend_from_slice(b"\\\n");
                            last.1 = !saw_sep;
                        }
                    }
                }
                _ => {}
            }
        }
        out.push((
            s.header.name().to_vec(),
            s.header.subsection_name().map(|n| n.to_vec()),
            kvs,
        ));
    }
    out
}

fn concat_events(ev: Events<'_>) -> Vec<u8> {
    let mut buf = Vec::new();
    for e in ev.into_iter() {
        e.write_to(&mut buf).expect("vec write");
    }
    buf
}

/// bitset describing what the accepted text contains (taken from the parse, so it is also right for mutated inputs)
fn shape_of(b: &[u8], ev: &Events<'_>) -> u32 {
    let mut s = 0u32;
    let mut bit = |i: u32| s |= 1 << i;
    if b.starts_with(b"\xef\xbb\xbf") {
        bit(0);
    }
    for e in &ev.frontmatter {
        match e {
            Event::Comment(_) => bit(1),
            Event::Newline(_) => bit(2),
            _ => {}
        }
    }
    if ev.sections.len() > 1 {
        bit(3);
    }
    let mut names: Vec<Vec<u8>> = Vec::new();
    for sec in &ev.sections {
        let h = &sec.header;
        if h.is_legacy() {
            bit(4);
        } else if h.subsection_name().is_some() {
            bit(5);
            if h.subsection_name().map_or(false, |n| n.find_byteset(b"\\\"").is_some()) {
                bit(6);
            }
        }
        let lname = h.name().to_ascii_lowercase();
        if names.contains(&lname) {
            bit(7);
        }
        names.push(lname);
        let mut prev_name = false;
        for e in &sec.events {
            match e {
                Event::SectionValueName(_) => {
                    prev_name = true;
                    continue;
                }
                Event::Value(v) | Event::ValueDone(v) => {
                    if prev_name && matches!(e, Event::Value(_)) {
                        bit(8); // implicit
                    }
                    if v.is_empty() {
                        bit(9);
                    }
                    if v.contains(&b'"') {
                        bit(10);
                    }
                    if v.contains(&b'\\') {
                        bit(11);
                    }
                }
                Event::ValueNotDone(v) => {
                    bit(12);
                    if v.contains(&b'"') {
                        bit(10);
                    }
                }
                Event::Comment(_) => bit(13),
                Event::Whitespace(_) => bit(14),
                Event::Newline(n) => {
                    if n.contains(&b'\r') {
                        bit(15);
                    }
                    if n.iter().filter(|c| **c == b'\n').count() > n.iter().filter(|c| **c == b'\r').count() {
                        bit(16);
                    }
                }
                _ => {}
            }
            prev_name = false;
        }
    }
    if !b.ends_with(b"\n") {
        bit(17);
    }
    s
}

fn in_header_at(b: &[u8], off: usize) -> bool {
    let off = off.min(b.len());
    let line_start = b[..off].iter().rposition(|c| *c == b'\n').map_or(0, |p| p + 1);
    let mut inside = false;
    let mut in_q = false;
    let mut skip = false;
    for c in &b[line_start..off] {
        if skip {
            skip = false;
            continue;
        }
        match c {
            b'[' if !inside => inside = true,
            b'"' if inside => in_q = !in_q,
            b'\\' if in_q => skip = true,
            b']' if inside && !in_q => inside = false,
            _ => {}
        }
    }
    inside
}

fn clip(b: &[u8]) -> String {
    let s = show(b);
    if s.len() > 1500 {
        format!("{}…", &s[..s.char_indices().take_while(|(i, _)| *i < 1500).last().map_or(0, |(i, c)| i + c.len_utf8())])
    } else {
        s
    }
}

/// judge one input; returns true if the parser accepted it
fn judge(ctx: &mut Ctx, b: &[u8], origin: &'static str, gen_feats: u64) -> bool {
    let parsed = match guard(|| Events::from_bytes(b, None)) {
        Err(p) => {
            ctx.panic_violation("Events::from_bytes", &p, origin, json!({"input": clip(b)}));
            return false;
        }
        Ok(Err(_)) => {
            ctx.count(if origin == "gen" { "rejected_generated" } else { "rejected_mutated" });
            return false;
        }
        Ok(Ok(ev)) => ev,
    };
    ctx.eval();
    ctx.count(if origin == "gen" { "accepted_generated" } else { "accepted_mutated" });
    let shape = shape_of(b, &parsed);
    ctx.distinct((shape, gen_feats & (feat("sub-needless-escape") | feat("continuation-leading") | feat("header-line-shared") | feat("key-implicit-trailing-ws") | feat("odd-line"))));
    let proj = project(&parsed);
    ctx.count_n("sections_seen", proj.len() as u64);
    ctx.count_n("values_seen", proj.iter().map(|s| s.2.len() as u64).sum());

    // (1) byte-for-byte event round-trip
    let concat = concat_events(parsed.clone());
    if concat != b {
        // a byte-order mark is consumed without leaving an event; report that once and keep judging the remainder
        let skipped = if b.starts_with(b"\xef\xbb\xbf") && !concat.starts_with(b"\xef\xbb\xbf") {
            3
        } else {
            let d = b.len().saturating_sub(concat.len());
            if (1..=4).contains(&d) && b.ends_with(&concat) {
                d
            } else {
                0
            }
        };
        if skipped > 0 {
            ctx.count("bom_inputs");
            ctx.violation(
                "events|bom-dropped",
                "a leading byte-order mark is swallowed by the parser: serialized events lack it",
                json!({"input": clip(b), "serialized": clip(&concat), "dropped_prefix": show(&b[..skipped])}),
            );
        }
        let body = &b[skipped..];
        if concat != body {
            let off = concat.iter().zip(body.iter()).position(|(x, y)| x != y).unwrap_or(concat.len().min(body.len()));
            let class = match (in_header_at(body, off), body.get(off)) {
                (true, Some(b'\\')) => "header-needless-escape",
                (true, _) => "header",
                _ => "body",
            };
            ctx.violation(
                &format!("events|roundtrip|{class}"),
                "concatenated Event::write_to output differs from the parsed input",
                json!({"input": clip(b), "serialized": clip(&concat), "first_difference_at": off + skipped, "origin": origin}),
            );
        }
    }
    // owned parsing must see the same events
    if ctx.evals() % 4 == 0 {
        match guard(|| Events::from_bytes_owned(b, None)) {
            Err(p) => ctx.panic_violation("Events::from_bytes_owned", &p, origin, json!({"input": clip(b)})),
            Ok(Ok(owned)) => {
                ctx.count("owned_compared");
                if concat_events(owned) != concat {
                    ctx.violation("events|owned-differs", "from_bytes_owned serializes differently than from_bytes", json!({"input": clip(b)}));
                }
            }
            Ok(Err(_)) => ctx.violation("events|owned-differs", "from_bytes_owned rejects what from_bytes accepts", json!({"input": clip(b)})),
        }
    }

    // (2) File -> to_bstring -> parse: same sections and values
    let file = match guard(|| gix_config::File::from_bytes_no_includes(b, gix_config::file::Metadata::api(), Default::default())) {
        Err(p) => {
            ctx.panic_violation("File::from_bytes_no_includes", &p, origin, json!({"input": clip(b)}));
            return true;
        }
        Ok(Err(e)) => {
            ctx.violation("file|load-rejects-parsed", "File::from_bytes_no_includes rejects text the event parser accepts", json!({"input": clip(b), "err": e.to_string()}));
            return true;
        }
        Ok(Ok(f)) => f,
    };
    let text = match guard(|| file.to_bstring()) {
        Err(p) => {
            ctx.panic_violation("File::to_bstring", &p, origin, json!({"input": clip(b)}));
            return true;
        }
        Ok(t) => t,
    };
    if text.as_slice() == b {
        ctx.count("file_text_identical");
    } else {
        ctx.count("file_text_changed");
    }
    let re = match guard(|| Events::from_bytes(&text, None)) {
        Err(p) => {
            ctx.panic_violation("Events::from_bytes", &p, "reparse", json!({"input": clip(b), "serialized": clip(&text)}));
            return true;
        }
        Ok(Err(e)) => {
            let at_header = e.remaining_data().first() == Some(&b'[');
            ctx.violation(
                &format!("file|reparse-error|{}", if at_header { "header" } else { "body" }),
                "File::to_bstring() of a loaded file does not parse again",
                json!({"input": clip(b), "serialized": clip(&text), "err": e.to_string()}),
            );
            return true;
        }
        Ok(Ok(ev)) => ev,
    };
    let proj2 = project(&re);
    if proj2 != proj {
        let what = if proj2.len() != proj.len() {
            "section-count"
        } else if proj.iter().zip(&proj2).any(|(a, b)| a.0 != b.0 || a.1 != b.1) {
            "header"
        } else if proj.iter().zip(&proj2).any(|(a, b)| a.2.len() != b.2.len() || a.2.iter().zip(&b.2).any(|(x, y)| x.0 != y.0)) {
            "keys"
        } else {
            "values"
        };
        ctx.violation(
            &format!("file|reparse-differs|{what}"),
            "File::to_bstring() parses back to different sections/keys/values",
            json!({"input": clip(b), "serialized": clip(&text), "origin": origin}),
        );
        return true;
    }
    // the same through the File API (normalized values, lookups per section)
    match guard(|| gix_config::File::from_bytes_no_includes(&text, gix_config::file::Metadata::api(), Default::default())) {
        Err(p) => ctx.panic_violation("File::from_bytes_no_includes", &p, "reparse", json!({"input": clip(b)})),
        Ok(Err(e)) => ctx.violation("file|load-rejects-parsed", "File rejects its own serialization", json!({"input": clip(b), "err": e.to_string()})),
        Ok(Ok(f2)) => {
            let view = |f: &gix_config::File<'_>| -> Vec<(Vec<u8>, Option<Vec<u8>>, Vec<(Vec<u8>, Vec<u8>)>)> {
                f.sections()
                    .map(|s| {
                        (
                            s.header().name().to_vec(),
                            s.header().subsection_name().map(|n| n.to_vec()),
                            s.body().clone().into_iter().map(|(k, v)| (k.as_ref().as_bytes().to_vec(), v.to_vec())).collect(),
                        )
                    })
                    .collect()
            };
            match guard(|| (view(&file), view(&f2))) {
                Err(p) => ctx.panic_violation("Section::body iteration", &p, origin, json!({"input": clip(b)})),
                Ok((v1, v2)) => {
                    ctx.count("file_api_compared");
                    if v1 != v2 {
                        // a continuation line that runs into the end of the file is closed by `Value` instead of `ValueDone`
                        let mut dangling = false;
                        for s in &parsed.sections {
                            let mut open = false;
                            for e in &s.events {
                                match e {
                                    Event::ValueNotDone(_) => open = true,
                                    Event::ValueDone(_) => open = false,
                                    Event::Value(_) if open => dangling = true,
                                    _ => {}
                                }
                            }
                        }
                        ctx.violation(
                            if dangling { "file|reparse-differs|api-view|continuation-at-eof" } else { "file|reparse-differs|api-view" },
                            "sections()/body iteration differ between a file and its re-parsed serialization",
                            json!({"input": clip(b), "serialized": clip(&text)}),
                        );
                    }
                }
            }
        }
    }
    true
}

pub fn run(ctx: &mut Ctx) {
    ctx.rule(
        "case = one grammar-generated config text (sections plain/legacy/quoted, implicit keys, quotes, escapes, continuations, comments, \
         TAB/space runs, LF/CRLF/mixed, BOM, missing final newline; 2/3 also with constructs git rejects) judged as is and after 1..3 \
         structure-blind mutations; only parser-accepted inputs are judged. distinct = bitset of what the parse contains (BOM, frontmatter \
         comment/newline, >1 section, legacy/quoted header, escaped subsection, duplicate section, implicit key, empty value, quotes, \
         escapes, continuation, comment, whitespace, CRLF, LF, no final newline) + rare grammar productions used",
    );
    let n = ctx.n(60_000, 2_500_000);
    ctx.cases("roundtrip", n, |ctx, r| {
        let opts = GenOpts { git_safe: r.chance(1, 3), typed: r.chance(1, 4), max_sections: 4, max_lines: 5 };
        let g = gen_config(r, &opts);
        for f in feat_names(g.feats) {
            ctx.count(&format!("feat_{f}"));
        }
        ctx.count(match g.eol {
            0 => "eol_lf",
            1 => "eol_crlf",
            _ => "eol_mixed",
        });
        let ok = judge(ctx, &g.bytes, "gen", g.feats);
        if ok && ctx.want_sample() {
            ctx.sample(json!({"input": clip(&g.bytes), "productions": feat_names(g.feats)}));
        }
        let rounds = r.below(4);
        if rounds > 0 {
            let mut m = g.bytes.clone();
            let mut names = Vec::new();
            for _ in 0..rounds {
                let (nm, name) = gen::mutate(r, &m);
                m = nm;
                names.push(name);
            }
            if m != g.bytes && m.len() < 4096 {
                ctx.count("mutated_inputs");
                let _ = names;
                judge(ctx, &m, "mut", 0);
            }
        }
    });
}
