//! C51 Parallel helpers process every item exactly once (native stress part; the Miri
//! layer re-runs the small instances of c51_core under the interpreter).
use crate::c51_core as core;
use crate::fw::Ctx;
use serde_json::json;

pub fn child(_mode: &str) {}

pub fn run(ctx: &mut Ctx) {
    ctx.rule("case = one run of a parallel helper with unique item ids (function, n items, thread limit, failure site, jitter seed); distinct = distinct recorded event orders (thread id, item) across runs, i.e. observed schedules");
    ctx.assume("'all interleavings of small instances' is not reachable by runtime monitoring: the claim is the number of distinct schedules observed (native stress + Miri seeds), none violating");
    let mut st = core::Stats::default();
    // 1. InOrderIter: all arrival permutations for n<=7 with an error at every position
    let max_n = if ctx.quick() { 6 } else { 8 };
    let mut found: Vec<(String, String)> = Vec::new();
    {
        let mut report = |sig: &str, what: String| found.push((sig.to_string(), what));
        let cases = core::in_order_exhaustive(max_n, &mut st, &mut report);
        ctx.add_evals(cases);
        ctx.note("in_order_permutations_exhaustive_up_to_n", json!(max_n));
        ctx.note("in_order_cases", json!(cases));
    }
    // 2. small instances, many repetitions (schedule diversity from jitter + OS scheduler)
    let reps = ctx.n(50, 6000);
    ctx.cases("small", reps, |ctx, r| {
        let mut report = |sig: &str, what: String| found.push((sig.to_string(), what));
        let before = st.runs;
        core::small_instances_no_inorder(r.next_u64(), 1, &mut st, &mut report);
        ctx.add_evals(st.runs - before);
    });
    // 3. large random instances
    let n = ctx.n(1200, 150_000);
    ctx.cases("large", n, |ctx, r| {
        let mut report = |sig: &str, what: String| found.push((sig.to_string(), what));
        core::large_instances(r.next_u64(), 1, &mut st, &mut report);
        ctx.eval();
    });
    for (sig, what) in found {
        ctx.violation(&sig, &what, json!({"detail": what}));
    }
    for s in &st.schedules {
        ctx.distinct(*s);
    }
    ctx.note("observed", serde_json::from_str(&st.json()).unwrap_or(json!(null)));
    ctx.sample(json!({"helper": "in_parallel", "n": 200, "threads": 4, "fail_at": 3, "oracle": "returns Err; items consumed after the failure <= 3*threads+2"}));
    ctx.sample(json!({"helper": "in_parallel_with_slice", "n": 4, "threads": 3, "oracle": "every item.hits == 1; thread states sum to n"}));
    ctx.sample(json!({"helper": "InOrderIter", "arrival": [2, 0, 1], "err_pos": 2, "oracle": "Ok(0) Err then end"}));
}
