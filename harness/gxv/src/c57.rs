//! C57 ANSI-C unquoting inverts git's path quoting.
//! Oracles:
//!  G: `git update-index -z --index-info` + `git ls-files` (core.quotePath=true|false) produce git's own quoted
//!     form q of a path name b; `undo(q ++ tail)` must be `(b, len(q))` when q is quoted, and `(q ++ tail, len)`
//!     when git printed it verbatim.
//!  M: a transcription of git's `quote_c_style()` (quote.c, cq_lookup table) for byte strings git cannot hold as
//!     one path component (NUL, '/', ".", "..", ".git", empty); the transcription is compared with git's output
//!     on every G case (disagreement = harness fault = inconclusive, never a violation).
use crate::fw::{git, guard, show, Ctx, Rng};
use bstr::ByteSlice;
use serde_json::json;
use std::collections::BTreeSet;

pub fn child(_mode: &str) {}

/// git quote.c: cq_lookup / quote_c_style_counted (without the `no_dq` flag)
fn model_quote(b: &[u8], quote_path_fully: bool) -> (Vec<u8>, bool) {
    fn class(c: u8) -> i32 {
        match c {
            7 => b'a' as i32,
            8 => b'b' as i32,
            9 => b't' as i32,
            10 => b'n' as i32,
            11 => b'v' as i32,
            12 => b'f' as i32,
            13 => b'r' as i32,
            0..=0x1f => 1,
            b'"' => b'"' as i32,
            b'\\' => b'\\' as i32,
            0x7f => 1,
            0x20..=0x7e => -1,
            _ => 0,
        }
    }
    let must = |c: u8| class(c) + i32::from(quote_path_fully) > 0;
    if !b.iter().any(|c| must(*c)) {
        return (b.to_vec(), false);
    }
    let mut out = vec![b'"'];
    for &c in b {
        if !must(c) {
            out.push(c);
            continue;
        }
        out.push(b'\\');
        let k = class(c);
        if k >= b' ' as i32 {
            out.push(k as u8);
        } else {
            out.push(((c >> 6) & 3) + b'0');
            out.push(((c >> 3) & 7) + b'0');
            out.push((c & 7) + b'0');
        }
    }
    out.push(b'"');
    (out, true)
}

/// bit set of the escape kinds a byte string needs, and whether an octal escape is directly followed by a digit
fn shape_of(b: &[u8], fully: bool) -> (u16, bool) {
    let mut kinds = 0u16;
    let mut digit_after_octal = false;
    for (i, &c) in b.iter().enumerate() {
        let (bit, octal) = match c {
            7 => (0, false),
            8 => (1, false),
            9 => (2, false),
            10 => (3, false),
            11 => (4, false),
            12 => (5, false),
            13 => (6, false),
            0 => (7, true),
            1..=0x1f => (8, true),
            b'"' => (9, false),
            b'\\' => (10, false),
            0x7f => (11, true),
            0x80..=0xff => (if fully { 12 } else { 13 }, fully),
            _ => (14, false),
        };
        kinds |= 1 << bit;
        if octal && b.get(i + 1).is_some_and(u8::is_ascii_digit) {
            digit_after_octal = true;
        }
    }
    (kinds, digit_after_octal)
}

fn gen_bytes(r: &mut Rng, max_len: usize, path_component: bool) -> Vec<u8> {
    const SPECIAL: &[u8] = b"\"\\\x07\x08\x0c\n\r\t\x0b\x7f\x00\x01\x1f\x1b\x80\xff\xc3\xa9\xe2 ";
    let len = match r.below(10) {
        0 => 0,
        1 => 1,
        2 => 2,
        _ => r.usize(max_len + 1),
    };
    let style = r.below(6);
    let mut out = Vec::with_capacity(len + 2);
    while out.len() < len {
        let c = match style {
            0 => r.next_u64() as u8,
            1 => *r.pick(SPECIAL),
            2 => {
                // plain, no quoting needed most of the time
                if r.chance(1, 30) {
                    *r.pick(SPECIAL)
                } else {
                    *r.pick(b"abcxyzABC0123456789 ._-+~#'nrtabfv")
                }
            }
            _ => match r.below(5) {
                0 => *r.pick(SPECIAL),
                1 => *r.pick(b"0123456789"),
                2 => 0x80 + r.below(128) as u8,
                3 => r.below(32) as u8,
                _ => *r.pick(b"abcnrtvf \"\\01234567"),
            },
        };
        out.push(c);
        // digits straight after a byte that becomes an octal escape (`\0011` ambiguity)
        if (c < 0x20 || c >= 0x7f) && r.chance(1, 3) {
            out.push(*r.pick(b"0123456789"));
            if r.bool() {
                out.push(*r.pick(b"01234567"));
            }
        }
    }
    if path_component {
        for c in out.iter_mut() {
            if *c == 0 || *c == b'/' {
                *c = b'\\';
            }
        }
    }
    out
}

fn gen_tail(r: &mut Rng) -> (Vec<u8>, &'static str) {
    match r.below(8) {
        0 => (vec![], "none"),
        1 => (b" x".to_vec(), "space"),
        2 => (b"\" y".to_vec(), "quote"),
        3 => (b"\t".to_vec(), "tab"),
        4 => (b"\\".to_vec(), "backslash"),
        5 => (b"\\\"".to_vec(), "escaped-quote"),
        6 => {
            let n = 1 + r.usize(8);
            (r.bytes(n), "random")
        }
        _ => (b"\"\"".to_vec(), "two-quotes"),
    }
}

/// one evaluation of the property for original bytes `b`, git-style quoted form `q`
fn judge(ctx: &mut Ctx, oracle: &str, b: &[u8], q: &[u8], quoted: bool, fully: bool, tail: &[u8], tail_class: &'static str) {
    let mut input = q.to_vec();
    input.extend_from_slice(tail);
    if !quoted && input.first() == Some(&b'"') {
        // a verbatim name followed by a tail that makes the whole start with '"' is not "unquoted input"
        ctx.count("skipped_verbatim_with_quote_tail");
        return;
    }
    ctx.eval();
    let (kinds, dao) = shape_of(b, fully);
    ctx.distinct((kinds, dao, tail_class, fully, quoted));
    ctx.count(if quoted { "quoted_cases" } else { "verbatim_cases" });
    if dao {
        ctx.count("digit_after_octal_cases");
    }
    let witness = |got: String| {
        json!({"oracle": oracle, "bytes": show(b), "quoted": show(q), "tail": show(tail), "quotePath": fully, "got": got})
    };
    let res = guard(|| gix_quote::ansi_c::undo(input.as_bstr()).map(|(c, n)| (c.into_owned(), n)));
    let (want_bytes, want_consumed): (&[u8], usize) = if quoted { (b, q.len()) } else { (&input, input.len()) };
    let class = if quoted { "quoted" } else { "verbatim" };
    match res {
        Err(p) => ctx.panic_violation("ansi_c::undo", &p, class, witness("panic".into())),
        Ok(Err(e)) => ctx.violation(
            &format!("undo|error|{class}"),
            "undo() rejects git's quoted form",
            witness(e.to_string()),
        ),
        Ok(Ok((got, consumed))) => {
            if got.as_slice() != want_bytes {
                ctx.violation(
                    &format!("undo|bytes-differ|{class}"),
                    "undo() does not return the original bytes",
                    witness(format!("{} (consumed {consumed})", show(&got))),
                );
            } else if consumed != want_consumed {
                ctx.violation(
                    &format!("undo|consumed-differs|{class}"),
                    "undo() reports a consumed length different from the length of the quoted form",
                    witness(format!("consumed {consumed}, want {want_consumed}")),
                );
            }
        }
    }
    if ctx.want_sample() {
        ctx.sample(json!({"oracle": oracle, "bytes": show(b), "quoted": show(q), "tail": show(tail), "quotePath": fully}));
    }
}

fn git_batch(ctx: &mut Ctx, r: &mut Rng, batch: usize, names_per_batch: usize) {
    let dir = ctx.dir(&format!("g{batch}"));
    if let Err(e) = git::init(&dir, false) {
        ctx.inconclusive(&format!("git init failed: {e}"));
        return;
    }
    let mut names: BTreeSet<Vec<u8>> = BTreeSet::new();
    for _ in 0..names_per_batch {
        let n = gen_bytes(r, 40, true);
        let lower = n.to_ascii_lowercase();
        if n.is_empty() || n == b"." || n == b".." || lower == b".git" || n.len() > 200 {
            continue;
        }
        names.insert(n);
    }
    let mut info = Vec::new();
    for n in &names {
        info.extend_from_slice(b"100644 e69de29bb2d1d6434b8b29ae775ad8c2e48c5391 0\t");
        info.extend_from_slice(n);
        info.push(0);
    }
    let pre = ["-c", "core.protectNTFS=false", "-c", "core.protectHFS=false"];
    let mut args: Vec<&str> = pre.to_vec();
    args.extend(["update-index", "-z", "--index-info"]);
    match git::run_in(&dir, &args, &info) {
        Ok(o) if o.ok => {}
        Ok(o) => {
            ctx.inconclusive(&format!("git update-index --index-info failed: {}", o.err_text().chars().take(200).collect::<String>()));
            return;
        }
        Err(e) => {
            ctx.inconclusive(&format!("git spawn failed: {e}"));
            return;
        }
    }
    ctx.count("git_calls");
    for fully in [true, false] {
        let qp = format!("core.quotePath={fully}");
        let out = match git::run(&dir, &["-c", qp.as_str(), "ls-files"]) {
            Ok(o) if o.ok => o.stdout,
            _ => {
                ctx.inconclusive("git ls-files failed");
                return;
            }
        };
        ctx.count("git_calls");
        let lines: Vec<&[u8]> = out.split(|c| *c == b'\n').collect();
        let lines = &lines[..lines.len().saturating_sub(1)]; // trailing newline
        if lines.len() != names.len() {
            ctx.inconclusive(&format!("git ls-files printed {} lines for {} names", lines.len(), names.len()));
            return;
        }
        for (name, line) in names.iter().zip(lines.iter()) {
            let (mq, quoted) = model_quote(name, fully);
            if mq != *line {
                ctx.count("model_vs_git_mismatch");
                ctx.inconclusive(&format!(
                    "quote_c_style transcription disagrees with git: name {} git {} model {}",
                    show(name),
                    show(line),
                    show(&mq)
                ));
                continue;
            }
            ctx.count("git_quoted_forms_checked");
            let (tail, tc) = gen_tail(r);
            judge(ctx, "git", name, line, quoted, fully, &tail, tc);
            judge(ctx, "git", name, line, quoted, fully, b"", "none");
        }
    }
    let _ = std::fs::remove_dir_all(&dir);
}

pub fn run(ctx: &mut Ctx) {
    ctx.rule(
        "case = (byte string b of length 0..40 biased to quotes, backslashes, control bytes, 0x7f, bytes >= 0x80 and digits after \
         octal-escaped bytes; git's quoted form q from `git ls-files` (path-representable b) or from the quote_c_style transcription \
         (any b); trailing text); distinct = (set of escape kinds needed by b, digit-directly-after-octal-escape bit, tail class, \
         core.quotePath mode, quoted|verbatim)",
    );
    ctx.assume("git's quoted form = quote_c_style() as used for paths (core.quotePath true or false); the transcription is cross-checked against git ls-files on every path-representable case");

    // G: batches through the real git
    let batches = ctx.n(12, 300);
    let per = 400usize;
    ctx.cases("git-batch", batches, |ctx, r| {
        let id = r.below(1 << 30) as usize;
        git_batch(ctx, r, id, per);
    });

    // M: transcription, all byte values
    // (one framework case = 64 strings, to keep the per-case bookkeeping cheap)
    let n = ctx.n(2_000, 50_000);
    ctx.cases("model", n, |ctx, r| {
        for _ in 0..64 {
            let b = gen_bytes(r, 40, false);
            let fully = r.chance(2, 3);
            let (q, quoted) = model_quote(&b, fully);
            let (tail, tc) = gen_tail(r);
            judge(ctx, "model", &b, &q, quoted, fully, &tail, tc);
        }
    });

    // exhaustive small domain: every single byte, every pair with a following digit
    for fully in [true, false] {
        for c in 0..=255u8 {
            for follow in [None, Some(b'0'), Some(b'7'), Some(b'9'), Some(b'"'), Some(b'\\')] {
                let mut b = vec![c];
                b.extend(follow);
                let (q, quoted) = model_quote(&b, fully);
                judge(ctx, "model-exhaustive", &b, &q, quoted, fully, b"", "none");
                judge(ctx, "model-exhaustive", &b, &q, quoted, fully, b"\" y", "quote");
            }
        }
    }
}
