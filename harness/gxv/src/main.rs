//! gxv — runtime monitors for the gitoxide properties C01..C57.
//! usage: gxv <ID> --tier quick|thorough --seed N --out result.json [--replay witness.json]
//!        gxv --child <ID> <mode>      (internal: isolated worker)
mod fw;
mod c51_core;
use fw::{Ctx, Tier};

macro_rules! registry {
    ($($id:literal => $m:ident),* $(,)?) => {
        $(mod $m;)*
        fn run_monitor(id: &str, ctx: &mut Ctx) -> bool {
            match id { $($id => { $m::run(ctx); true })* _ => false }
        }
        fn run_child(id: &str, mode: &str) -> bool {
            match id { $($id => { $m::child(mode); true })* _ => false }
        }
        fn list() -> Vec<&'static str> { vec![$($id),*] }
    };
}

include!("registry.rs");

fn main() {
    fw::install_panic_hook();
    let args: Vec<String> = std::env::args().collect();
    if args.len() >= 4 && args[1] == "--child" {
        if !run_child(&args[2], &args[3]) {
            eprintln!("unknown child {}", args[2]);
            std::process::exit(3);
        }
        return;
    }
    if args.len() >= 2 && args[1] == "--selftest-repogen" {
        let mut r = fw::Rng::new(args.get(2).and_then(|s| s.parse().ok()).unwrap_or(1));
        let dir = std::path::PathBuf::from("/dev/shm/gxv-selftest");
        let _ = std::fs::remove_dir_all(&dir);
        let mut spec = fw::repogen::DagSpec::small(&mut r);
        spec.delta_fodder = true;
        let repo = fw::repogen::build_dag(&dir, &mut r, &spec).expect("build_dag");
        println!("{} commits, {} objects", repo.commits.len(), repo.all_objects().unwrap().len());
        repo.repack(50, 10, &[]).unwrap();
        println!("{}", fw::git::ok(&dir, &["log", "--graph", "--oneline", "--all"]).unwrap().lines().take(15).collect::<Vec<_>>().join("\n"));
        println!("{}", fw::git::ok(&dir, &["fsck", "--strict"]).unwrap());
        let _ = std::fs::remove_dir_all(&dir);
        return;
    }
    if args.len() >= 2 && args[1] == "--list" {
        for l in list() {
            println!("{l}");
        }
        return;
    }
    if args.len() < 2 {
        eprintln!("usage: gxv <ID> --tier quick|thorough --seed N --out FILE [--replay FILE]");
        std::process::exit(3);
    }
    let id = args[1].clone();
    let mut tier = Tier::Quick;
    let mut seed = 1u64;
    let mut out = std::path::PathBuf::from(format!("/tmp/gxv-{}.json", id));
    let mut replay = None;
    let mut i = 2;
    while i < args.len() {
        match args[i].as_str() {
            "--tier" => {
                tier = if args[i + 1] == "thorough" { Tier::Thorough } else { Tier::Quick };
                i += 2;
            }
            "--seed" => {
                seed = args[i + 1].parse().unwrap_or(1);
                i += 2;
            }
            "--out" => {
                out = args[i + 1].clone().into();
                i += 2;
            }
            "--replay" => {
                let doc: serde_json::Value =
                    serde_json::from_slice(&std::fs::read(&args[i + 1]).expect("read replay")).expect("replay json");
                let label = doc["case_label"].as_str().unwrap_or("").to_string();
                let cs: u64 = doc["case_seed"].as_str().unwrap_or("0").parse().unwrap_or(0);
                if let Some(s) = doc["seed"].as_u64() {
                    seed = s;
                }
                if doc["tier"].as_str() == Some("thorough") {
                    tier = Tier::Thorough;
                }
                replay = Some((label, cs));
                i += 2;
            }
            _ => {
                i += 1;
            }
        }
    }
    let mut ctx = Ctx::new(&id, tier, seed, replay);
    if !run_monitor(&id, &mut ctx) {
        eprintln!("unknown monitor {id}");
        std::process::exit(3);
    }
    ctx.finish(&out);
}
