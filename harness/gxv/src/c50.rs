//! C50 Repository discovery agrees with git.
//!
//! One case = one random directory tree under the scratch area holding nested plain repositories (with and without
//! commits/index), bare repositories (`x.git` and plain names), gitfile checkouts (`git init --separate-git-dir`,
//! absolute and relative `gitdir:`), submodule-shaped nests (`.git/modules/<n>`), linked worktrees
//! (`git worktree add`), `.git` look-alike directories (empty, no HEAD, no objects, no refs) and plain directories.
//! Every query picks a start directory (anywhere, also inside git dirs), a spelling (absolute, or relative to a
//! really changed process cwd, with `.`/`..` detours) and 0..3 absolute ceiling directories chosen relative to where
//! git finds the repository without ceilings.
//!
//! Oracle: `git -C <start> rev-parse --absolute-git-dir --is-bare-repository --is-inside-git-dir
//! --is-inside-work-tree --show-toplevel` with `GIT_CEILING_DIRECTORIES`; gitoxide side
//! `gix_discover::upwards_opts` with `match_ceiling_dir_or_error=false, cross_fs=false, dot_git_only=false`
//! and, as second observer, `gix::ThreadSafeRepository::discover_opts` (isolated open options).
//! Compared: found/not found, canonical git dir, work tree. Where git cannot name a work tree because the start is
//! inside the git dir, the work tree gitoxide names is confirmed by asking git again from that directory.
use crate::fw::{self, guard, Ctx, Rng};
use serde_json::json;
use std::collections::{BTreeMap, BTreeSet, HashMap};
use std::path::{Component, Path, PathBuf};

pub fn child(_mode: &str) {}

#[derive(Clone, Debug, PartialEq)]
enum GitAns {
    Found { git_dir: PathBuf, bare: bool, inside_git_dir: bool, inside_work_tree: bool, toplevel: Option<PathBuf> },
    NotFound,
    /// git refuses to continue (invalid gitfile and the like): outside the compared domain
    Refuses(String),
    ToolError(String),
}

fn ask_git(start: &Path, ceilings: &[String]) -> GitAns {
    let joined = ceilings.join(":");
    let env: Vec<(&str, &str)> = if ceilings.is_empty() { vec![] } else { vec![("GIT_CEILING_DIRECTORIES", joined.as_str())] };
    let out = fw::git::run_env(
        start,
        &["rev-parse", "--absolute-git-dir", "--is-bare-repository", "--is-inside-git-dir", "--is-inside-work-tree", "--show-toplevel"],
        &env,
    );
    let o = match out {
        Ok(o) => o,
        Err(e) => return GitAns::ToolError(format!("spawn: {e}")),
    };
    let text = String::from_utf8_lossy(&o.stdout).to_string();
    let lines: Vec<&str> = text.lines().collect();
    let err = o.err_text();
    if lines.len() >= 4 {
        let b = |s: &str| s == "true";
        return GitAns::Found {
            git_dir: PathBuf::from(lines[0]),
            bare: b(lines[1]),
            inside_git_dir: b(lines[2]),
            inside_work_tree: b(lines[3]),
            toplevel: lines.get(4).map(PathBuf::from),
        };
    }
    if err.contains("not a git repository (or any") {
        GitAns::NotFound
    } else if err.contains("invalid gitfile format") || err.contains("not a git repository: ") || err.contains("error reading") || err.contains("too large to be a .git file") {
        GitAns::Refuses(err.lines().next().unwrap_or("").to_string())
    } else {
        GitAns::ToolError(err.lines().next().unwrap_or("").to_string())
    }
}

fn rel_path(from: &Path, to: &Path) -> PathBuf {
    let f: Vec<_> = from.components().collect();
    let t: Vec<_> = to.components().collect();
    let mut i = 0;
    while i < f.len() && i < t.len() && f[i] == t[i] {
        i += 1;
    }
    let mut p = PathBuf::new();
    for _ in i..f.len() {
        p.push("..");
    }
    for c in &t[i..] {
        p.push(c.as_os_str());
    }
    if p.as_os_str().is_empty() {
        p.push(".");
    }
    p
}

fn is_proper_ancestor(anc: &Path, of: &Path) -> bool {
    anc != of && of.starts_with(anc)
}

struct Scenario {
    root: PathBuf,
    /// canonical git dir -> layout label
    kinds: BTreeMap<PathBuf, &'static str>,
    /// every directory of the tree (absolute)
    all_dirs: Vec<PathBuf>,
    /// directories outside of git dirs
    work_dirs: Vec<PathBuf>,
    recipe: Vec<String>,
}

fn git_ok(ctx: &mut Ctx, cwd: &Path, args: &[&str]) -> bool {
    match fw::git::ok(cwd, args) {
        Ok(_) => {
            ctx.count("git_setup_calls");
            true
        }
        Err(e) => {
            ctx.count("setup_step_failed(skipped)");
            ctx.note("last_setup_failure", json!(e));
            false
        }
    }
}

fn walk_dirs(dir: &Path, out: &mut Vec<PathBuf>) {
    if let Ok(rd) = std::fs::read_dir(dir) {
        let mut names: Vec<PathBuf> = rd.filter_map(|e| e.ok()).map(|e| e.path()).collect();
        names.sort();
        for p in names {
            if let Ok(m) = std::fs::symlink_metadata(&p) {
                if m.is_dir() {
                    out.push(p.clone());
                    walk_dirs(&p, out);
                }
            }
        }
    }
}

fn build_scenario(ctx: &mut Ctx, r: &mut Rng, root: &Path) -> Scenario {
    let names = ["a", "b", "c", "d.git", "e f", "ü", "sub", "x"];
    let mut sc = Scenario { root: root.to_path_buf(), kinds: BTreeMap::new(), all_dirs: vec![], work_dirs: vec![], recipe: vec![] };
    // skeleton
    let mut dirs: Vec<PathBuf> = vec![root.join("top")];
    let _ = std::fs::create_dir_all(&dirs[0]);
    for _ in 0..r.range(3, 9) {
        let parent = r.pick(&dirs).clone();
        if parent.strip_prefix(root).map(|p| p.components().count()).unwrap_or(9) >= 5 {
            continue;
        }
        let d = parent.join(r.pick(&names));
        if !d.exists() && std::fs::create_dir_all(&d).is_ok() {
            dirs.push(d);
        }
    }
    let stores = root.join("stores");
    let _ = std::fs::create_dir_all(&stores);
    let mut plain_with_commit: Vec<PathBuf> = Vec::new();
    let mut occupied: BTreeSet<PathBuf> = BTreeSet::new();
    let n_elems = r.range(1, 5);
    for e in 0..n_elems {
        let d = r.pick(&dirs).clone();
        if occupied.contains(&d) {
            continue;
        }
        let ds = d.to_string_lossy().to_string();
        let rel = d.strip_prefix(root).unwrap().to_string_lossy().to_string();
        match r.below(20) {
            0..=5 => {
                // plain repository
                if !git_ok(ctx, &d, &["init", "-q", "-b", "main", "."]) {
                    continue;
                }
                occupied.insert(d.clone());
                let mut label = "plain-fresh";
                if r.chance(2, 3) && git_ok(ctx, &d, &["commit", "-q", "--allow-empty", "-m", "c"]) {
                    label = "plain-commit";
                    plain_with_commit.push(d.clone());
                    if r.bool() {
                        let _ = std::fs::write(d.join("file"), b"x\n");
                        if git_ok(ctx, &d, &["add", "file"]) {
                            label = "plain-index";
                        }
                    }
                }
                sc.kinds.insert(d.join(".git"), label);
                sc.recipe.push(format!("{label} at {rel}"));
                // something to stand in
                let inner = d.join(r.pick(&["in", "in/deeper", "a/b/c"]));
                if std::fs::create_dir_all(&inner).is_ok() {
                    dirs.push(inner);
                }
            }
            6..=8 => {
                // bare repository, in a new child directory
                let name = *r.pick(&["bare.git", "bare", "srv.git", "plainname"]);
                let b = d.join(name);
                if b.exists() || !git_ok(ctx, &d, &["init", "-q", "--bare", "-b", "main", name]) {
                    continue;
                }
                let label = if name.ends_with(".git") { "bare.git" } else { "bare-noext" };
                sc.kinds.insert(b.clone(), label);
                sc.recipe.push(format!("{label} at {rel}/{name}"));
                occupied.insert(b.clone());
                // a plain directory inside the bare repository to start from
                if r.chance(1, 3) {
                    let _ = std::fs::create_dir_all(b.join("extra/dir"));
                }
            }
            9..=11 => {
                // gitfile checkout: separate git dir in stores/ or in an enclosing repo's .git/modules
                let mut store = stores.join(format!("s{e}"));
                let mut label = "gitfile-abs";
                if r.bool() {
                    // enclosing plain repo?
                    if let Some(sup) = plain_with_commit.iter().find(|p| is_proper_ancestor(p, &d)) {
                        let m = sup.join(".git/modules");
                        let _ = std::fs::create_dir_all(&m);
                        store = m.join(format!("m{e}"));
                        label = "gitfile-modules-abs";
                    }
                }
                let st = store.to_string_lossy().to_string();
                if !git_ok(ctx, root, &["init", "-q", "-b", "main", "--separate-git-dir", &st, &ds]) {
                    continue;
                }
                occupied.insert(d.clone());
                if r.bool() {
                    let relp = rel_path(&d, &store);
                    let nl = if r.bool() { "\n" } else { "" };
                    if std::fs::write(d.join(".git"), format!("gitdir: {}{nl}", relp.display())).is_ok() {
                        label = if label == "gitfile-abs" { "gitfile-rel" } else { "gitfile-modules-rel" };
                    }
                }
                sc.kinds.insert(store.clone(), label);
                sc.recipe.push(format!("{label} at {rel} -> {}", store.strip_prefix(root).unwrap().display()));
                let inner = d.join("wt-sub");
                if std::fs::create_dir_all(&inner).is_ok() {
                    dirs.push(inner);
                }
            }
            12..=14 => {
                // linked worktree of a repository with a commit
                let main = match plain_with_commit.is_empty() {
                    false => r.pick(&plain_with_commit).clone(),
                    true => {
                        let m = root.join("top").join(format!("main{e}"));
                        if !(std::fs::create_dir_all(&m).is_ok()
                            && git_ok(ctx, &m, &["init", "-q", "-b", "main", "."])
                            && git_ok(ctx, &m, &["commit", "-q", "--allow-empty", "-m", "c"]))
                        {
                            continue;
                        }
                        sc.kinds.insert(m.join(".git"), "plain-commit");
                        sc.recipe.push(format!("plain-commit at top/main{e}"));
                        plain_with_commit.push(m.clone());
                        occupied.insert(m.clone());
                        dirs.push(m.clone());
                        m
                    }
                };
                let wt = d.join(format!("lw{e}"));
                let wts = wt.to_string_lossy().to_string();
                if wt.exists() || !git_ok(ctx, &main, &["worktree", "add", "-q", "--detach", &wts]) {
                    continue;
                }
                occupied.insert(wt.clone());
                let private = main.join(".git/worktrees").join(format!("lw{e}"));
                sc.kinds.insert(private, "linked-worktree");
                sc.recipe.push(format!("linked-worktree at {rel}/lw{e} of {}", main.strip_prefix(root).unwrap().display()));
                let inner = wt.join("deep/er");
                if std::fs::create_dir_all(&inner).is_ok() {
                    dirs.push(inner);
                }
                dirs.push(wt);
            }
            15..=17 => {
                // .git look-alike directory: git and gitoxide must both walk past it
                let g = d.join(".git");
                if g.exists() {
                    continue;
                }
                let variant = r.below(4);
                let ok = match variant {
                    0 => std::fs::create_dir_all(&g).is_ok(),
                    _ => git_ok(ctx, &d, &["init", "-q", "-b", "main", "."]),
                };
                if !ok {
                    continue;
                }
                let what = match variant {
                    0 => "lookalike-empty",
                    1 => {
                        let _ = std::fs::remove_file(g.join("HEAD"));
                        "lookalike-no-HEAD"
                    }
                    2 => {
                        let _ = std::fs::remove_dir_all(g.join("objects"));
                        "lookalike-no-objects"
                    }
                    _ => {
                        let _ = std::fs::remove_dir_all(g.join("refs"));
                        "lookalike-no-refs"
                    }
                };
                occupied.insert(d.clone());
                sc.recipe.push(format!("{what} at {rel}"));
                ctx.count(&format!("layout:{what}"));
                let inner = d.join("below");
                if std::fs::create_dir_all(&inner).is_ok() {
                    dirs.push(inner);
                }
            }
            _ => {
                // invalid gitfile: git refuses to go on; only counted (and must not panic)
                let g = d.join(".git");
                if g.exists() {
                    continue;
                }
                let content = match r.below(3) {
                    0 => "garbage\n".to_string(),
                    1 => "gitdir: /nonexistent/for/sure\n".to_string(),
                    _ => format!("gitdir: {}\n", root.join("top").display()),
                };
                if std::fs::write(&g, content).is_ok() {
                    occupied.insert(d.clone());
                    sc.recipe.push(format!("invalid-gitfile at {rel}"));
                    ctx.count("layout:invalid-gitfile");
                }
            }
        }
    }
    for (_, k) in sc.kinds.iter() {
        ctx.count(&format!("layout:{k}"));
    }
    let mut all = vec![root.to_path_buf()];
    walk_dirs(root, &mut all);
    sc.work_dirs = all
        .iter()
        .filter(|p| {
            !p.components().any(|c| c.as_os_str() == ".git")
                && !sc.kinds.keys().any(|g| p.starts_with(g))
                && !p.starts_with(&stores)
        })
        .cloned()
        .collect();
    sc.all_dirs = all;
    sc
}

fn canon(p: &Path, cwd: &Path) -> Option<PathBuf> {
    let abs = if p.is_absolute() { p.to_path_buf() } else { cwd.join(p) };
    std::fs::canonicalize(abs).ok()
}

fn err_variant(e: &gix_discover::upwards::Error) -> &'static str {
    use gix_discover::upwards::Error::*;
    match e {
        CurrentDir(_) => "CurrentDir",
        InvalidInput { .. } => "InvalidInput",
        InaccessibleDirectory { .. } => "InaccessibleDirectory",
        NoGitRepository { .. } => "NoGitRepository",
        NoGitRepositoryWithinCeiling { .. } => "NoGitRepositoryWithinCeiling",
        NoGitRepositoryWithinFs { .. } => "NoGitRepositoryWithinFs",
        NoMatchingCeilingDir => "NoMatchingCeilingDir",
        NoTrustedGitRepository { .. } => "NoTrustedGitRepository",
        CheckTrust { .. } => "CheckTrust",
    }
}

struct CwdGuard(PathBuf);
impl Drop for CwdGuard {
    fn drop(&mut self) {
        let _ = std::env::set_current_dir(&self.0);
    }
}

#[derive(Debug)]
enum GixAns {
    Found { git_dir: Option<PathBuf>, work_dir: Option<PathBuf>, raw: String },
    NotFound(&'static str),
    OtherError(String),
}

fn discover_opts(ceilings: &[String]) -> gix_discover::upwards::Options<'static> {
    gix_discover::upwards::Options {
        required_trust: gix_sec::Trust::Reduced,
        ceiling_dirs: ceilings.iter().map(PathBuf::from).collect(),
        match_ceiling_dir_or_error: false,
        cross_fs: false,
        dot_git_only: false,
        current_dir: None,
    }
}

/// the same options through the `gix` re-export (identical type on the unchanged tree)
fn open_discover_opts(ceilings: &[String]) -> gix::discover::upwards::Options<'static> {
    gix::discover::upwards::Options {
        required_trust: gix_sec::Trust::Reduced,
        ceiling_dirs: ceilings.iter().map(PathBuf::from).collect(),
        match_ceiling_dir_or_error: false,
        cross_fs: false,
        dot_git_only: false,
        current_dir: None,
    }
}

fn one_query(ctx: &mut Ctx, r: &mut Rng, sc: &Scenario, pool: &[PathBuf], cache: &mut HashMap<PathBuf, GitAns>) {
    // ---- start directory (from the scenario's pool, so that git's ceiling-free answer is asked once per start)
    let start = r.pick(pool).clone();
    // unrestricted answer of git (cached per start)
    if !cache.contains_key(&start) {
        ctx.count("git_queries");
    }
    let free = cache.entry(start.clone()).or_insert_with(|| ask_git(&start, &[])).clone();
    let disc_dir: Option<PathBuf> = match &free {
        GitAns::Found { toplevel: Some(t), .. } => Some(t.clone()),
        GitAns::Found { git_dir, .. } => Some(git_dir.clone()),
        _ => None,
    };

    // ---- ceilings (absolute, symlink free), chosen relative to the place of discovery
    let mut ceilings: Vec<String> = Vec::new();
    let mut relation: BTreeSet<&'static str> = BTreeSet::new();
    let n_ceil = match r.below(20) {
        0..=6 => 0,
        7..=13 => 1,
        14..=17 => 2,
        _ => 3,
    };
    for _ in 0..n_ceil {
        let ancestors: Vec<PathBuf> = start.ancestors().skip(1).map(Path::to_path_buf).collect();
        let (c, rel): (PathBuf, &'static str) = match r.below(10) {
            9 => {
                // strictly between the discovery dir and the start, if there is such a directory
                let between: Vec<&PathBuf> = match &disc_dir {
                    Some(d) => ancestors.iter().filter(|a| is_proper_ancestor(d, a)).collect(),
                    None => vec![],
                };
                match between.is_empty() {
                    true => continue,
                    false => ((*r.pick(&between)).clone(), "between-discovery-dir-and-start"),
                }
            }
            0 | 1 => match &disc_dir {
                Some(d) if is_proper_ancestor(d, &start) => (d.clone(), "at-discovery-dir"),
                Some(d) if *d == start => (d.clone(), "start-itself"),
                _ => (start.clone(), "start-itself"),
            },
            2 => match disc_dir.as_ref().and_then(|d| d.parent()) {
                Some(p) => (p.to_path_buf(), "above-discovery-dir"),
                None => (sc.root.clone(), "above-discovery-dir"),
            },
            3 | 4 => {
                // any proper ancestor of the start
                let a = r.pick(&ancestors).clone();
                let rel = match &disc_dir {
                    Some(d) if a == *d => "at-discovery-dir",
                    Some(d) if is_proper_ancestor(d, &a) => "between-discovery-dir-and-start",
                    Some(_) => "above-discovery-dir",
                    None => "ancestor-no-repo",
                };
                (a, rel)
            }
            5 => (start.clone(), "start-itself"),
            6 => (start.join("nonexistent-child"), "non-ancestor"),
            7 => {
                let o = r.pick(&sc.all_dirs).clone();
                if is_proper_ancestor(&o, &start) {
                    continue;
                }
                let rel = if o_eq(&o, &start) { "start-itself" } else { "non-ancestor" };
                (o, rel)
            }
            _ => (PathBuf::from(*r.pick(&["/", "/dev", "/dev/shm", "/nonexistent/x"])), "system-dir"),
        };
        let mut s = c.to_string_lossy().to_string();
        if r.chance(1, 8) && s != "/" {
            s.push('/');
        }
        if !ceilings.contains(&s) {
            ceilings.push(s);
            relation.insert(rel);
        }
    }
    let expected = if ceilings.is_empty() {
        free.clone()
    } else {
        ctx.count("git_queries");
        ctx.count("queries_with_ceilings");
        ask_git(&start, &ceilings)
    };

    // ---- spelling of the start directory
    let (cwd, spelled, spelling): (PathBuf, PathBuf, &'static str) = match r.below(8) {
        0..=2 => (PathBuf::from("/"), start.clone(), "absolute"),
        3 => (start.clone(), PathBuf::from("."), "dot"),
        4 => {
            // cwd is an ancestor inside the scratch area
            let anc: Vec<&Path> = start.ancestors().filter(|a| a.starts_with(&sc.root)).collect();
            let c = r.pick(&anc).to_path_buf();
            let mut p = rel_path(&c, &start);
            if r.bool() && p != Path::new(".") {
                p = Path::new(".").join(p);
            }
            (c, p, "relative-down")
        }
        5 => {
            // cwd is some other directory of the tree: spelling goes up and down
            let c = r.pick(&sc.all_dirs).clone();
            let p = rel_path(&c, &start);
            (c, p, "relative-up-down")
        }
        6 => {
            // detour through a child and back
            let c = start.parent().filter(|p| p.starts_with(&sc.root)).unwrap_or(&start).to_path_buf();
            let mut p = rel_path(&c, &start);
            if let Some(name) = start.file_name() {
                if c != start {
                    p = PathBuf::from(name).join("..").join(name);
                }
            }
            (c, p, "relative-detour")
        }
        _ => {
            // absolute with a detour
            match (start.parent(), start.file_name()) {
                (Some(par), Some(name)) => (PathBuf::from("/"), par.join(name).join("..").join(name), "absolute-detour"),
                _ => (PathBuf::from("/"), start.clone(), "absolute"),
            }
        }
    };

    // ---- gitoxide
    let res = run_gix(&cwd, &spelled, &ceilings, true);
    let Some((res_discover, res_open)) = res else {
        ctx.count("chdir_failed(skipped)");
        return;
    };
    ctx.eval();
    let witness = json!({
        "scenario": sc.recipe, "root": sc.root.display().to_string(),
        "start": start.strip_prefix(&sc.root).unwrap_or(&start).display().to_string(),
        "cwd": cwd.display().to_string(), "spelled": spelled.display().to_string(),
        "ceilings": ceilings, "ceiling_relation": relation.iter().collect::<Vec<_>>(),
        "git_without_ceilings": format!("{free:?}"), "git": format!("{expected:?}"),
    });
    let gix_ans = match res_discover {
        Err(p) => {
            ctx.panic_violation("gix_discover::upwards_opts", &p, "discover", witness);
            return;
        }
        Ok(a) => a,
    };
    let mut w = witness.clone();
    w["gix_discover"] = json!(format!("{gix_ans:?}"));

    // classification of the situation
    let in_dot_git = start.components().any(|c| c.as_os_str() == ".git");
    let layout: &'static str = match &free {
        // the start is below a directory called `.git` that is not the git dir git finds: a look-alike is on the way up
        GitAns::Found { git_dir, .. } if in_dot_git && !start.starts_with(git_dir) => "start-inside-invalid-dot-git",
        GitAns::NotFound if in_dot_git => "start-inside-invalid-dot-git",
        GitAns::Found { git_dir, .. } => sc.kinds.get(git_dir).copied().unwrap_or("unlabelled"),
        GitAns::NotFound => "none",
        _ => "git-refuses",
    };
    let position: &'static str = match &free {
        GitAns::Found { inside_git_dir: true, git_dir, .. } => {
            if *git_dir == start {
                "git-dir-root"
            } else {
                "inside-git-dir"
            }
        }
        GitAns::Found { toplevel: Some(t), .. } => {
            if *t == start {
                "worktree-root"
            } else {
                "worktree-subdir"
            }
        }
        GitAns::Found { .. } => "other",
        _ => "outside",
    };
    let rel_s: String = relation.iter().copied().collect::<Vec<_>>().join("+");
    let ceil_class: &'static str = if ceilings.is_empty() {
        "no-ceiling"
    } else if relation.contains("between-discovery-dir-and-start") {
        "ceiling-below-repo"
    } else if relation.contains("at-discovery-dir") {
        "ceiling-at-discovery-dir"
    } else {
        "ceiling-ineffective"
    };
    // shape of the spelling after lexical normalization (what the upward walk starts from)
    let spell_class: &'static str = {
        let mut depth = 0i32;
        let mut ups = 0;
        for c in spelled.components() {
            match c {
                Component::Normal(_) => depth += 1,
                Component::ParentDir => {
                    if depth == 0 {
                        ups += 1;
                    } else {
                        depth -= 1;
                    }
                }
                _ => {}
            }
        }
        if spelled.is_absolute() {
            "absolute"
        } else if ups > 0 {
            "relative-leading-dotdot"
        } else if depth == 0 || matches!(spelled.components().next(), Some(Component::CurDir)) {
            // "." or "./x/y": the upward walk passes through "."
            "relative-curdir-prefixed"
        } else {
            // "x/y": the upward walk runs out of components at the cwd
            "relative-plain-descending"
        }
    };

    match judge(ctx, &expected, &gix_ans) {
        Verdict::Inconclusive(e) => {
            ctx.inconclusive(&format!("git rev-parse failed unexpectedly: {e}"));
            return;
        }
        Verdict::NotCompared => {
            ctx.count("git_refuses_invalid_gitfile(not compared)");
            return;
        }
        Verdict::Agree(label) => ctx.count(&format!("agree:{label}")),
        Verdict::Mismatch(kind, text) => {
            // attribute the disagreement: spelling, ceilings or layout
            let mut cause = "layout";
            if spelled != start || cwd != Path::new("/") {
                if let Some((Ok(abs_ans), _)) = run_gix(Path::new("/"), &start, &ceilings, false) {
                    w["gix_discover_absolute_spelling"] = json!(format!("{abs_ans:?}"));
                    if matches!(judge(ctx, &expected, &abs_ans), Verdict::Agree(_)) {
                        cause = "spelling";
                    }
                }
            }
            if cause == "layout" && !ceilings.is_empty() {
                if let Some((Ok(free_ans), _)) = run_gix(Path::new("/"), &start, &[], false) {
                    w["gix_discover_absolute_no_ceilings"] = json!(format!("{free_ans:?}"));
                    if matches!(judge(ctx, &free, &free_ans), Verdict::Agree(_)) {
                        cause = "ceiling";
                    }
                }
            }
            let sig = match cause {
                "spelling" => format!("discover|relative-start|{spell_class}"),
                // a ceiling on the directory holding the repository decides the outcome wherever the walk started
                "ceiling" if ceil_class == "ceiling-at-discovery-dir" => format!("discover|ceiling|{ceil_class}|{kind}"),
                // walking up through a look-alike `.git` directory: one class whatever else is involved
                _ if layout == "start-inside-invalid-dot-git" => format!("discover|layout|{layout}|{kind}"),
                "ceiling" => format!("discover|ceiling|{ceil_class}|{kind}"),
                _ => format!("discover|layout|{layout}|{position}|{kind}"),
            };
            w["attributed_to"] = json!(cause);
            ctx.violation(&sig, &format!("{text} [start spelled {:?} from cwd {}, ceilings {:?}]", spelled, cwd.display(), ceilings), w);
            return;
        }
    }
    ctx.distinct((layout, position, rel_s.clone(), spell_class, matches!(expected, GitAns::Found { .. })));
    ctx.count(&format!("spelling:{spelling}"));
    ctx.count(&format!("start-shape:{spell_class}"));
    ctx.count(&format!("position:{position}"));
    for rel in &relation {
        ctx.count(&format!("ceiling:{rel}"));
    }

    // ---- second observer: the opened repository
    match res_open.expect("requested") {
        Err(p) => ctx.panic_violation("gix::ThreadSafeRepository::discover_opts", &p, "discover", witness),
        Ok(opened) => {
            ctx.eval();
            match (&expected, opened) {
                (GitAns::NotFound, Err(gix::discover::Error::Discover(_))) => ctx.count("open:agree-not-found"),
                (GitAns::NotFound, Err(e)) => ctx.violation("open|error-kind", &format!("expected a discovery error, got {e}"), witness),
                (GitAns::Found { git_dir, .. }, Err(e)) => {
                    let mut w = witness;
                    w["open_error"] = json!(e.to_string());
                    ctx.violation(
                        &format!("open|cannot-open-what-git-finds|{layout}"),
                        &format!("git finds {}, gix::discover fails: {e}", git_dir.display()),
                        w,
                    );
                }
                (GitAns::Found { git_dir, toplevel, bare, .. }, Ok((g, wd, is_bare))) => {
                    let g = canon(&g, &cwd);
                    let wd = wd.and_then(|x| canon(&x, &cwd));
                    let mut w = witness;
                    w["opened"] = json!(format!("git_dir={g:?} work_dir={wd:?} is_bare={is_bare}"));
                    if g.as_ref() != Some(git_dir) {
                        ctx.violation(&format!("open|different-git-dir|{layout}|{position}"), &format!("opened repository has git dir {g:?}, git says {}", git_dir.display()), w);
                    } else if is_bare != *bare {
                        ctx.violation(&format!("open|different-bareness|{layout}|{position}"), &format!("is_bare {is_bare} vs git {bare}"), w);
                    } else if toplevel.is_some() && wd != *toplevel {
                        ctx.violation(&format!("open|different-worktree|{layout}|{position}"), &format!("opened work dir {wd:?} vs git {toplevel:?}"), w);
                    } else {
                        ctx.count("open:agree");
                    }
                }
                _ => {}
            }
        }
    }
    if ctx.want_sample() {
        ctx.sample(json!({"layout": layout, "position": position, "spelled": spelled.display().to_string(), "cwd_is_root": cwd == Path::new("/"),
            "ceilings": ceilings.len(), "ceiling_relation": rel_s, "git": format!("{expected:?}").replace(&sc.root.display().to_string(), "$ROOT"),
            "gix": format!("{gix_ans:?}").replace(&sc.root.display().to_string(), "$ROOT")}));
    }
}

type OpenAns = Result<(PathBuf, Option<PathBuf>, bool), gix::discover::Error>;

/// chdir to `cwd`, run the discovery (and optionally discover+open), come back. None: chdir failed.
#[allow(clippy::type_complexity)]
fn run_gix(cwd: &Path, spelled: &Path, ceilings: &[String], with_open: bool) -> Option<(Result<GixAns, fw::PanicInfo>, Option<Result<OpenAns, fw::PanicInfo>>)> {
    let _back = CwdGuard(std::env::current_dir().unwrap_or_else(|_| PathBuf::from("/")));
    std::env::set_current_dir(cwd).ok()?;
    let a = guard(|| gix_discover::upwards_opts(spelled, discover_opts(ceilings))).map(|r| match r {
        Ok((path, _trust)) => {
            let raw = format!("{path:?}");
            let (g, w) = path.into_repository_and_work_tree_directories();
            GixAns::Found { git_dir: canon(&g, cwd), work_dir: w.and_then(|w| canon(&w, cwd)), raw }
        }
        Err(e) => match err_variant(&e) {
            v @ ("NoGitRepository" | "NoGitRepositoryWithinCeiling" | "NoGitRepositoryWithinFs") => GixAns::NotFound(v),
            _ => GixAns::OtherError(e.to_string()),
        },
    });
    let b = with_open.then(|| {
        guard(|| {
            let iso = gix::open::Options::isolated();
            gix::ThreadSafeRepository::discover_opts(spelled, open_discover_opts(ceilings), gix_sec::trust::Mapping { full: iso.clone(), reduced: iso })
                .map(|repo| (repo.git_dir().to_path_buf(), repo.work_dir().map(Path::to_path_buf), repo.to_thread_local().is_bare()))
        })
    });
    Some((a, b))
}

enum Verdict {
    Agree(&'static str),
    Mismatch(&'static str, String),
    NotCompared,
    Inconclusive(String),
}

fn judge(ctx: &mut Ctx, expected: &GitAns, gix_ans: &GixAns) -> Verdict {
    match (expected, gix_ans) {
        (GitAns::ToolError(e), _) => Verdict::Inconclusive(e.clone()),
        (GitAns::Refuses(_), _) => Verdict::NotCompared,
        (_, GixAns::OtherError(e)) => Verdict::Mismatch("unexpected-error", format!("upwards_opts failed with '{e}' where git answers {expected:?}")),
        (GitAns::NotFound, GixAns::NotFound(v)) => Verdict::Agree(match *v {
            "NoGitRepositoryWithinCeiling" => "not-found:within-ceiling",
            "NoGitRepositoryWithinFs" => "not-found:within-fs",
            _ => "not-found",
        }),
        (GitAns::NotFound, GixAns::Found { raw, .. }) => Verdict::Mismatch("gix-finds-git-does-not", format!("git finds no repository but gitoxide returns {raw}")),
        (GitAns::Found { git_dir, .. }, GixAns::NotFound(v)) => {
            Verdict::Mismatch("git-finds-gix-does-not", format!("git finds {} but gitoxide reports {v}", git_dir.display()))
        }
        (GitAns::Found { git_dir, toplevel, bare, .. }, GixAns::Found { git_dir: g, work_dir: wd, raw }) => {
            if g.as_ref() != Some(git_dir) {
                return Verdict::Mismatch("different-git-dir", format!("git dir: git {} vs gitoxide {raw}", git_dir.display()));
            }
            match (toplevel, wd) {
                (Some(t), Some(x)) if t == x => Verdict::Agree("git-dir+worktree"),
                (None, None) => Verdict::Agree("git-dir,no-worktree"),
                (Some(t), other) => Verdict::Mismatch("different-worktree", format!("work tree: git {} vs gitoxide {other:?} ({raw})", t.display())),
                (None, Some(x)) => {
                    // git cannot tell from here (start is inside the git dir). Ask it from the directory gitoxide names.
                    ctx.count("git_queries");
                    match ask_git(x, &[]) {
                        GitAns::Found { git_dir: g2, toplevel: Some(t2), .. } if g2 == *git_dir && t2 == *x => Verdict::Agree("git-dir,worktree-confirmed-from-there"),
                        other => Verdict::Mismatch(
                            "worktree-not-confirmed-by-git",
                            format!("gitoxide names work tree {} for {} (bare={bare}), git started there answers {other:?}", x.display(), git_dir.display()),
                        ),
                    }
                }
            }
        }
    }
}

fn o_eq(a: &Path, b: &Path) -> bool {
    a.components().filter(|c| !matches!(c, Component::CurDir)).eq(b.components().filter(|c| !matches!(c, Component::CurDir)))
}

pub fn run(ctx: &mut Ctx) {
    ctx.rule(
        "case = random directory tree (plain/bare/gitfile/modules/linked-worktree/look-alike elements, nested) + 24 queries over 8 start directories \
         (start dir anywhere incl. inside git dirs; absolute or cwd-relative spelling; 0..3 ceilings placed relative to the discovery dir). \
         distinct = (layout found, start position, ceiling relation set, spelling, found?)",
    );
    ctx.assume("everything is owned by the current user (ownership/safe.directory outside the statement); ceilings are absolute and symlink free; no core.worktree/GIT_DIR; invalid gitfiles (git dies) are not compared");
    ctx.assume("whole tree on one filesystem (/dev/shm): the not-found answer of both sides comes from the filesystem boundary at the mount point");
    let n = ctx.n(30, 900);
    let queries = 24;
    ctx.cases("tree", n, |ctx, r| {
        let root = ctx.dir("w");
        let root = std::fs::canonicalize(&root).unwrap_or(root);
        let sc = build_scenario(ctx, r, &root);
        ctx.count("scenarios");
        let mut cache = HashMap::new();
        let pool: Vec<PathBuf> = (0..8)
            .map(|_| if r.chance(3, 5) && !sc.work_dirs.is_empty() { r.pick(&sc.work_dirs).clone() } else { r.pick(&sc.all_dirs).clone() })
            .collect();
        for _ in 0..queries {
            one_query(ctx, r, &sc, &pool, &mut cache);
        }
    });
    let _ = std::env::set_current_dir("/");
}
