//! C53 Mailmap resolution agrees with git.
//! Oracle: `git -c mailmap.file=F check-mailmap --stdin` (one batch per generated mailmap) against
//! `gix_mailmap::Snapshot::from_bytes(F).resolve(name, email)`; `try_resolve` must agree with `resolve`.
//! A transcription of git's mailmap line parser is used ONLY to classify a disagreement (which lines concern the
//! queried email and which syntactic features they have) so that signatures are stable; it never decides a verdict.
use crate::fw::{git, guard, show, Ctx, Rng};
use bstr::ByteSlice;
use gix_actor::SignatureRef;
use serde_json::json;
use std::collections::BTreeSet;

pub fn child(_mode: &str) {}

fn flip_case(r: &mut Rng, s: &[u8]) -> Vec<u8> {
    let mut out = s.to_vec();
    let mut changed = false;
    for c in out.iter_mut() {
        if c.is_ascii_alphabetic() && r.chance(1, 2) {
            *c ^= 0x20;
            changed = true;
        }
    }
    if !changed {
        for c in out.iter_mut() {
            if c.is_ascii_alphabetic() {
                *c ^= 0x20;
                break;
            }
        }
    }
    out
}

struct Pools {
    names: Vec<Vec<u8>>,
    emails: Vec<Vec<u8>>,
}

fn gen_pools(r: &mut Rng, feature: &str) -> Pools {
    const FIRST: &[&str] = &["Joe", "Jane", "A U", "C O", "sebastian", "Sebastian", "Li", "x", "Dr. Who", "van der Berg", "O'Neil", "J\u{fc}rgen", "\u{738b}\u{5c0f}\u{660e}", "#hash", "a-b_c"];
    const LAST: &[&str] = &["", " Thor", " Mitter", " Doe", " R. Developer", " Thiel", " III", " (work)", " \"Q\""];
    const LOCAL: &[&str] = &["joe", "jane", "bugs", "author", "committer", "a", "A.B", "first.last+tag", "x_y", "1", "j\u{fc}rgen"];
    const DOMAIN: &[&str] = &["example.com", "Example.COM", "x", "host.xz", "users.noreply.github.com", "b\u{fc}cher.de", "localhost", "1.2.3.4"];
    let mut names: Vec<Vec<u8>> = Vec::new();
    let mut emails: Vec<Vec<u8>> = Vec::new();
    let nn = 2 + r.usize(4);
    for _ in 0..nn {
        let n = format!("{}{}", r.pick(FIRST), r.pick(LAST)).into_bytes();
        names.push(n);
    }
    let ne = 2 + r.usize(4);
    for _ in 0..ne {
        let e = if r.chance(1, 8) { (*r.pick(LOCAL)).to_string() } else { format!("{}@{}", r.pick(LOCAL), r.pick(DOMAIN)) };
        emails.push(e.into_bytes());
    }
    // case variants of existing pool members make case-insensitive collisions likely
    for _ in 0..r.usize(3) {
        let i = r.usize(names.len());
        let v = flip_case(r, &names[i].clone());
        names.push(v);
    }
    for _ in 0..r.usize(3) {
        let i = r.usize(emails.len());
        let v = flip_case(r, &emails[i].clone());
        emails.push(v);
    }
    if feature == "non-utf8" {
        // latin-1 bytes: not valid UTF-8
        let mut n = b"J\xfcrgen M\xdcller".to_vec();
        if r.bool() {
            n = b"Fran\xe7ois".to_vec();
        }
        names.push(n.clone());
        names.push(flip_case(r, &n));
        let e = b"j\xfcrgen@example.com".to_vec();
        emails.push(e.clone());
        emails.push(flip_case(r, &e));
    }
    Pools { names, emails }
}

fn ws(r: &mut Rng) -> &'static str {
    *r.pick(&[" ", " ", " ", "  ", "\t", " \t ", ""])
}

/// one mailmap line (without terminator)
fn gen_line(r: &mut Rng, p: &Pools, feature: &str, form_set: &mut BTreeSet<&'static str>) -> Vec<u8> {
    let name = |r: &mut Rng| p.names[r.usize(p.names.len())].clone();
    let email = |r: &mut Rng| p.emails[r.usize(p.emails.len())].clone();
    let br = |e: &[u8]| {
        let mut v = b"<".to_vec();
        v.extend_from_slice(e);
        v.push(b'>');
        v
    };
    let mut line: Vec<u8> = Vec::new();
    let form = r.below(20);
    let irregular = feature != "none" && r.chance(1, 3);
    match form {
        0 => {
            form_set.insert("comment");
            line.extend_from_slice(b"# ");
            line.extend(name(r));
            line.push(b' ');
            line.extend(br(&email(r)));
            return line;
        }
        1 => {
            form_set.insert("blank");
            line.extend_from_slice(ws(r).as_bytes());
            return line;
        }
        2..=5 => {
            form_set.insert("name-by-email");
            line.extend(name(r));
            line.extend_from_slice(ws(r).as_bytes());
            line.extend(br(&email(r)));
        }
        6..=8 => {
            form_set.insert("email-by-email");
            line.extend(br(&email(r)));
            line.extend_from_slice(ws(r).as_bytes());
            line.extend(br(&email(r)));
        }
        9..=12 => {
            form_set.insert("name+email-by-email");
            line.extend(name(r));
            line.extend_from_slice(ws(r).as_bytes());
            line.extend(br(&email(r)));
            line.extend_from_slice(ws(r).as_bytes());
            line.extend(br(&email(r)));
        }
        13..=16 => {
            form_set.insert("name+email-by-name+email");
            line.extend(name(r));
            line.extend_from_slice(ws(r).as_bytes());
            line.extend(br(&email(r)));
            line.extend_from_slice(ws(r).as_bytes());
            line.extend(name(r));
            line.extend_from_slice(ws(r).as_bytes());
            line.extend(br(&email(r)));
        }
        17 | 18 => {
            form_set.insert("email-by-name+email");
            line.extend(br(&email(r)));
            line.extend_from_slice(ws(r).as_bytes());
            line.extend(name(r));
            line.extend_from_slice(ws(r).as_bytes());
            line.extend(br(&email(r)));
        }
        _ => {
            form_set.insert("email-only");
            line.extend(br(&email(r)));
        }
    }
    if r.chance(1, 6) {
        let mut l = ws(r).as_bytes().to_vec();
        l.extend(line);
        line = l;
    }
    if r.chance(1, 6) {
        line.extend_from_slice(ws(r).as_bytes());
    }
    if irregular {
        match feature {
            "trailing-text" => {
                line.extend_from_slice(*r.pick(&[&b" trailing"[..], b" # comment", b" x", b" Other Name"]));
            }
            "empty-old-email" => {
                line.extend_from_slice(b" <>");
            }
            "email-space" => {
                // whitespace directly inside the angle brackets
                if let Some(i) = line.iter().position(|c| *c == b'<') {
                    line.insert(i + 1, b' ');
                }
                if r.bool() {
                    if let Some(i) = line.iter().rposition(|c| *c == b'>') {
                        line.insert(i, b' ');
                    }
                }
            }
            "unicode-space" => {
                // U+00A0 / vertical tab / form feed at the edge of the line or next to a bracket
                let sp: &[u8] = *r.pick(&[&b"\xc2\xa0"[..], b"\x0b", b"\x0c", b"\xe2\x80\x83"]);
                if r.bool() {
                    let mut l = sp.to_vec();
                    l.extend(line);
                    line = l;
                } else if let Some(i) = line.iter().position(|c| *c == b'<') {
                    for (k, b) in sp.iter().enumerate() {
                        line.insert(i + k, *b);
                    }
                }
            }
            "no-close" => {
                if let Some(i) = line.iter().rposition(|c| *c == b'>') {
                    line.remove(i);
                }
            }
            "extra-bracket" => {
                let at = r.usize(line.len() + 1);
                line.insert(at, *r.pick(b"<>"));
            }
            _ => {}
        }
    }
    line
}

#[derive(Default, Clone)]
struct GitLine {
    name1: Option<Vec<u8>>,
    email1: Option<Vec<u8>>,
    name2: Option<Vec<u8>>,
    email2: Option<Vec<u8>>,
    trailing: bool,
}

/// transcription of mailmap.c:parse_name_and_email (classification only)
fn git_parse_ne(buf: &[u8], allow_empty_email: bool) -> Option<(Option<Vec<u8>>, Vec<u8>, Option<&[u8]>)> {
    let left = buf.iter().position(|c| *c == b'<')?;
    let right = left + 1 + buf[left + 1..].iter().position(|c| *c == b'>')?;
    if !allow_empty_email && left + 1 == right {
        return None;
    }
    let is_sp = |c: u8| matches!(c, b' ' | b'\t' | b'\n' | b'\r');
    let mut ns = 0usize;
    while ns < left && is_sp(buf[ns]) {
        ns += 1;
    }
    let mut ne = left; // exclusive end
    while ne > ns && is_sp(buf[ne - 1]) {
        ne -= 1;
    }
    let name = (ns < ne).then(|| buf[ns..ne].to_vec());
    let email = buf[left + 1..right].to_vec();
    let rest = &buf[right + 1..];
    Some((name, email, (!rest.is_empty()).then_some(rest)))
}

fn git_parse_line(line: &[u8]) -> GitLine {
    let mut g = GitLine::default();
    if line.first() == Some(&b'#') {
        return g;
    }
    if let Some((n1, e1, rest)) = git_parse_ne(line, false) {
        g.name1 = n1;
        g.email1 = Some(e1);
        if let Some(rest) = rest {
            match git_parse_ne(rest, true) {
                Some((n2, e2, rest2)) => {
                    g.name2 = n2;
                    g.email2 = Some(e2);
                    g.trailing = rest2.is_some_and(|r| !r.trim().is_empty());
                }
                None => g.trailing = !rest.trim().is_empty(),
            }
        }
    }
    g
}

fn eq_icase(a: &[u8], b: &[u8]) -> bool {
    a.eq_ignore_ascii_case(b)
}

// ---- transcription of git's mailmap.c (add_mapping / map_user). It is validated against the real git on every
// ---- query and used only to minimise and classify a disagreement that the real git has already established.

#[derive(Default, Clone)]
struct Info {
    name: Option<Vec<u8>>,
    email: Option<Vec<u8>>,
}
#[derive(Default, Clone)]
struct MEntry {
    key: Vec<u8>,
    simple: Info,
    namemap: Vec<(Vec<u8>, Info)>,
}

fn model_build(lines: &[Vec<u8>]) -> Vec<MEntry> {
    let mut map: Vec<MEntry> = Vec::new();
    for l in lines {
        let g = git_parse_line(l);
        let Some(email1) = g.email1 else { continue };
        let (new_name, mut new_email, old_name, old_email) = (g.name1, Some(email1), g.name2, g.email2);
        let old_email = match old_email {
            Some(e) => e,
            None => new_email.take().unwrap(),
        };
        let idx = match map.iter().position(|e| eq_icase(&e.key, &old_email)) {
            Some(i) => i,
            None => {
                map.push(MEntry { key: old_email.clone(), ..Default::default() });
                map.len() - 1
            }
        };
        let me = &mut map[idx];
        match old_name {
            None => {
                if new_name.is_some() {
                    me.simple.name = new_name;
                }
                if new_email.is_some() {
                    me.simple.email = new_email;
                }
            }
            Some(on) => {
                let info = Info { name: new_name, email: new_email };
                match me.namemap.iter().position(|(k, _)| eq_icase(k, &on)) {
                    Some(i) => me.namemap[i].1 = info,
                    None => me.namemap.push((on, info)),
                }
            }
        }
    }
    map
}

fn model_lookup(map: &[MEntry], qname: &[u8], qemail: &[u8]) -> (Vec<u8>, Vec<u8>) {
    let mut name = qname.to_vec();
    let mut email = qemail.to_vec();
    if let Some(me) = map.iter().find(|e| eq_icase(&e.key, qemail)) {
        let info = me.namemap.iter().find(|(k, _)| eq_icase(k, qname)).map(|(_, i)| i).unwrap_or(&me.simple);
        if let Some(e) = &info.email {
            email = e.clone();
        }
        if let Some(n) = &info.name {
            name = n.clone();
        }
    }
    (name, email)
}

fn join_lines(lines: &[Vec<u8>]) -> Vec<u8> {
    let mut c = Vec::new();
    for l in lines {
        c.extend_from_slice(l);
        c.push(b'\n');
    }
    c
}

fn gix_resolve(content: &[u8], qn: &[u8], qe: &[u8]) -> (Vec<u8>, Vec<u8>) {
    let snap = gix_mailmap::Snapshot::from_bytes(content);
    let s = snap.resolve(SignatureRef { name: qn.as_bstr(), email: qe.as_bstr(), time: Default::default() });
    (s.name.to_vec(), s.email.to_vec())
}

fn differs(lines: &[Vec<u8>], qn: &[u8], qe: &[u8]) -> bool {
    let model = model_lookup(&model_build(lines), qn, qe);
    gix_resolve(&join_lines(lines), qn, qe) != model
}

/// Reduce (lines, query) to a small mailmap on which gitoxide and the git model still disagree.
fn minimise(lines: &[Vec<u8>], qn: &[u8], qe: &[u8]) -> Option<(Vec<Vec<u8>>, Vec<u8>, Vec<u8>)> {
    let mut cur: Vec<Vec<u8>> = lines.iter().filter(|l| !l.trim().is_empty() && l.first() != Some(&b'#')).cloned().collect();
    if !differs(&cur, qn, qe) {
        return None;
    }
    // first cut: lines whose (trimmed, case-folded) old or new email can concern the query at all
    let related: Vec<Vec<u8>> = cur
        .iter()
        .filter(|l| {
            let g = git_parse_line(l);
            [g.email1, g.email2].iter().flatten().any(|e| eq_icase(e.trim(), qe.trim())) || l.to_str().is_err()
        })
        .cloned()
        .collect();
    if related.len() < cur.len() && differs(&related, qn, qe) {
        cur = related;
    }
    loop {
        let mut changed = false;
        let mut i = 0;
        while i < cur.len() {
            let mut t = cur.clone();
            t.remove(i);
            if differs(&t, qn, qe) {
                cur = t;
                changed = true;
            } else {
                i += 1;
            }
        }
        if !changed {
            break;
        }
    }
    let (mut qn, mut qe) = (qn.to_vec(), qe.to_vec());
    // regularise what is left: drop every irregular feature that is not needed for the disagreement
    let ascii = |b: &[u8]| b.iter().map(|c| if *c >= 0x80 { b'x' } else { *c }).collect::<Vec<u8>>();
    {
        let t: Vec<Vec<u8>> = cur.iter().map(|l| ascii(l)).collect();
        if t != cur && differs(&t, &ascii(&qn), &ascii(&qe)) {
            cur = t;
            qn = ascii(&qn);
            qe = ascii(&qe);
        }
    }
    for i in 0..cur.len() {
        // every step starts from the current state of the line
        for step in 0..4 {
            let l = cur[i].clone();
            let candidate: Option<Vec<u8>> = match step {
                0 => l.iter().rposition(|c| *c == b'>').map(|p| l[..=p].to_vec()), // without trailing text
                1 => l.ends_with(b" <>").then(|| l[..l.len() - 3].to_vec()),
                2 => {
                    let mut t = l.clone();
                    for sp in [&b"\xc2\xa0"[..], b"\x0b", b"\x0c", b"\xe2\x80\x83"] {
                        t = t.replace(sp, b" ");
                    }
                    Some(t)
                }
                _ => {
                    let mut t = l.clone();
                    while t.find("< ").is_some() || t.find(" >").is_some() {
                        t = t.replace("< ", "<").replace(" >", ">");
                    }
                    Some(t)
                }
            };
            if let Some(c) = candidate {
                if c != cur[i] {
                    let mut t = cur.clone();
                    t[i] = c;
                    if differs(&t, &qn, &qe) {
                        cur = t;
                    }
                }
            }
        }
    }
    // simplify the query: use the exact spelling of a remaining line's keys if the disagreement survives
    for l in &cur {
        let g = git_parse_line(l);
        if let Some(old) = g.email2.clone().or(g.email1.clone()) {
            if old != qe && eq_icase(&old, &qe) && differs(&cur, &qn, &old) {
                qe = old;
            }
        }
        if let Some(on) = g.name2 {
            if on != qn && eq_icase(&on, &qn) && differs(&cur, &on, &qe) {
                qn = on;
            }
        }
    }
    Some((cur, qn, qe))
}

fn form_of(g: &GitLine) -> &'static str {
    match (g.name1.is_some(), g.email1.is_some(), g.name2.is_some(), g.email2.is_some()) {
        (true, true, false, false) => "N<e>",
        (false, true, false, false) => "<e>",
        (false, true, false, true) => "<E><e>",
        (true, true, false, true) => "N<E><e>",
        (true, true, true, true) => "N<E>n<e>",
        (false, true, true, true) => "<E>n<e>",
        _ => "?",
    }
}

/// cause tags of a minimised disagreement
fn cause_of(lines: &[Vec<u8>], qn: &[u8], qe: &[u8]) -> Vec<String> {
    let mut tags: BTreeSet<&'static str> = BTreeSet::new();
    let mut simple = 0;
    let mut forms: Vec<&'static str> = Vec::new();
    let (gn, ge) = gix_resolve(&join_lines(lines), qn, qe);
    let (mn, me) = model_lookup(&model_build(lines), qn, qe);
    if ge != me && eq_icase(&ge, &me) && gn == mn {
        // the only difference is the letter case of the email: nothing else can be the cause
        return vec!["email-respelled".to_string()];
    }
    for l in lines {
        let g = git_parse_line(l);
        forms.push(form_of(&g));
        if g.email1.is_some() && g.name2.is_none() {
            simple += 1;
        }
        if g.trailing {
            tags.insert("trailing-text");
        }
        if g.email2.as_ref().is_some_and(|e| e.is_empty()) {
            tags.insert("empty-old-email");
        }
        if [&g.email1, &g.email2].iter().any(|e| e.as_ref().is_some_and(|e| e.trim().len() != e.len())) {
            tags.insert("space-inside-brackets");
        }
        if l.to_str().is_err() {
            tags.insert("non-utf8");
        }
        if l.iter().any(|c| *c == 0x0b || *c == 0x0c) || l.find("\u{a0}").is_some() || l.find("\u{2003}").is_some() {
            tags.insert("unicode-space");
        }
        let (lt, gt) = (l.iter().filter(|c| **c == b'<').count(), l.iter().filter(|c| **c == b'>').count());
        if lt != gt || lt > 2 {
            tags.insert("odd-brackets");
        }
    }
    if simple >= 2 {
        tags.insert("several-simple-entries-for-one-email");
    }
    if tags.contains("non-utf8") {
        // keys that are not UTF-8 are ordered differently from the others in the snapshot's sorted tables, which can
        // surface as any symptom; the witness minimiser keeps such bytes only if the disagreement needs them
        return vec!["non-utf8".to_string()];
    }
    if tags.len() > 1 {
        // a stray bracket matters only through what it does to the rest of the line
        tags.remove("odd-brackets");
    }
    if tags.is_empty() {
        vec![format!("plain:{}", forms.join(","))]
    } else {
        tags.into_iter().map(str::to_string).collect()
    }
}

fn render(name: &[u8], email: &[u8]) -> Vec<u8> {
    let mut v = Vec::new();
    if !name.is_empty() {
        v.extend_from_slice(name);
        v.push(b' ');
    }
    v.push(b'<');
    v.extend_from_slice(email);
    v.push(b'>');
    v
}

fn scenario(ctx: &mut Ctx, r: &mut Rng, dir: &std::path::Path) {
    const FEATURES: &[&str] = &["none", "none", "none", "none", "none", "none", "trailing-text", "empty-old-email", "email-space", "unicode-space", "no-close", "extra-bracket", "non-utf8"];
    let feature: &'static str = *r.pick(FEATURES);
    let pools = gen_pools(r, feature);
    let n_lines = r.usize(41);
    let mut forms: BTreeSet<&'static str> = BTreeSet::new();
    let mut lines: Vec<Vec<u8>> = Vec::new();
    for _ in 0..n_lines {
        lines.push(gen_line(r, &pools, feature, &mut forms));
    }
    let eol: &[u8] = if r.chance(1, 8) { b"\r\n" } else { b"\n" };
    let mut content: Vec<u8> = Vec::new();
    for (i, l) in lines.iter().enumerate() {
        content.extend_from_slice(l);
        if i + 1 < lines.len() || !r.chance(1, 6) {
            content.extend_from_slice(eol);
        }
    }
    // queries
    let mut queries: Vec<(Vec<u8>, Vec<u8>)> = Vec::new();
    let nq = 60;
    for _ in 0..nq {
        let mut name = pools.names[r.usize(pools.names.len())].clone();
        let mut email = pools.emails[r.usize(pools.emails.len())].clone();
        match r.below(10) {
            0 => name = flip_case(r, &name),
            1 => email = flip_case(r, &email),
            2 => {
                name = flip_case(r, &name);
                email = flip_case(r, &email);
            }
            3 => name = b"Absent Person".to_vec(),
            4 => email = b"absent@nowhere.invalid".to_vec(),
            5 => name = Vec::new(),
            6 if feature == "empty-old-email" => email = Vec::new(),
            7 if feature == "email-space" => {
                let mut e = b" ".to_vec();
                e.extend(email);
                if r.bool() {
                    e.push(b' ');
                }
                email = e;
            }
            _ => {}
        }
        queries.push((name, email));
    }
    let file = dir.join("mailmap");
    if std::fs::write(&file, &content).is_err() {
        ctx.inconclusive("cannot write mailmap file");
        return;
    }
    let mut stdin = Vec::new();
    for (n, e) in &queries {
        stdin.extend(render(n, e));
        stdin.push(b'\n');
    }
    let cfg = format!("mailmap.file={}", file.display());
    let out = match git::run_in(dir, &["-c", cfg.as_str(), "check-mailmap", "--stdin"], &stdin) {
        Ok(o) if o.ok => o.stdout,
        Ok(o) => {
            ctx.inconclusive(&format!("git check-mailmap failed: {}", o.err_text().chars().take(160).collect::<String>()));
            return;
        }
        Err(e) => {
            ctx.inconclusive(&format!("git spawn failed: {e}"));
            return;
        }
    };
    ctx.count("git_calls");
    let got_lines: Vec<&[u8]> = out.split(|c| *c == b'\n').collect();
    let got_lines = &got_lines[..got_lines.len().saturating_sub(1)];
    if got_lines.len() != queries.len() {
        ctx.inconclusive(&format!("git check-mailmap printed {} lines for {} queries", got_lines.len(), queries.len()));
        return;
    }
    let snapshot = match guard(|| gix_mailmap::Snapshot::from_bytes(&content)) {
        Ok(s) => s,
        Err(p) => {
            ctx.panic_violation("Snapshot::from_bytes", &p, feature, json!({"mailmap": show(&content)}));
            return;
        }
    };
    ctx.count(&format!("mailmaps_feature_{feature}"));
    let dup_class = {
        // how many distinct old emails (case-folded) occur more than once
        let mut keys: Vec<Vec<u8>> = lines
            .iter()
            .filter_map(|l| {
                let g = git_parse_line(l);
                g.email2.or(g.email1).map(|e| e.to_ascii_lowercase())
            })
            .collect();
        let total = keys.len();
        keys.sort();
        keys.dedup();
        match total - keys.len() {
            0 => "no-dup",
            1..=3 => "few-dup",
            _ => "many-dup",
        }
    };
    let forms_key: Vec<&str> = forms.iter().copied().collect();
    let model = model_build(&lines);
    for ((qn, qe), git_line) in queries.iter().zip(got_lines.iter()) {
        ctx.eval();
        let sig = SignatureRef { name: qn.as_bstr(), email: qe.as_bstr(), time: Default::default() };
        let res = guard(|| (snapshot.resolve(sig), snapshot.try_resolve(sig)));
        let (resolved, tried) = match res {
            Ok(v) => v,
            Err(p) => {
                ctx.panic_violation("Snapshot::resolve", &p, feature, json!({"mailmap": show(&content), "name": show(qn), "email": show(qe)}));
                continue;
            }
        };
        let ours = render(&resolved.name, &resolved.email);
        {
            let (mn, me) = model_lookup(&model, qn, qe);
            if render(&mn, &me).as_slice() != *git_line {
                ctx.count("git_model_differs_from_git");
            }
        }
        let changed = ours != render(qn, qe);
        let qcase = (
            pools.names.iter().any(|n| n == qn),
            pools.emails.iter().any(|e| e == qe),
            changed,
        );
        ctx.distinct((forms_key.clone(), dup_class, qcase, feature));
        ctx.count(if changed { "queries_mapped" } else { "queries_unmapped" });
        // try_resolve must be resolve minus the fallback
        let tried_render = tried.as_ref().map(|s| render(&s.name, &s.email)).unwrap_or_else(|| render(qn, qe));
        if tried_render != ours {
            ctx.violation(
                "self|try_resolve-vs-resolve",
                "try_resolve and resolve disagree",
                json!({"mailmap": show(&content), "query": show(&render(qn, qe)), "resolve": show(&ours), "try_resolve": show(&tried_render)}),
            );
        }
        if ours.as_slice() != *git_line {
            // the git model must reproduce the real git here, otherwise it cannot be used for classification
            let (mname, memail) = model_lookup(&model, qn, qe);
            let model_ok = render(&mname, &memail).as_slice() == *git_line;
            let part = match (mname != resolved.name.as_slice(), memail != resolved.email.as_slice()) {
                (true, true) => "name+email",
                (true, false) => "name",
                (false, true) => "email",
                (false, false) => "rendering",
            };
            let reduced = if model_ok { minimise(&lines, qn, qe) } else { None };
            let (causes, red_json): (Vec<String>, serde_json::Value) = match &reduced {
                Some((rl, rn, re)) => {
                    let (gn, ge) = gix_resolve(&join_lines(rl), rn, re);
                    let (mn, me) = model_lookup(&model_build(rl), rn, re);
                    (
                        cause_of(rl, rn, re),
                        json!({"mailmap": show(&join_lines(rl)), "query": show(&render(rn, re)), "gix": show(&render(&gn, &ge)), "git_model": show(&render(&mn, &me))}),
                    )
                }
                None => {
                    ctx.count("disagreements_not_minimised");
                    (vec![format!("unminimised|{part}")], json!(null))
                }
            };
            ctx.count("disagreements");
            if causes.len() > 1 {
                ctx.count("disagreements_with_several_causes");
            }
            // one signature per cause (a witness needing two causes is filed under both)
            for cause in &causes {
                ctx.violation(
                    &format!("git-diff|{cause}"),
                    "Snapshot::resolve differs from git check-mailmap",
                    json!({"minimal": red_json, "causes": causes, "differs_in": part, "query": show(&render(qn, qe)), "gix": show(&ours), "git": show(git_line), "feature": feature, "mailmap": show(&content)}),
                );
            }
        } else {
            ctx.count("agreed");
        }
        if ctx.want_sample() {
            ctx.sample(json!({"mailmap_lines": lines.len(), "feature": feature, "query": show(&render(qn, qe)), "git": show(git_line), "gix": show(&ours)}));
        }
    }
}

pub fn run(ctx: &mut Ctx) {
    ctx.rule(
        "case = one mailmap (0..40 lines: the four mapping forms + email-by-name+email + email-only, comments, blank lines, \
         extra whitespace, CRLF, duplicates and case variants drawn from small name/email pools; at most one irregular syntax \
         feature per mailmap: trailing text, `<>`, spaces inside brackets, unicode/VT/FF whitespace, missing '>', stray bracket, \
         non-UTF-8 bytes) x 60 queries (pool members, case-flipped, absent, empty name); every query is one evaluation against \
         git check-mailmap; distinct = (set of entry forms, duplicate class, query class (name known, email known, mapped), feature)",
    );
    ctx.assume("query names carry no leading/trailing whitespace and no angle brackets (git check-mailmap's contact syntax); lines stay below git's 1024-byte line buffer");
    let dir = ctx.dir("repo");
    if let Err(e) = git::init(&dir, true) {
        ctx.inconclusive(&format!("git init failed: {e}"));
        return;
    }
    let n = ctx.n(60, 2_000);
    ctx.cases("mailmap", n, |ctx, r| scenario(ctx, r, &dir));
}
