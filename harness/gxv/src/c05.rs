//! C05 Object ids, hex forms and prefixes are consistent.
//! Oracle: string-prefix model on lower-case hex.
use crate::fw::{guard, hex, Ctx, Rng};
use gix_hash::{ObjectId, Prefix};
use serde_json::json;
use std::cmp::Ordering;

pub fn child(_mode: &str) {}

fn rand_id(r: &mut Rng) -> ObjectId {
    let mut b = [0u8; 20];
    match r.below(6) {
        0 => {}
        1 => b = [0xff; 20],
        _ => {
            for x in b.iter_mut() {
                *x = r.next_u64() as u8;
            }
        }
    }
    ObjectId::from(b)
}

fn flip_nibble(id: &ObjectId, pos: usize, r: &mut Rng) -> ObjectId {
    let mut b = [0u8; 20];
    b.copy_from_slice(id.as_bytes());
    let delta = 1 + r.below(15) as u8;
    if pos % 2 == 0 {
        let hi = (b[pos / 2] >> 4).wrapping_add(delta) & 0xf;
        b[pos / 2] = (hi << 4) | (b[pos / 2] & 0xf);
    } else {
        let lo = (b[pos / 2] & 0xf).wrapping_add(delta) & 0xf;
        b[pos / 2] = (b[pos / 2] & 0xf0) | lo;
    }
    ObjectId::from(b)
}

fn model_cmp(prefix_hex: &str, candidate_hex: &str) -> Ordering {
    let n = prefix_hex.len();
    prefix_hex.as_bytes().cmp(&candidate_hex.as_bytes()[..n])
}

pub fn run(ctx: &mut Ctx) {
    ctx.rule("case = (id, prefix length n, candidate differing at nibble p) or a hex string; distinct by (n, parity, sign(p-n) and p bucket, source=cut|parsed|hexstr class)");
    let n_cases = ctx.n(20_000, 2_000_000);
    // 1. ids round-trip through hex; prefixes cut from ids
    ctx.cases("id-prefix", n_cases, |ctx, r| {
        let id = rand_id(r);
        ctx.eval();
        let h = id.to_hex().to_string();
        if h != hex(id.as_bytes()) {
            ctx.violation("hex|to_hex-differs-from-bytes", "to_hex disagrees with byte-wise hex", json!({"id": hex(id.as_bytes()), "to_hex": h}));
        }
        match ObjectId::from_hex(h.as_bytes()) {
            Ok(back) if back == id => {}
            other => ctx.violation("hex|roundtrip", "from_hex(to_hex(id)) != id", json!({"id": h, "got": format!("{:?}", other)})),
        }
        let upper = h.to_uppercase();
        match ObjectId::from_hex(upper.as_bytes()) {
            Ok(back) if back == id => {}
            other => ctx.violation("hex|roundtrip-upper", "from_hex(upper hex) != id", json!({"id": upper, "got": format!("{:?}", other)})),
        }
        let n = r.range(4, 40) as usize;
        let from_text = r.bool();
        let prefix = if from_text {
            let t = if r.bool() { h[..n].to_string() } else { h[..n].to_uppercase() };
            match Prefix::from_hex(&t) {
                Ok(p) => p,
                Err(e) => {
                    ctx.violation("prefix|from_hex-rejects-valid", "Prefix::from_hex rejected a valid hex prefix", json!({"text": t, "err": e.to_string()}));
                    return;
                }
            }
        } else {
            match Prefix::new(&id, n) {
                Ok(p) => p,
                Err(e) => {
                    ctx.violation("prefix|new-rejects-valid", "Prefix::new rejected valid length", json!({"id": h, "n": n, "err": e.to_string()}));
                    return;
                }
            }
        };
        if prefix.hex_len() != n {
            ctx.violation("prefix|hex_len", "hex_len differs from requested", json!({"id": h, "n": n, "got": prefix.hex_len()}));
        }
        let shown = prefix.to_string();
        if shown != h[..n] {
            ctx.violation("prefix|display", "prefix does not print back as its n digits", json!({"id": h, "n": n, "display": shown, "from_text": from_text}));
        }
        // candidate: same id, or differing in one nibble at position p
        let p = match r.below(4) {
            0 => n.saturating_sub(1),
            1 => n.min(39),
            2 => (n + 1).min(39),
            _ => r.usize(40),
        };
        let cand = if r.chance(1, 8) { id } else { flip_nibble(&id, p, r) };
        let ch = hex(cand.as_bytes());
        let want = model_cmp(&h[..n], &ch);
        let got = prefix.cmp_oid(&cand);
        ctx.distinct((n, n % 2, (p as i64 - n as i64).signum(), p / 8, from_text, want));
        if got != want {
            ctx.violation(
                "prefix|cmp_oid",
                "cmp_oid disagrees with string-prefix comparison",
                json!({"prefix": &h[..n], "candidate": ch, "want": format!("{want:?}"), "got": format!("{got:?}"), "from_text": from_text}),
            );
        }
        if ctx.want_sample() {
            ctx.sample(json!({"prefix": &h[..n], "candidate": ch, "diff_nibble": p, "cmp": format!("{got:?}")}));
        }
    });
    // 2. arbitrary hex-ish strings: must never panic; valid ones obey the model
    let n_str = ctx.n(20_000, 1_000_000);
    ctx.cases("hex-strings", n_str, |ctx, r| {
        let len = r.usize(46);
        let alphabet: &[u8] = if r.chance(1, 5) { b"0123456789abcdefABCDEFgG xz-\x00\xff" } else { b"0123456789abcdefABCDEF" };
        let s = r.bytes_from(len, alphabet);
        ctx.eval();
        let all_hex = s.iter().all(|c| c.is_ascii_hexdigit());
        let text = String::from_utf8_lossy(&s).to_string();
        let is_utf8 = std::str::from_utf8(&s).is_ok();
        let res_id = guard(|| ObjectId::from_hex(&s));
        match res_id {
            Err(p) => ctx.panic_violation("ObjectId::from_hex", &p, "hexstr", json!({"input": crate::fw::show(&s)})),
            Ok(r_id) => {
                let should = all_hex && len == 40;
                if r_id.is_ok() != should {
                    ctx.violation("hex|from_hex-acceptance", "ObjectId::from_hex acceptance differs from (40 hex digits)", json!({"input": crate::fw::show(&s), "ok": r_id.is_ok()}));
                }
            }
        }
        if is_utf8 {
            let t = text.clone();
            match guard(|| Prefix::from_hex(&t)) {
                Err(p) => ctx.panic_violation("Prefix::from_hex", &p, "hexstr", json!({"input": text})),
                Ok(res) => {
                    let should = all_hex && (4..=40).contains(&len);
                    ctx.distinct(("hexstr", len, all_hex, res.is_ok()));
                    if res.is_ok() != should {
                        ctx.violation("prefix|from_hex-acceptance", "Prefix::from_hex acceptance differs from (4..=40 hex digits)", json!({"input": text, "ok": res.is_ok()}));
                    } else if let Ok(p) = res {
                        let lower = text.to_lowercase();
                        if p.to_string() != lower || p.hex_len() != len {
                            ctx.violation("prefix|display-parsed", "parsed prefix does not print back as its digits", json!({"input": text, "display": p.to_string()}));
                        }
                        // the id padded with zeros must compare equal; bumping a nibble inside must not
                        let mut padded = lower.clone();
                        while padded.len() < 40 {
                            padded.push(if r.bool() { '0' } else { 'f' });
                        }
                        let cand = ObjectId::from_hex(padded.as_bytes()).unwrap();
                        if p.cmp_oid(&cand) != Ordering::Equal {
                            ctx.violation("prefix|cmp_oid-parsed", "parsed prefix does not match an id starting with its digits", json!({"input": text, "candidate": padded}));
                        }
                        let pos = r.usize(len);
                        let other = flip_nibble(&cand, pos, r);
                        let oh = hex(other.as_bytes());
                        let want = model_cmp(&lower, &oh);
                        if p.cmp_oid(&other) != want {
                            ctx.violation("prefix|cmp_oid-parsed", "parsed prefix comparison disagrees with string comparison", json!({"input": text, "candidate": oh, "want": format!("{want:?}")}));
                        }
                    }
                }
            }
        }
    });
    // 3. Prefix::new length domain
    for n in 0..=45usize {
        let id = ObjectId::from([0x5a; 20]);
        ctx.eval();
        match guard(|| Prefix::new(&id, n)) {
            Err(p) => ctx.panic_violation("Prefix::new", &p, "length", json!({"n": n})),
            Ok(res) => {
                if res.is_ok() != (4..=40).contains(&n) {
                    ctx.violation("prefix|new-length-domain", "Prefix::new length domain is not 4..=40", json!({"n": n, "ok": res.is_ok()}));
                }
            }
        }
    }
}
