//! C56 Streaming compression and hashing do not depend on chunking.
//!
//! Part "deflate": random data is pushed through `gix_features::zlib::stream::deflate::Write` in a random
//! sequence of write sizes (empty writes, 1-byte writes, sizes around the 32 KiB internal buffer, raw `write`
//! and `write_all`), optionally as several streams separated by `flush(); reset()`. The produced bytes are
//! inflated by (a) an independent inflater: a persistent `/usr/bin/python3` process using the system zlib +
//! hashlib, (b) flate2 in-process, (c) gitoxide's own `zlib::stream::inflate::read` fed with choppy buffers.
//! Each stream must inflate to exactly its input, end where the next one starts, with no trailing bytes.
//!
//! Part "hash": for (kind, bytes) the ids from `compute_hash`, `compute_stream_hash` (reader with short reads and
//! `Interrupted`), `hash::Write` over a chunk-fed `deflate::Write`, `hash::bytes`, `gix_odb::sink` (compressing),
//! and `gix_odb::loose::Store::{write_buf,write_stream}` must all equal sha1("<kind> <len>\0" + bytes) computed by
//! python hashlib; loose objects are additionally read back through a persistent `git cat-file --batch`
//! (git's zlib) and `git fsck` (git's sha1) at the end.
use crate::fw::{self, guard, Ctx, Rng};
use gix_features::zlib::stream::deflate;
use gix_odb::Write as _;
use serde_json::{json, Value};
use std::io::{BufRead, BufReader, Read, Write};
use std::process::{Child, ChildStdin, ChildStdout, Command, Stdio};
use std::sync::atomic::AtomicBool;

pub fn child(_mode: &str) {}

const BUF: usize = 32 * 1024; // deflate::BUF_SIZE

const PY_SERVER: &str = r#"
import sys, zlib, hashlib
i = sys.stdin.buffer
o = sys.stdout.buffer
while True:
    line = i.readline()
    if not line:
        break
    cmd, n = line.split()
    n = int(n)
    data = i.read(n) if n else b''
    if cmd == b'H':
        o.write(hashlib.sha1(data).hexdigest().encode() + b'\n')
    else:
        res = []
        pos = 0
        try:
            while True:
                d = zlib.decompressobj()
                out = d.decompress(data[pos:])
                out += d.flush()
                if not d.eof:
                    res.append('TRUNCATED@%d' % pos)
                    break
                res.append('%d:%s' % (len(out), hashlib.sha1(out).hexdigest()))
                pos = len(data) - len(d.unused_data)
                if pos >= len(data):
                    break
        except zlib.error as e:
            res.append('ERROR:' + str(e).replace(' ', '_'))
        o.write(' '.join(res).encode() + b'\n')
    o.flush()
"#;

/// persistent independent inflater/hasher
struct Py {
    child: Child,
    stdin: ChildStdin,
    stdout: BufReader<ChildStdout>,
}
impl Py {
    fn start(dir: &std::path::Path) -> Result<Py, String> {
        let script = dir.join("server.py");
        std::fs::write(&script, PY_SERVER).map_err(|e| e.to_string())?;
        let mut child = Command::new("/usr/bin/python3")
            .env_clear()
            .env("PATH", "/usr/bin:/bin")
            .arg("-u")
            .arg(&script)
            .stdin(Stdio::piped())
            .stdout(Stdio::piped())
            .stderr(Stdio::null())
            .spawn()
            .map_err(|e| format!("python3 spawn failed: {e}"))?;
        let stdin = child.stdin.take().unwrap();
        let stdout = BufReader::new(child.stdout.take().unwrap());
        Ok(Py { child, stdin, stdout })
    }
    fn ask(&mut self, cmd: &str, data: &[u8]) -> Result<String, String> {
        self.stdin
            .write_all(format!("{} {}\n", cmd, data.len()).as_bytes())
            .and_then(|_| self.stdin.write_all(data))
            .and_then(|_| self.stdin.flush())
            .map_err(|e| format!("python pipe write: {e}"))?;
        let mut line = String::new();
        let n = self.stdout.read_line(&mut line).map_err(|e| format!("python pipe read: {e}"))?;
        if n == 0 {
            return Err("python server closed its output".into());
        }
        Ok(line.trim_end().to_string())
    }
    fn sha1(&mut self, data: &[u8]) -> Result<String, String> {
        self.ask("H", data)
    }
    /// one "len:sha1" per zlib stream found back to back in `data`
    fn inflate(&mut self, data: &[u8]) -> Result<Vec<String>, String> {
        Ok(self.ask("Z", data)?.split(' ').map(str::to_string).collect())
    }
}
impl Drop for Py {
    fn drop(&mut self) {
        let _ = self.child.kill();
        let _ = self.child.wait();
    }
}

/// persistent `git cat-file --batch`
struct CatFile {
    child: Child,
    stdin: ChildStdin,
    stdout: BufReader<ChildStdout>,
}
impl CatFile {
    fn start(repo: &std::path::Path) -> Result<CatFile, String> {
        let mut child = fw::git::cmd()
            .current_dir(repo)
            .args(["cat-file", "--batch"])
            .stdin(Stdio::piped())
            .stdout(Stdio::piped())
            .stderr(Stdio::null())
            .spawn()
            .map_err(|e| format!("git spawn failed: {e}"))?;
        let stdin = child.stdin.take().unwrap();
        let stdout = BufReader::new(child.stdout.take().unwrap());
        Ok(CatFile { child, stdin, stdout })
    }
    /// Ok(Some((type, content))) / Ok(None) when git reports it missing
    fn get(&mut self, hex: &str) -> Result<Option<(String, Vec<u8>)>, String> {
        self.stdin
            .write_all(format!("{hex}\n").as_bytes())
            .and_then(|_| self.stdin.flush())
            .map_err(|e| format!("cat-file pipe write: {e}"))?;
        let mut line = String::new();
        let n = self.stdout.read_line(&mut line).map_err(|e| format!("cat-file pipe read: {e}"))?;
        if n == 0 {
            return Err("git cat-file --batch died".into());
        }
        let parts: Vec<&str> = line.trim_end().split(' ').collect();
        if parts.len() == 2 && parts[1] == "missing" {
            return Ok(None);
        }
        if parts.len() != 3 {
            return Err(format!("unexpected cat-file answer: {line:?}"));
        }
        let size: usize = parts[2].parse().map_err(|_| format!("bad size in {line:?}"))?;
        let mut buf = vec![0u8; size + 1];
        self.stdout.read_exact(&mut buf).map_err(|e| format!("cat-file content read: {e}"))?;
        buf.pop();
        Ok(Some((parts[1].to_string(), buf)))
    }
}
impl Drop for CatFile {
    fn drop(&mut self) {
        let _ = self.child.kill();
        let _ = self.child.wait();
    }
}

// ------------------------------------------------------------------ generators

fn gen_size(r: &mut Rng, thorough: bool) -> (usize, &'static str) {
    let big_w = if thorough { 3 } else { 1 };
    let w = r.below(100);
    if w < 3 {
        (0, "0")
    } else if w < 15 {
        (r.range(1, 64) as usize, "tiny")
    } else if w < 38 {
        (r.range(65, 4096) as usize, "small")
    } else if w < 65 {
        // around k * 32 KiB +- 2, k = 1..4
        let k = r.range(1, 4) as usize;
        ((k * BUF) + r.range(0, 4) as usize - 2, "k*32K±2,k<=4")
    } else if w < 72 {
        let k = r.range(5, 16) as usize;
        ((k * BUF) + r.range(0, 4) as usize - 2, "k*32K±2,k<=16")
    } else if w < 92 {
        (r.range(4097, 3 * BUF as i64) as usize, "<96K")
    } else if w < 100 - big_w {
        (r.range(3 * BUF as i64, 16 * BUF as i64) as usize, "<512K")
    } else {
        (r.range(1 << 20, 4 << 20) as usize, "1-4M")
    }
}

fn fast_fill(r: &mut Rng, out: &mut Vec<u8>, len: usize) {
    let end = out.len() + len;
    while out.len() < end {
        let v = r.next_u64().to_le_bytes();
        let take = (end - out.len()).min(8);
        out.extend_from_slice(&v[..take]);
    }
}

const WORDS: &[&str] = &["tree ", "parent ", "author ", "committer ", "the ", "quick ", "fn ", "let ", "0123456789abcdef", "\n", "    ", "gitoxide ", "zlib ", "\0", "100644 ", "é"];

fn gen_data(r: &mut Rng, len: usize) -> (Vec<u8>, &'static str) {
    let mut d = Vec::with_capacity(len);
    let class = match r.below(7) {
        0 => {
            d.resize(len, 0);
            "zeros"
        }
        1 => {
            // long runs of varying bytes
            while d.len() < len {
                let b = r.next_u64() as u8;
                let n = (r.range(1, 70_000) as usize).min(len - d.len());
                d.resize(d.len() + n, b);
            }
            "runs"
        }
        2 => {
            while d.len() < len {
                d.extend_from_slice(r.pick(WORDS).as_bytes());
            }
            d.truncate(len);
            "text"
        }
        3 => {
            fast_fill(r, &mut d, len);
            "random"
        }
        4 => {
            // a random block repeated with a period around the 32 KiB window
            let period = *r.pick(&[1usize, 2, 3, 255, 258, 259, 4096, BUF - 1, BUF, BUF + 1, 2 * BUF]);
            let mut block = Vec::new();
            fast_fill(r, &mut block, period.min(len.max(1)));
            while d.len() < len {
                let n = block.len().min(len - d.len());
                d.extend_from_slice(&block[..n]);
            }
            "periodic"
        }
        5 => {
            // alternating compressible / incompressible regions
            while d.len() < len {
                let n = (r.range(1, 50_000) as usize).min(len - d.len());
                if r.bool() {
                    fast_fill(r, &mut d, n);
                } else {
                    let b = r.next_u64() as u8;
                    d.resize(d.len() + n, b);
                }
            }
            "mixed"
        }
        _ => {
            // low-entropy alphabet
            let alpha = r.range(2, 6) as u64;
            while d.len() < len {
                let mut v = r.next_u64();
                for _ in 0..16 {
                    if d.len() < len {
                        d.push(b'a' + (v % alpha) as u8);
                        v /= alpha;
                    }
                }
            }
            "low-entropy"
        }
    };
    (d, class)
}

/// a sequence of write sizes covering `len` (zeros are empty writes)
fn gen_chunks(r: &mut Rng, len: usize) -> (Vec<usize>, &'static str) {
    let mut v = Vec::new();
    let mut left = len;
    let around: [usize; 11] = [BUF - 2, BUF - 1, BUF, BUF + 1, BUF + 2, 2 * BUF - 1, 2 * BUF, 2 * BUF + 1, 65535, BUF / 2, 3 * BUF + 1];
    let push = |v: &mut Vec<usize>, left: &mut usize, n: usize| {
        let n = n.min(*left);
        v.push(n);
        *left -= n;
    };
    let class = match r.below(7) {
        0 => {
            push(&mut v, &mut left, len);
            "single"
        }
        1 => {
            // 1-byte writes (bounded: the rest goes in one piece, then a 1-byte tail)
            let ones = left.min(20_000);
            for _ in 0..ones {
                push(&mut v, &mut left, 1);
            }
            if left > 0 {
                let tail = left.min(300);
                let mid = left - tail;
                push(&mut v, &mut left, mid);
                for _ in 0..tail {
                    push(&mut v, &mut left, 1);
                }
            }
            "1-byte"
        }
        2 => {
            while left > 0 {
                let n = *r.pick(&around);
                push(&mut v, &mut left, n);
            }
            "around-32K"
        }
        3 => {
            let max = *r.pick(&[7usize, 100, 5000, 70_000, 1 << 20]);
            while left > 0 {
                if r.chance(1, 4) {
                    v.push(0);
                }
                let n = r.range(0, max as i64) as usize;
                push(&mut v, &mut left, n);
                if v.len() > 60_000 {
                    push(&mut v, &mut left, usize::MAX);
                }
            }
            "random+empty"
        }
        4 => {
            let mut n = 1usize;
            while left > 0 {
                push(&mut v, &mut left, n);
                n = n * 2 + r.below(2) as usize;
            }
            "doubling"
        }
        5 => {
            // everything but the last few bytes, then dribble
            let tail = r.range(1, 5) as usize;
            if left > tail {
                let n = left - tail;
                push(&mut v, &mut left, n);
            }
            while left > 0 {
                push(&mut v, &mut left, 1);
                v.push(0);
            }
            "bulk+dribble"
        }
        _ => {
            while left > 0 {
                let n = match r.below(5) {
                    0 => 0,
                    1 => 1,
                    2 => *r.pick(&around),
                    3 => r.range(0, 300) as usize,
                    _ => r.range(0, 200_000) as usize,
                };
                push(&mut v, &mut left, n);
                if v.len() > 60_000 {
                    push(&mut v, &mut left, usize::MAX);
                }
            }
            "mix"
        }
    };
    if r.chance(1, 3) {
        v.push(0); // trailing empty write
    }
    if r.chance(1, 6) {
        v.insert(0, 0); // leading empty write
    }
    (v, class)
}

/// feed `data` to `w` in the given chunk sizes. raw=true uses `write` and follows its return value.
/// Err(Some(sig_class, text)) on a contract problem, Err(None) never.
fn feed<W: Write>(w: &mut W, data: &[u8], chunks: &[usize], raw: bool) -> Result<(), (String, String)> {
    let mut pos = 0;
    for &c in chunks {
        let piece = &data[pos..pos + c];
        pos += c;
        if raw {
            let mut rest = piece;
            let mut empty_done = false;
            while !rest.is_empty() || (piece.is_empty() && !empty_done) {
                empty_done = true;
                match w.write(rest) {
                    Ok(n) if n > rest.len() => {
                        return Err(("write-returned-more-than-given".into(), format!("write({}) returned {}", rest.len(), n)))
                    }
                    Ok(0) if !rest.is_empty() => {
                        return Err(("write-returned-zero".into(), format!("write of {} bytes returned Ok(0) at offset {}", rest.len(), pos - rest.len())))
                    }
                    Ok(n) => rest = &rest[n..],
                    Err(e) => return Err(("write-error".into(), format!("write failed: {e}"))),
                }
            }
        } else if let Err(e) = w.write_all(piece) {
            return Err(("write-error".into(), format!("write_all failed: {e}")));
        }
    }
    debug_assert_eq!(pos, data.len());
    Ok(())
}

/// in-process inflate of one zlib stream starting at input[0]; returns (output, consumed)
fn inflate_one(input: &[u8], cap_hint: usize) -> Result<(Vec<u8>, usize), String> {
    let mut d = flate2::Decompress::new(true);
    let mut out: Vec<u8> = Vec::with_capacity(cap_hint + 64);
    loop {
        let before_in = d.total_in();
        let before_out = d.total_out();
        if out.capacity() == out.len() {
            out.reserve(64 * 1024);
        }
        let st = d
            .decompress_vec(&input[d.total_in() as usize..], &mut out, flate2::FlushDecompress::None)
            .map_err(|e| format!("inflate error: {e}"))?;
        match st {
            flate2::Status::StreamEnd => return Ok((out, d.total_in() as usize)),
            _ => {
                if d.total_in() == before_in && d.total_out() == before_out && out.capacity() > out.len() {
                    return Err(format!("truncated stream after {} input bytes", d.total_in()));
                }
            }
        }
    }
}

/// BufRead handing out the underlying bytes in pre-drawn piece sizes
struct ChoppyBuf<'a> {
    data: &'a [u8],
    pos: usize,
    sizes: Vec<usize>,
    i: usize,
}
impl Read for ChoppyBuf<'_> {
    fn read(&mut self, out: &mut [u8]) -> std::io::Result<usize> {
        let avail = self.fill_buf()?;
        let n = avail.len().min(out.len());
        out[..n].copy_from_slice(&avail[..n]);
        self.consume(n);
        Ok(n)
    }
}
impl BufRead for ChoppyBuf<'_> {
    fn fill_buf(&mut self) -> std::io::Result<&[u8]> {
        let n = self.sizes[self.i % self.sizes.len()].max(1).min(self.data.len() - self.pos);
        Ok(&self.data[self.pos..self.pos + n])
    }
    fn consume(&mut self, amt: usize) {
        self.pos += amt;
        self.i += 1;
    }
}

/// Read yielding short reads and `Interrupted` errors
struct ChoppyRead<'a> {
    data: &'a [u8],
    pos: usize,
    plan: Vec<u32>, // 0 = Interrupted, n = at most n bytes
    i: usize,
    pub interrupts: u64,
    pub shorts: u64,
}
impl<'a> ChoppyRead<'a> {
    fn new(r: &mut Rng, data: &'a [u8]) -> Self {
        let style = r.below(4);
        let plan: Vec<u32> = (0..r.range(1, 24))
            .map(|_| match style {
                0 => u32::MAX,
                1 => {
                    if r.chance(1, 3) {
                        0
                    } else {
                        r.range(1, 70_000) as u32
                    }
                }
                2 => *r.pick(&[0u32, 1, 2, 65534, 65535, 65536, 32768, 4096]),
                _ => {
                    if r.chance(1, 5) {
                        0
                    } else {
                        r.range(1, 9) as u32
                    }
                }
            })
            .collect();
        // style 3 on large data would take forever: only a prefix dribbles
        ChoppyRead { data, pos: 0, plan, i: 0, interrupts: 0, shorts: 0 }
    }
}
impl Read for ChoppyRead<'_> {
    fn read(&mut self, out: &mut [u8]) -> std::io::Result<usize> {
        let mut p = self.plan[self.i % self.plan.len()];
        self.i += 1;
        if self.i > 20_000 {
            p = u32::MAX;
        }
        if p == 0 {
            self.interrupts += 1;
            return Err(std::io::Error::new(std::io::ErrorKind::Interrupted, "EINTR"));
        }
        let n = (p as usize).min(out.len()).min(self.data.len() - self.pos);
        if n < out.len() && self.pos + n < self.data.len() {
            self.shorts += 1;
        }
        out[..n].copy_from_slice(&self.data[self.pos..self.pos + n]);
        self.pos += n;
        Ok(n)
    }
}

fn chunk_summary(chunks: &[usize]) -> Value {
    if chunks.len() <= 24 {
        json!(chunks)
    } else {
        json!({"n": chunks.len(), "first": &chunks[..12], "last": &chunks[chunks.len() - 6..], "empties": chunks.iter().filter(|c| **c == 0).count()})
    }
}

// ------------------------------------------------------------------ part deflate

fn deflate_case(ctx: &mut Ctx, r: &mut Rng, py: &mut Option<Py>) {
    let thorough = !ctx.quick();
    let nseg = match r.below(10) {
        0..=6 => 1,
        7 | 8 => 2,
        _ => 3,
    };
    let mut segs: Vec<(Vec<u8>, Vec<usize>, &str, &str, &str)> = Vec::new();
    for _ in 0..nseg {
        let (len, sc) = gen_size(r, thorough);
        // keep multi-stream cases moderate
        let len = if nseg > 1 { len.min(600_000) } else { len };
        let (data, dc) = gen_data(r, len);
        let (chunks, cc) = gen_chunks(r, len);
        segs.push((data, chunks, sc, dc, cc));
    }
    let raw = r.bool();
    let extra_flush = r.chance(1, 5); // flush twice at the end of a stream: must not add bytes that break the framing
    let witness = |segs: &Vec<(Vec<u8>, Vec<usize>, &str, &str, &str)>| -> Value {
        json!({"raw_write": raw, "streams": segs.iter().map(|s| json!({"len": s.0.len(), "size_class": s.2, "data_class": s.3, "chunk_class": s.4, "chunks": chunk_summary(&s.1), "data_sha1": fw::sha1_hex(&s.0)})).collect::<Vec<_>>()})
    };

    // --- run the writer
    let res = guard(|| -> Result<Vec<u8>, (String, String)> {
        let mut w = deflate::Write::new(Vec::new());
        for (i, (data, chunks, ..)) in segs.iter().enumerate() {
            if i > 0 {
                w.reset();
            }
            feed(&mut w, data, chunks, raw)?;
            w.flush().map_err(|e| ("flush-error".to_string(), format!("flush failed: {e}")))?;
            if extra_flush && i + 1 == segs.len() {
                w.flush().map_err(|e| ("second-flush-error".to_string(), format!("second flush failed: {e}")))?;
            }
        }
        Ok(w.into_inner())
    });
    ctx.eval();
    let (s0, d0, c0) = (segs[0].2, segs[0].3, segs[0].4);
    ctx.distinct((s0, d0, c0, nseg, raw));
    ctx.count(&format!("chunking:{c0}"));
    ctx.count(&format!("size:{s0}"));
    ctx.count(&format!("data:{d0}"));
    if nseg > 1 {
        ctx.count("multi_stream_cases(flush+reset)");
    }
    ctx.count_n("writes", segs.iter().map(|s| s.1.len() as u64).sum());
    ctx.count_n("empty_writes", segs.iter().map(|s| s.1.iter().filter(|c| **c == 0).count() as u64).sum());
    ctx.count_n("input_bytes", segs.iter().map(|s| s.0.len() as u64).sum());
    let out = match res {
        Err(p) => {
            ctx.panic_violation("deflate::Write", &p, "write", witness(&segs));
            return;
        }
        Ok(Err((class, text))) => {
            ctx.violation(&format!("deflate|{class}"), &text, witness(&segs));
            return;
        }
        Ok(Ok(out)) => out,
    };
    ctx.count_n("deflated_bytes", out.len() as u64);

    // --- (b) in-process inflate, stream by stream
    let mut pos = 0usize;
    let mut ok = true;
    for (i, (data, _, _, dc, _)) in segs.iter().enumerate() {
        match inflate_one(&out[pos..], data.len()) {
            Err(e) => {
                ctx.violation(
                    "deflate|output-is-not-a-complete-zlib-stream",
                    &format!("stream {i} produced by deflate::Write is not a complete zlib stream: {e}"),
                    witness(&segs),
                );
                ok = false;
                break;
            }
            Ok((back, used)) => {
                if back != *data {
                    let at = back.iter().zip(data.iter()).position(|(a, b)| a != b).unwrap_or(back.len().min(data.len()));
                    ctx.violation(
                        "deflate|inflated-differs-from-input",
                        &format!("stream {i}: inflated {} bytes, input {} bytes, first difference at {at} (data class {dc})", back.len(), data.len()),
                        witness(&segs),
                    );
                    ok = false;
                    break;
                }
                pos += used;
            }
        }
    }
    if ok && pos != out.len() {
        ctx.violation(
            "deflate|trailing-bytes-after-stream-end",
            &format!("{} bytes follow the end of the last zlib stream (extra_flush={extra_flush})", out.len() - pos),
            witness(&segs),
        );
        ok = false;
    }
    if !ok {
        return;
    }

    // --- (a) independent inflater + hash
    if let Some(p) = py.as_mut() {
        match p.inflate(&out) {
            Err(e) => {
                ctx.inconclusive(&format!("python inflater unavailable: {e}"));
                *py = None;
            }
            Ok(answers) => {
                ctx.count("python_zlib_inflations");
                let want: Vec<String> = segs.iter().map(|s| format!("{}:{}", s.0.len(), fw::sha1_hex(&s.0))).collect();
                if answers != want {
                    ctx.violation(
                        "deflate|python-zlib-disagrees",
                        &format!("system zlib inflates the output to {answers:?}, input was {want:?}"),
                        witness(&segs),
                    );
                    return;
                }
            }
        }
    }

    // --- (c) gitoxide's streaming inflate with choppy input and output buffers (first stream)
    {
        let data = &segs[0].0;
        let sizes: Vec<usize> = (0..r.range(1, 12)).map(|_| *r.pick(&[1usize, 2, 3, 7, 100, 4095, 4096, 8192, BUF, usize::MAX])).collect();
        let dsts: Vec<usize> = (0..r.range(1, 8)).map(|_| *r.pick(&[1usize, 2, 13, 1000, 4096, BUF - 1, BUF, BUF + 1, 1 << 20])).collect();
        // avoid quadratic work: tiny destination buffers only for small data
        let min_dst = (data.len() / 20_000).max(1);
        let mut rd = ChoppyBuf { data: &out, pos: 0, sizes, i: 0 };
        let res = guard(|| -> Result<Vec<u8>, String> {
            let mut state = flate2::Decompress::new(true);
            let mut back = vec![0u8; data.len() + 16];
            let mut filled = 0;
            let mut k = 0;
            loop {
                let want = dsts[k % dsts.len()].max(min_dst).min(back.len() - filled);
                k += 1;
                let n = gix_features::zlib::stream::inflate::read(&mut rd, &mut state, &mut back[filled..filled + want]).map_err(|e| e.to_string())?;
                filled += n;
                if n == 0 || filled == back.len() {
                    break;
                }
            }
            back.truncate(filled);
            Ok(back)
        });
        ctx.count("gix_inflate_read_roundtrips");
        match res {
            Err(p) => ctx.panic_violation("zlib::stream::inflate::read", &p, "own-output", witness(&segs)),
            Ok(Err(e)) => ctx.violation("inflate-read|error-on-own-output", &format!("inflate::read failed on deflate::Write output: {e}"), witness(&segs)),
            Ok(Ok(back)) => {
                if back != *data {
                    ctx.violation(
                        "inflate-read|differs-from-input",
                        &format!("inflate::read returned {} bytes, input had {}", back.len(), data.len()),
                        witness(&segs),
                    );
                }
            }
        }
    }

    // --- a second chunking of the same data: must inflate to the same (checked above by equality with the input);
    // only note whether the compressed bytes are chunking dependent (allowed).
    if nseg == 1 && segs[0].0.len() <= 600_000 && r.chance(1, 2) {
        let data = &segs[0].0;
        let (chunks2, cc2) = gen_chunks(r, data.len());
        let res = guard(|| -> Result<Vec<u8>, (String, String)> {
            let mut w = deflate::Write::new(Vec::new());
            feed(&mut w, data, &chunks2, !raw)?;
            w.flush().map_err(|e| ("flush-error".to_string(), format!("flush failed: {e}")))?;
            Ok(w.into_inner())
        });
        ctx.eval();
        let w2 = json!({"raw_write": !raw, "first": witness(&segs), "chunk_class": cc2, "chunks": chunk_summary(&chunks2)});
        match res {
            Err(p) => ctx.panic_violation("deflate::Write", &p, "write", w2),
            Ok(Err((class, text))) => ctx.violation(&format!("deflate|{class}"), &text, w2),
            Ok(Ok(out2)) => match inflate_one(&out2, data.len()) {
                Ok((back, used)) if back == *data && used == out2.len() => {
                    ctx.count("second_chunkings");
                    if out2 != out {
                        ctx.count("compressed_bytes_depend_on_chunking(allowed)");
                    }
                }
                Ok((back, used)) => ctx.violation(
                    "deflate|inflated-differs-from-input",
                    &format!("re-chunked write inflates to {} bytes using {used}/{} (input {})", back.len(), out2.len(), data.len()),
                    w2,
                ),
                Err(e) => ctx.violation("deflate|output-is-not-a-complete-zlib-stream", &format!("re-chunked output: {e}"), w2),
            },
        }
    }
    if ctx.want_sample() {
        let w = witness(&segs);
        ctx.sample(json!({"part": "deflate", "case": w, "deflated_len": out.len()}));
    }
}

// ------------------------------------------------------------------ part hash

struct HashEnv {
    py: Option<Py>,
    cat: Option<CatFile>,
    repo: std::path::PathBuf,
}

fn hash_case(ctx: &mut Ctx, r: &mut Rng, env: &mut HashEnv) {
    use gix_object::Kind;
    let thorough = !ctx.quick();
    let kind = *r.pick(&[Kind::Blob, Kind::Blob, Kind::Tree, Kind::Commit, Kind::Tag]);
    let (len, sc) = gen_size(r, thorough);
    let (data, dc) = gen_data(r, len);
    let (chunks, cc) = gen_chunks(r, len);
    let header = format!("{} {}\0", std::str::from_utf8(kind.as_bytes()).unwrap(), len).into_bytes();
    let mut full = header.clone();
    full.extend_from_slice(&data);
    let witness = json!({"kind": kind.to_string(), "len": len, "size_class": sc, "data_class": dc, "chunk_class": cc, "chunks": chunk_summary(&chunks),
        "data_head": fw::show(&data[..data.len().min(48)])});

    // reference: python hashlib (OpenSSL) over the loose representation; sha1_smol as fallback reference
    let want = match env.py.as_mut().map(|p| p.sha1(&full)) {
        Some(Ok(h)) if h.len() == 40 => {
            ctx.count("python_hashlib_references");
            h
        }
        Some(other) => {
            ctx.inconclusive(&format!("python hashlib unavailable: {other:?}"));
            env.py = None;
            fw::hex(&fw::git_oid(std::str::from_utf8(kind.as_bytes()).unwrap(), &data))
        }
        None => fw::hex(&fw::git_oid(std::str::from_utf8(kind.as_bytes()).unwrap(), &data)),
    };
    ctx.distinct((kind.to_string(), sc, cc, dc));
    ctx.count(&format!("kind:{kind}"));

    let check = |ctx: &mut Ctx, route: &str, got: Result<Result<String, String>, fw::PanicInfo>| {
        ctx.eval();
        ctx.count(&format!("route:{route}"));
        match got {
            Err(p) => ctx.panic_violation(route, &p, "hash", witness.clone()),
            Ok(Err(e)) => ctx.violation(&format!("hash|{route}|error"), &format!("{route} failed: {e}"), witness.clone()),
            Ok(Ok(h)) => {
                if h != want {
                    let mut w = witness.clone();
                    w["got"] = json!(h);
                    w["want"] = json!(want);
                    ctx.violation(&format!("hash|{route}|id-differs"), &format!("{route} gives {h}, sha1 of the loose representation is {want}"), w);
                }
            }
        }
    };

    // 1. one call
    let g = guard(|| Ok(gix_object::compute_hash(gix_hash::Kind::Sha1, kind, &data).to_string()));
    check(ctx, "compute_hash", g);

    // 2. stream hash with short reads and EINTR
    let flag = AtomicBool::new(false);
    let mut rd = ChoppyRead::new(r, &data);
    let g = guard(|| {
        gix_object::compute_stream_hash(gix_hash::Kind::Sha1, kind, &mut rd, len as u64, &mut gix_features::progress::Discard, &flag)
            .map(|id| id.to_string())
            .map_err(|e| e.to_string())
    });
    ctx.count_n("reader_interrupts", rd.interrupts);
    ctx.count_n("reader_short_reads", rd.shorts);
    check(ctx, "compute_stream_hash", g);

    // 3. hash::bytes over the loose representation
    let mut rd = ChoppyRead::new(r, &full);
    let g = guard(|| {
        gix_features::hash::bytes(&mut rd, full.len() as u64, gix_hash::Kind::Sha1, &mut gix_features::progress::Discard, &flag)
            .map(|id| id.to_string())
            .map_err(|e| e.to_string())
    });
    check(ctx, "hash::bytes", g);

    // 4. hash while writing into the compressor, chunked (header and data cut anywhere)
    let raw = r.bool();
    let (fchunks, _) = gen_chunks(r, full.len());
    let mut deflated: Option<Vec<u8>> = None;
    let g = guard(|| {
        let mut w = gix_features::hash::Write::new(deflate::Write::new(Vec::new()), gix_hash::Kind::Sha1);
        feed(&mut w, &full, &fchunks, raw).map_err(|e| e.1)?;
        w.flush().map_err(|e| e.to_string())?;
        let gix_features::hash::Write { hash, inner } = w;
        deflated = Some(inner.into_inner());
        Ok(gix_hash::ObjectId::from(hash.digest()).to_string())
    });
    check(ctx, "hash::Write(deflate::Write)", g);
    if let Some(z) = deflated {
        match inflate_one(&z, full.len()) {
            Ok((back, used)) if back == full && used == z.len() => ctx.count("hash_write_streams_inflated"),
            Ok((back, used)) => ctx.violation(
                "hash-write|compressed-differs-from-hashed",
                &format!("bytes hashed ({}) differ from bytes that reached the compressor ({} inflated, {used}/{} consumed)", full.len(), back.len(), z.len()),
                witness.clone(),
            ),
            Err(e) => ctx.violation("hash-write|cannot-inflate", &e, witness.clone()),
        }
    }
    // 4b. hash while writing into a plain sink, header and data separately, data chunked
    let g = guard(|| {
        let mut w = gix_features::hash::Write::new(std::io::sink(), gix_hash::Kind::Sha1);
        w.write_all(&header).map_err(|e| e.to_string())?;
        feed(&mut w, &data, &chunks, !raw).map_err(|e| e.1)?;
        Ok(gix_hash::ObjectId::from(w.hash.digest()).to_string())
    });
    check(ctx, "hash::Write(sink)", g);

    // 5. gix_odb::sink, compressing, stream and buffer
    let sink = gix_odb::sink(gix_hash::Kind::Sha1).compress(r.bool());
    let mut rd = ChoppyRead::new(r, &data);
    let g = guard(|| sink.write_stream(kind, len as u64, &mut rd).map(|id| id.to_string()).map_err(|e| e.to_string()));
    check(ctx, "odb::Sink::write_stream", g);
    if r.chance(1, 3) {
        let g = guard(|| sink.write_buf(kind, &data).map(|id| id.to_string()).map_err(|e| e.to_string()));
        check(ctx, "odb::Sink::write_buf", g);
    }

    // 6. loose store (hash::Write over deflate::Write over a tempfile); blobs are read back by git
    if len <= 1 << 20 || r.chance(1, 4) {
        // non-blob kinds carry arbitrary bytes here: keep them out of the repository git inspects
        let objects = if kind == Kind::Blob { env.repo.join(".git/objects") } else { env.repo.join("others") };
        let store = gix_odb::loose::Store::at(objects, gix_hash::Kind::Sha1);
        let via_stream = r.bool();
        let mut rd = ChoppyRead::new(r, &data);
        let g = guard(|| {
            if via_stream {
                store.write_stream(kind, len as u64, &mut rd).map(|id| id.to_string()).map_err(|e| e.to_string())
            } else {
                store.write_buf(kind, &data).map(|id| id.to_string()).map_err(|e| e.to_string())
            }
        });
        let route = if via_stream { "loose::Store::write_stream" } else { "loose::Store::write_buf" };
        let wrote = matches!(&g, Ok(Ok(_)));
        check(ctx, route, g);
        if wrote && kind == Kind::Blob {
            if let Some(cat) = env.cat.as_mut() {
                match cat.get(&want) {
                    Err(e) => {
                        ctx.inconclusive(&format!("git cat-file unavailable: {e}"));
                        env.cat = None;
                    }
                    Ok(None) => {
                        ctx.eval();
                        ctx.violation("loose|git-cannot-find-written-object", &format!("git cat-file reports {want} missing after {route}"), witness.clone());
                    }
                    Ok(Some((ty, content))) => {
                        ctx.eval();
                        ctx.count("git_cat_file_readbacks");
                        if ty != "blob" || content != data {
                            ctx.violation(
                                "loose|git-reads-different-object",
                                &format!("git reads type {ty} with {} bytes, written blob had {} bytes", content.len(), data.len()),
                                witness.clone(),
                            );
                        }
                    }
                }
            }
        }
    }
    if ctx.want_sample() {
        ctx.sample(json!({"part": "hash", "case": witness, "id": want}));
    }
}

pub fn run(ctx: &mut Ctx) {
    ctx.rule(
        "deflate case = 1..3 streams (size class dense at k*32KiB±2, data class, write-size sequence class, raw write vs write_all) \
         through one deflate::Write with flush+reset between; judged by python zlib, flate2 and gix inflate::read. \
         hash case = (kind, bytes, chunking) through 8 hashing routes vs python hashlib, loose blobs read back by git. \
         distinct = (size class, data class, chunk class, #streams, raw) resp. (kind, size class, chunk class, data class)",
    );
    ctx.assume("compressed bytes may differ between chunkings; only the inflated result is compared");
    let dir = ctx.dir("c56");
    let py = match Py::start(&dir) {
        Ok(p) => Some(p),
        Err(e) => {
            ctx.inconclusive(&format!("independent inflater not available: {e}"));
            None
        }
    };
    let repo = dir.join("repo");
    let mut env = HashEnv { py, cat: None, repo: repo.clone() };
    let _ = std::fs::create_dir_all(repo.join("others"));
    match fw::git::init(&repo, false) {
        Ok(()) => match CatFile::start(&repo) {
            Ok(c) => env.cat = Some(c),
            Err(e) => ctx.inconclusive(&e),
        },
        Err(e) => ctx.inconclusive(&format!("git init failed: {e}")),
    }
    let n_hash = ctx.n(350, 8_000);
    if repo.join(".git/objects").is_dir() {
        ctx.cases("hash", n_hash, |ctx, r| hash_case(ctx, r, &mut env));
        // git's own sha1 + zlib over every loose blob written
        if ctx.replay.is_none() {
            drop(env.cat.take());
            match fw::git::run(&repo, &["fsck", "--no-dangling", "--no-progress"]) {
                Err(e) => ctx.inconclusive(&format!("git fsck spawn failed: {e}")),
                Ok(o) => {
                    ctx.count("git_fsck_runs");
                    let text = format!("{}\n{}", o.text(), o.err_text());
                    let bad: Vec<&str> = text.lines().filter(|l| l.starts_with("error") || l.starts_with("fatal") || l.contains("missing")).take(5).collect();
                    ctx.eval();
                    if !o.ok || !bad.is_empty() {
                        ctx.violation("loose|git-fsck-rejects-written-object", &format!("git fsck: {}", bad.join(" / ")), json!({"fsck": bad}));
                    }
                }
            }
        }
    }
    let mut py = env.py.take();
    let n_deflate = ctx.n(1500, 40_000);
    ctx.cases("deflate", n_deflate, |ctx, r| deflate_case(ctx, r, &mut py));
}
