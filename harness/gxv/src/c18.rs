//! C18 Reference lookup and iteration match git.
//!
//! One scenario = one ref layout (loose files + packed-refs with stale duplicates, symbolic refs,
//! annotated-tag values) realised either by writing the files or by `git update-ref`/`git pack-refs`.
//! Oracles:
//!  * G (deciding): `git for-each-ref` for iteration, `git cat-file --batch-check` (value) and
//!    `git rev-parse --symbolic-full-name` (which ref) for DWIM lookups, all on the very same directory.
//!  * M: the layout as a sorted map (loose shadows packed, git's six lookup rules). G and M must agree
//!    with each other before gitoxide is judged; if they do not, the scenario is inconclusive.
use crate::fw::{self, guard, Ctx, Rng};
use serde_json::{json, Value};
use std::collections::{BTreeMap, BTreeSet};
use std::path::{Path, PathBuf};

pub fn child(_mode: &str) {}

// ------------------------------------------------------------------ layout model

#[derive(Clone, Debug, PartialEq, Eq)]
enum Val {
    Obj(usize),
    Sym(String),
}

#[derive(Clone, Debug)]
struct Obj {
    oid: String,
    /// for annotated tags: the fully peeled object
    peeled: Option<String>,
}

#[derive(Clone, Debug, Default)]
struct Layout {
    loose: BTreeMap<String, Val>,
    packed: BTreeMap<String, usize>,
    head: Option<Val>,
    via_git: bool,
    /// 0 = full header + sorted, 1 = no header + shuffled, 2 = header without `sorted` + shuffled
    packed_style: u8,
}

impl Layout {
    fn visible(&self) -> BTreeMap<Vec<u8>, Val> {
        let mut m: BTreeMap<Vec<u8>, Val> = BTreeMap::new();
        for (n, o) in &self.packed {
            m.insert(n.clone().into_bytes(), Val::Obj(*o));
        }
        for (n, v) in &self.loose {
            m.insert(n.clone().into_bytes(), v.clone());
        }
        m
    }
    fn stale(&self) -> usize {
        self.loose.iter().filter(|(n, v)| self.packed.get(*n).map_or(false, |p| Val::Obj(*p) != **v)).count()
    }
}

const COMPS: &[&str] = &["a", "a-b", "a.b", "a0", "a+b", "a,b", "a-", "b", "Z", "0", "é", "ab", "MAIN"];
const SPACES: &[&str] = &["refs/heads/", "refs/heads/", "refs/heads/", "refs/tags/", "refs/tags/", "refs/remotes/o/", "refs/remotes/o/", "refs/x/", "refs/"];

fn df_conflict(existing: &BTreeSet<String>, name: &str) -> bool {
    if existing.contains(name) {
        return true;
    }
    for e in existing {
        if e.len() > name.len() && e.starts_with(name) && e.as_bytes()[name.len()] == b'/' {
            return true;
        }
        if name.len() > e.len() && name.starts_with(e.as_str()) && name.as_bytes()[e.len()] == b'/' {
            return true;
        }
    }
    // never shadow the fixed directories
    matches!(name, "refs/heads" | "refs/tags" | "refs/remotes" | "refs/remotes/o" | "refs/x")
}

fn gen_layout(r: &mut Rng, n_objs: usize, quick: bool) -> Layout {
    let mut l = Layout::default();
    l.via_git = r.chance(1, 4);
    l.packed_style = if l.via_git { 0 } else { *r.pick(&[0u8, 0, 0, 0, 0, 0, 1, 2]) };
    let want = 1 + r.usize(if quick { 28 } else { 40 });
    let mut names: BTreeSet<String> = BTreeSet::new();
    // a focus component makes sibling/directory adjacencies likely
    let focus = *r.pick(&["a", "a", "a", "b", "Z", "0", "a-"]);
    let mut tries = 0;
    while names.len() < want && tries < want * 6 {
        tries += 1;
        let space = *r.pick(SPACES);
        let depth = match r.below(10) {
            0..=5 => 1,
            6..=8 => 2,
            _ => 3,
        };
        let mut n = String::from(space);
        for d in 0..depth {
            if d > 0 {
                n.push('/');
            }
            let c = if d == 0 && r.chance(1, 3) { focus } else { *r.pick(COMPS) };
            n.push_str(c);
        }
        if n == "refs/remotes/o/HEAD" || df_conflict(&names, &n) {
            continue;
        }
        names.insert(n);
    }
    // git refuses non-commit objects below refs/heads/: the last two objects are annotated tags
    let n_commits = n_objs - 2;
    for n in &names {
        let n_objs = if n.starts_with("refs/heads/") { n_commits } else { n_objs };
        let v = r.usize(n_objs);
        match r.below(6) {
            0 | 1 => {
                l.loose.insert(n.clone(), Val::Obj(v));
            }
            2 => {
                l.packed.insert(n.clone(), v);
            }
            3 => {
                l.loose.insert(n.clone(), Val::Obj(v));
                l.packed.insert(n.clone(), v);
            }
            _ => {
                let stale = (v + 1 + r.usize(n_objs - 1)) % n_objs;
                l.loose.insert(n.clone(), Val::Obj(v));
                l.packed.insert(n.clone(), stale);
            }
        }
    }
    let all: Vec<String> = names.iter().cloned().collect();
    // symbolic refs (always loose), always pointing at an existing direct ref
    let remotes: Vec<&String> = all.iter().filter(|n| n.starts_with("refs/remotes/o/")).collect();
    if !remotes.is_empty() && r.chance(2, 3) {
        if r.chance(1, 6) {
            // unusual but legal: a direct refs/remotes/o/HEAD, possibly only in packed-refs
            let v = r.usize(n_objs);
            if r.bool() {
                l.packed.insert("refs/remotes/o/HEAD".into(), v);
            } else {
                l.loose.insert("refs/remotes/o/HEAD".into(), Val::Obj(v));
            }
        } else {
            let t = (*r.pick(&remotes)).clone();
            l.loose.insert("refs/remotes/o/HEAD".into(), Val::Sym(t));
        }
        names.insert("refs/remotes/o/HEAD".into());
    }
    for sym in ["refs/heads/sym", "refs/tags/a/sym", "refs/x/a-b/sym"] {
        if r.chance(1, 3) && !all.is_empty() && !df_conflict(&names, sym) {
            let t = r.pick(&all).clone();
            l.loose.insert(sym.into(), Val::Sym(t));
            names.insert(sym.into());
        }
    }
    let heads: Vec<&String> = all.iter().filter(|n| n.starts_with("refs/heads/")).collect();
    l.head = if !heads.is_empty() && r.chance(3, 4) {
        Some(Val::Sym((*r.pick(&heads)).clone()))
    } else if r.bool() {
        Some(Val::Obj(r.usize(n_objs)))
    } else {
        None // unborn: HEAD -> refs/heads/unborn-branch
    };
    if l.via_git {
        // `update-ref` of an unchanged value writes nothing: "both, same value" cannot be produced by git commands
        let same: Vec<String> = l.loose.iter().filter(|(n, v)| l.packed.get(*n).map_or(false, |p| Val::Obj(*p) == **v)).map(|(n, _)| n.clone()).collect();
        for n in same {
            l.loose.remove(&n);
        }
    }
    l
}

// ------------------------------------------------------------------ realisation on disk

fn write_layout(repo: &Path, l: &Layout, objs: &[Obj], r: &mut Rng) -> Result<u64, String> {
    let e = |x: std::io::Error| x.to_string();
    let _ = std::fs::remove_dir_all(repo.join("refs"));
    let _ = std::fs::remove_file(repo.join("packed-refs"));
    std::fs::create_dir_all(repo.join("refs/heads")).map_err(e)?;
    std::fs::create_dir_all(repo.join("refs/tags")).map_err(e)?;
    let mut spawns = 0;
    let val_text = |v: &Val| match v {
        Val::Obj(i) => format!("{}\n", objs[*i].oid),
        Val::Sym(t) => format!("ref: {t}\n"),
    };
    std::fs::write(repo.join("HEAD"), l.head.as_ref().map(val_text).unwrap_or_else(|| "ref: refs/heads/unborn-branch\n".into())).map_err(e)?;
    let write_loose = |n: &str, v: &Val| -> Result<(), String> {
        let p = repo.join(n);
        std::fs::create_dir_all(p.parent().unwrap()).map_err(e)?;
        std::fs::write(&p, val_text(v)).map_err(e)
    };
    if !l.via_git {
        for (n, v) in &l.loose {
            write_loose(n, v)?;
        }
        if !l.packed.is_empty() {
            let mut entries: Vec<(&String, &usize)> = l.packed.iter().collect();
            entries.sort_by(|a, b| a.0.as_bytes().cmp(b.0.as_bytes()));
            let mut out = String::new();
            match l.packed_style {
                0 => out.push_str("# pack-refs with: peeled fully-peeled sorted \n"),
                2 => {
                    out.push_str("# pack-refs with: peeled fully-peeled \n");
                    r.shuffle(&mut entries);
                }
                _ => r.shuffle(&mut entries),
            }
            for (n, o) in entries {
                out.push_str(&format!("{} {}\n", objs[*o].oid, n));
                if let Some(p) = &objs[*o].peeled {
                    if l.packed_style != 1 {
                        out.push_str(&format!("^{p}\n"));
                    }
                }
            }
            std::fs::write(repo.join("packed-refs"), out).map_err(e)?;
        }
    } else {
        if !l.packed.is_empty() {
            let mut input = String::new();
            for (n, o) in &l.packed {
                input.push_str(&format!("create {} {}\n", n, objs[*o].oid));
            }
            fw::git::ok_in(repo, &["update-ref", "--stdin"], input.as_bytes())?;
            fw::git::ok(repo, &["pack-refs", "--all"])?;
            spawns += 2;
        }
        let mut input = String::new();
        for (n, v) in &l.loose {
            match v {
                Val::Obj(o) => input.push_str(&format!("update {} {}\n", n, objs[*o].oid)),
                Val::Sym(_) => {}
            }
        }
        if !input.is_empty() {
            fw::git::ok_in(repo, &["update-ref", "--stdin"], input.as_bytes())?;
            spawns += 1;
        }
        for (n, v) in &l.loose {
            if let Val::Sym(_) = v {
                write_loose(n, v)?;
            }
        }
    }
    Ok(spawns)
}

// ------------------------------------------------------------------ observations

#[derive(Clone, Debug, PartialEq, Eq, PartialOrd, Ord)]
enum Tgt {
    Oid(String),
    Sym(Vec<u8>),
}

#[derive(Default)]
struct Obs {
    findings: Vec<(String, String, Value)>,
    counts: BTreeMap<String, u64>,
    distinct: Vec<u64>,
    evals: u64,
    inconclusive: Vec<String>,
    sample: Option<Value>,
}
impl Obs {
    fn count(&mut self, k: &str, n: u64) {
        *self.counts.entry(k.into()).or_insert(0) += n;
    }
}

fn show_list(v: &[(Vec<u8>, Tgt)]) -> Vec<String> {
    v.iter()
        .map(|(n, t)| match t {
            Tgt::Oid(o) => format!("{} {}", String::from_utf8_lossy(n), &o[..8.min(o.len())]),
            Tgt::Sym(s) => format!("{} -> {}", String::from_utf8_lossy(n), String::from_utf8_lossy(s)),
        })
        .collect()
}

fn to_tgt(t: &gix_ref::Target) -> Tgt {
    match t {
        gix_ref::Target::Object(o) => Tgt::Oid(o.to_hex().to_string()),
        gix_ref::Target::Symbolic(n) => Tgt::Sym(n.as_bstr().to_vec()),
    }
}

/// does the per-directory (component-wise) order of these loose names differ from full-name byte order?
fn walk_order_differs(names: &[&[u8]]) -> bool {
    let mut by_comp: Vec<Vec<&[u8]>> = names.iter().map(|n| n.split(|b| *b == b'/').collect()).collect();
    by_comp.sort();
    let mut by_bytes: Vec<&[u8]> = names.to_vec();
    by_bytes.sort();
    by_comp.iter().map(|c| c.join(&b'/')).collect::<Vec<_>>() != by_bytes.iter().map(|b| b.to_vec()).collect::<Vec<_>>()
}

/// adjacency classes: a directory `d` and a sibling entry whose name starts with `d` followed by a byte below '/'
fn adjacency_classes(l: &Layout) -> BTreeSet<(u8, bool, bool, bool)> {
    let mut out = BTreeSet::new();
    // entries per directory: name -> (is_dir, any loose below / is loose)
    let mut dirs: BTreeMap<String, BTreeMap<String, (bool, bool)>> = BTreeMap::new();
    let mut add = |full: &str, loose: bool| {
        let comps: Vec<&str> = full.split('/').collect();
        for i in 0..comps.len() {
            let parent = comps[..i].join("/");
            let is_dir = i + 1 < comps.len();
            let e = dirs.entry(parent).or_default().entry(comps[i].to_string()).or_insert((is_dir, false));
            e.0 |= is_dir;
            e.1 |= loose;
        }
    };
    for n in l.loose.keys() {
        add(n, true);
    }
    for n in l.packed.keys() {
        add(n, false);
    }
    for entries in dirs.values() {
        for (d, (is_dir, d_loose)) in entries {
            if !*is_dir {
                continue;
            }
            for (s, (s_dir, s_loose)) in entries {
                if s.len() > d.len() && s.starts_with(d.as_str()) && s.as_bytes()[d.len()] < b'/' {
                    out.insert((s.as_bytes()[d.len()], *s_dir, *d_loose, *s_loose));
                }
            }
        }
    }
    out
}

struct Expect {
    list: Vec<(Vec<u8>, Tgt)>,
    /// names that may additionally appear (string-prefix reading of a partial-name prefix)
    may: Option<BTreeSet<Vec<u8>>>,
}

fn judge_iteration(
    obs: &mut Obs,
    what: &str,
    prefix_class: &str,
    anomaly: bool,
    got: &[(Vec<u8>, Tgt)],
    exp: &Expect,
    visible: &BTreeMap<Vec<u8>, Tgt>,
    stale_packed: &BTreeMap<Vec<u8>, Tgt>,
    loose_names: &BTreeSet<&[u8]>,
    witness: &Value,
) {
    obs.evals += 1;
    let class = if anomaly { "sibling-sorts-below-slash" } else { "plain-layout" };
    let mut kind: Option<(&str, String)> = None;
    // duplicates
    let mut seen: BTreeSet<&[u8]> = BTreeSet::new();
    for (n, _) in got {
        if !seen.insert(n.as_slice()) {
            kind = Some(("duplicate", format!("{} is yielded more than once", String::from_utf8_lossy(n))));
            break;
        }
    }
    if kind.is_none() {
        let must: BTreeSet<&[u8]> = exp.list.iter().map(|(n, _)| n.as_slice()).collect();
        for n in &must {
            if !seen.contains(n) {
                kind = Some(("missing", format!("{} is not yielded", String::from_utf8_lossy(n))));
                break;
            }
        }
        if kind.is_none() {
            for (n, _) in got {
                let allowed = must.contains(n.as_slice()) || exp.may.as_ref().map_or(false, |m| m.contains(n));
                if !allowed {
                    // which stream leaked it: a visible loose file, or a packed-refs line
                    let in_packed = stale_packed.contains_key(n);
                    let dir_class = prefix_class.starts_with("dir-");
                    let from_loose = loose_names.contains(n.as_slice()) && !(in_packed && dir_class);
                    kind = Some((if from_loose { "extra-from-loose" } else { "extra-from-packed" }, format!("{} is yielded but is not part of the expected set", String::from_utf8_lossy(n))));
                    break;
                }
            }
        }
    }
    if kind.is_none() {
        for (n, t) in got {
            if visible.get(n) != Some(t) {
                let k = if stale_packed.get(n) == Some(t) { "value-stale-packed" } else { "value" };
                kind = Some((k, format!("{} has the wrong target", String::from_utf8_lossy(n))));
                break;
            }
        }
    }
    if kind.is_none() {
        for w in got.windows(2) {
            if w[0].0 >= w[1].0 {
                kind = Some(("order", format!("{} is yielded before {}", String::from_utf8_lossy(&w[0].0), String::from_utf8_lossy(&w[1].0))));
                break;
            }
        }
    }
    if let Some((k, detail)) = kind {
        // The per-directory walk order defect shows as duplicates, wrong order or a stale packed value: one signature for it.
        let sig = if anomaly && matches!(k, "duplicate" | "order" | "value-stale-packed") {
            format!("iter|order|{class}")
        } else if what == "iter-all" {
            format!("{what}|{k}|{class}")
        } else {
            format!("{what}|{k}|{prefix_class}")
        };
        let mut w = witness.clone();
        w["gitoxide"] = json!(show_list(got));
        w["git_and_model"] = json!(show_list(&exp.list));
        w["detail"] = json!(detail);
        w["symptom"] = json!(k);
        obs.findings.push((sig, format!("{what} differs from git for-each-ref: {detail}"), w));
    }
}

struct Worker {
    repo: PathBuf,
    objs: Vec<Obj>,
}

fn store_at(repo: &Path) -> gix_ref::file::Store {
    gix_ref::file::Store::at(
        repo.to_owned(),
        gix_ref::store::init::Options {
            write_reflog: gix_ref::store::WriteReflog::Disable,
            object_hash: gix_hash::Kind::Sha1,
            precompose_unicode: false,
            prohibit_windows_device_names: false,
        },
    )
}

fn collect_iter(store: &gix_ref::file::Store, prefix: Option<&Path>) -> Result<Vec<(Vec<u8>, Tgt, Option<String>)>, String> {
    let platform = store.iter().map_err(|e| format!("iter(): {e}"))?;
    let it = match prefix {
        None => platform.all(),
        Some(p) => platform.prefixed(p),
    }
    .map_err(|e| format!("iterator creation: {e}"))?;
    let mut out = Vec::new();
    for r in it {
        let r = r.map_err(|e| format!("item: {e}"))?;
        out.push((r.name.as_bstr().to_vec(), to_tgt(&r.target), r.peeled.map(|p| p.to_hex().to_string())));
    }
    Ok(out)
}

fn query_class(q: &str) -> &'static str {
    if q == "HEAD" {
        "HEAD"
    } else if q.starts_with("refs/") {
        "full-name"
    } else if !q.contains('/') && q.bytes().all(|b| b.is_ascii_uppercase() || b == b'_') {
        "uppercase-short-name"
    } else if q.starts_with("heads/") || q.starts_with("tags/") || q.starts_with("remotes/") || q.starts_with("x/") {
        "refs-relative"
    } else {
        "short-name"
    }
}

fn run_layout(w: &Worker, r: &mut Rng, quick: bool) -> Obs {
    let mut obs = Obs::default();
    let objs = &w.objs;
    let l = gen_layout(r, objs.len(), quick);
    match write_layout(&w.repo, &l, objs, r) {
        Ok(n) => obs.count("git_spawns", n),
        Err(e) => {
            obs.inconclusive.push(format!("layout could not be realised: {e}"));
            return obs;
        }
    }
    obs.count("layouts", 1);
    obs.count(if l.via_git { "layouts_built_by_git" } else { "layouts_written_directly" }, 1);
    obs.count("refs_loose", l.loose.len() as u64);
    obs.count("refs_packed", l.packed.len() as u64);
    obs.count("refs_stale_packed_duplicates", l.stale() as u64);
    obs.count("refs_symbolic", l.loose.values().filter(|v| matches!(v, Val::Sym(_))).count() as u64);
    if l.packed_style != 0 {
        obs.count("layouts_unsorted_packed_refs", 1);
    }

    let tgt_of = |v: &Val| match v {
        Val::Obj(i) => Tgt::Oid(objs[*i].oid.clone()),
        Val::Sym(s) => Tgt::Sym(s.clone().into_bytes()),
    };
    let visible: BTreeMap<Vec<u8>, Tgt> = l.visible().iter().map(|(n, v)| (n.clone(), tgt_of(v))).collect();
    let stale_packed: BTreeMap<Vec<u8>, Tgt> = l.packed.iter().map(|(n, o)| (n.clone().into_bytes(), Tgt::Oid(objs[*o].oid.clone()))).collect();
    let resolve = |start: &[u8]| -> Option<(Vec<u8>, String)> {
        // follow symbolic refs in the model
        let mut cur = start.to_vec();
        for _ in 0..6 {
            let t = if cur == b"HEAD" { l.head.as_ref().map(tgt_of) } else { visible.get(&cur).cloned() };
            match t? {
                Tgt::Oid(o) => return Some((cur, o)),
                Tgt::Sym(n) => cur = n,
            }
        }
        None
    };
    let peeled_of: BTreeMap<&str, &str> = objs.iter().map(|o| (o.oid.as_str(), o.peeled.as_deref().unwrap_or(o.oid.as_str()))).collect();

    // ---- G: for-each-ref
    let fer = match fw::git::run(&w.repo, &["for-each-ref", "--format=%(refname) %(objectname) <%(symref)>"]) {
        Ok(o) if o.ok => o,
        Ok(o) => {
            obs.inconclusive.push(format!("git for-each-ref failed: {}", o.err_text()));
            return obs;
        }
        Err(e) => {
            obs.inconclusive.push(format!("git spawn failed: {e}"));
            return obs;
        }
    };
    obs.count("git_spawns", 1);
    let mut git_list: Vec<(Vec<u8>, Tgt)> = Vec::new();
    for line in fer.stdout.split(|b| *b == b'\n').filter(|l| !l.is_empty()) {
        let parts: Vec<&[u8]> = line.splitn(3, |b| *b == b' ').collect();
        if parts.len() != 3 {
            obs.inconclusive.push("unparsable for-each-ref line".into());
            return obs;
        }
        let sym = &parts[2][1..parts[2].len() - 1];
        let t = if sym.is_empty() { Tgt::Oid(String::from_utf8_lossy(parts[1]).to_string()) } else { Tgt::Sym(sym.to_vec()) };
        git_list.push((parts[0].to_vec(), t));
    }
    let model_list: Vec<(Vec<u8>, Tgt)> = visible.iter().map(|(n, t)| (n.clone(), t.clone())).collect();
    if git_list != model_list {
        obs.count("model_differs_from_git", 1);
        obs.inconclusive.push(format!(
            "model and git for-each-ref disagree on a layout (via_git={}, style={}): git={:?} model={:?}",
            l.via_git,
            l.packed_style,
            show_list(&git_list),
            show_list(&model_list)
        ));
        return obs;
    }

    let layout_witness = json!({
        "loose": l.loose.iter().map(|(n, v)| format!("{n} = {}", match v { Val::Obj(i) => objs[*i].oid[..8].to_string(), Val::Sym(s) => format!("ref: {s}") })).collect::<Vec<_>>(),
        "packed": l.packed.iter().map(|(n, o)| format!("{n} = {}", &objs[*o].oid[..8])).collect::<Vec<_>>(),
        "built_by_git": l.via_git, "packed_refs_style": l.packed_style,
    });

    let store = store_at(&w.repo);
    let loose_set: BTreeSet<&[u8]> = l.loose.keys().map(|n| n.as_bytes()).collect();
    let adj = adjacency_classes(&l);
    let loose_under = |prefix: &[u8]| -> Vec<&[u8]> { l.loose.keys().map(|n| n.as_bytes()).filter(|n| n.starts_with(prefix)).collect() };

    // ---- iteration: all
    {
        let anomaly = walk_order_differs(&loose_under(b"refs/"));
        match guard(|| collect_iter(&store, None)) {
            Err(p) => {
                if p.in_repo {
                    obs.findings.push((format!("panic|iter().all()|{}|layout", p.site), format!("iter().all() panicked at {}: {}", p.site, p.message), layout_witness.clone()));
                } else {
                    obs.inconclusive.push(format!("harness panic at {}: {}", p.site, p.message));
                }
            }
            Ok(Err(e)) => {
                obs.evals += 1;
                let mut wv = layout_witness.clone();
                wv["error"] = json!(e);
                obs.findings.push(("iter-all|error|all|valid-layout".into(), format!("iter().all() failed on a layout git lists without complaint: {e}"), wv));
            }
            Ok(Ok(got3)) => {
                let got: Vec<(Vec<u8>, Tgt)> = got3.iter().map(|(n, t, _)| (n.clone(), t.clone())).collect();
                judge_iteration(&mut obs, "iter-all", "all", anomaly, &got, &Expect { list: model_list.clone(), may: None }, &visible, &stale_packed, &loose_set, &layout_witness);
                // peeled ids, where exposed, must be the true peeled object of the visible value
                for (n, t, peeled) in &got3 {
                    if let (Tgt::Oid(o), Some(p)) = (t, peeled) {
                        obs.count("peeled_ids_checked", 1);
                        if visible.get(n) == Some(t) && peeled_of.get(o.as_str()).map_or(false, |want| want != p) {
                            let mut wv = layout_witness.clone();
                            wv["ref"] = json!(String::from_utf8_lossy(n));
                            wv["peeled"] = json!(p);
                            obs.findings.push(("iter-all|peeled|wrong-peeled-id".into(), "a reference exposes a peeled id that is not the peeled object of its value".into(), wv));
                        }
                    }
                }
                obs.distinct.push(fw::hash_of(&("all", &adj, l.stale().min(3), l.via_git, l.packed_style, got.len() / 8)));
                if obs.sample.is_none() {
                    obs.sample = Some(json!({"layout": layout_witness, "iter_all": show_list(&got), "adjacencies(byte,sibling_is_dir,dir_loose,sibling_loose)": adj.iter().map(|a| format!("{:?}", a)).collect::<Vec<_>>()}));
                }
            }
        }
    }

    // ---- iteration: prefixed
    let mut prefixes: Vec<String> = vec!["refs/heads/".into(), "refs/heads".into(), "refs/tags".into(), "refs/remotes/o/".into(), "refs/".into()];
    {
        // directory prefixes and partial-name prefixes taken from the layout
        let mut dirs: BTreeSet<String> = BTreeSet::new();
        for n in visible.keys() {
            let n = String::from_utf8_lossy(n).to_string();
            let comps: Vec<&str> = n.split('/').collect();
            for i in 2..comps.len() {
                dirs.insert(comps[..i].join("/"));
            }
        }
        let dirs: Vec<String> = dirs.into_iter().collect();
        for _ in 0..3 {
            if !dirs.is_empty() {
                let d = r.pick(&dirs).clone();
                prefixes.push(if r.bool() { format!("{d}/") } else { d });
            }
        }
        let names: Vec<&Vec<u8>> = visible.keys().collect();
        for _ in 0..3 {
            if !names.is_empty() {
                let picked: &Vec<u8> = names[r.usize(names.len())];
                let n = String::from_utf8_lossy(picked).to_string();
                let cut = n.rfind('/').unwrap_or(0) + 1;
                let stem: String = n[cut..].chars().take(1 + r.usize(2)).collect();
                prefixes.push(format!("{}{}", &n[..cut], stem));
            }
        }
        prefixes.push("refs/heads/zz-none".into());
    }
    let n_pref = if quick { 6 } else { 10 };
    r.shuffle(&mut prefixes);
    prefixes.sort_by_key(|p| !(p == "refs/heads" || p == "refs/heads/")); // keep the classic ones
    prefixes.dedup();
    for prefix in prefixes.into_iter().take(n_pref) {
        let on_disk_dir = w.repo.join(&prefix).is_dir();
        let (pclass, must_prefix, may_prefix): (&str, String, Option<String>) = if prefix.ends_with('/') {
            (if on_disk_dir { "dir-with-slash" } else { "slash-but-no-loose-dir" }, prefix.clone(), None)
        } else if on_disk_dir {
            ("dir-without-slash", format!("{prefix}/"), None)
        } else {
            ("partial-name", format!("{prefix}/"), Some(prefix.clone()))
        };
        let mut list: Vec<(Vec<u8>, Tgt)> = model_list.iter().filter(|(n, _)| n.starts_with(must_prefix.as_bytes())).cloned().collect();
        if may_prefix.is_some() {
            if let Some(t) = visible.get(prefix.as_bytes()) {
                list.push((prefix.clone().into_bytes(), t.clone()));
                list.sort();
            }
        }
        let may = may_prefix.as_ref().map(|p| visible.keys().filter(|n| n.starts_with(p.as_bytes())).cloned().collect::<BTreeSet<_>>());
        let root = match prefix.rfind('/') {
            Some(i) => prefix[..i + 1].to_string(),
            None => String::new(),
        };
        let anomaly = walk_order_differs(&loose_under(if prefix.ends_with('/') || on_disk_dir { must_prefix.as_bytes() } else { root.as_bytes() }));
        let mut wv = layout_witness.clone();
        wv["prefix"] = json!(prefix);
        obs.count(&format!("prefix_queries_{pclass}"), 1);
        match guard(|| collect_iter(&store, Some(Path::new(&prefix)))) {
            Err(p) => {
                if p.in_repo {
                    obs.findings.push((format!("panic|iter().prefixed()|{}|{pclass}", p.site), format!("iter().prefixed() panicked at {}: {}", p.site, p.message), wv));
                } else {
                    obs.inconclusive.push(format!("harness panic at {}: {}", p.site, p.message));
                }
            }
            Ok(Err(e)) => {
                obs.evals += 1;
                wv["error"] = json!(e);
                obs.findings.push((format!("iter-prefixed|error|{pclass}|valid-layout"), format!("iter().prefixed({prefix:?}) failed: {e}"), wv));
            }
            Ok(Ok(got3)) => {
                let got: Vec<(Vec<u8>, Tgt)> = got3.iter().map(|(n, t, _)| (n.clone(), t.clone())).collect();
                obs.distinct.push(fw::hash_of(&("prefixed", pclass, anomaly, got.len().min(6), l.stale().min(2))));
                judge_iteration(&mut obs, "iter-prefixed", pclass, anomaly, &got, &Expect { list, may }, &visible, &stale_packed, &loose_set, &wv);
            }
        }
    }

    // ---- lookups
    let mut queries: BTreeSet<String> = BTreeSet::new();
    for n in visible.keys() {
        let n = String::from_utf8_lossy(n).to_string();
        queries.insert(n.clone());
        for p in ["refs/", "refs/heads/", "refs/tags/", "refs/remotes/"] {
            if let Some(s) = n.strip_prefix(p) {
                if !s.is_empty() {
                    queries.insert(s.to_string());
                }
            }
        }
    }
    queries.insert("o".into());
    queries.insert("HEAD".into());
    queries.insert("zz-none".into());
    queries.insert("refs/heads/zz-none".into());
    queries.insert("heads/zz-none".into());
    // names that would hit files of the git directory through git's first rule are not ref lookups
    for bad in ["config", "description", "hooks", "info", "objects", "branches", "packed-refs", "refs"] {
        queries.remove(bad);
    }
    let mut qv: Vec<String> = queries.into_iter().collect();
    r.shuffle(&mut qv);
    qv.truncate(if quick { 40 } else { 80 });
    qv.sort();
    // model: git's rules
    let model_find = |q: &str| -> Option<(usize, Vec<u8>)> {
        let cands = [q.to_string(), format!("refs/{q}"), format!("refs/tags/{q}"), format!("refs/heads/{q}"), format!("refs/remotes/{q}"), format!("refs/remotes/{q}/HEAD")];
        for (i, c) in cands.iter().enumerate() {
            if (c == "HEAD" && i == 0) || visible.contains_key(c.as_bytes()) {
                return Some((i, c.clone().into_bytes()));
            }
        }
        None
    };
    // G: values through cat-file --batch-check (one spawn), names through rev-parse --symbolic-full-name (one spawn)
    let mut input = Vec::new();
    for q in &qv {
        input.extend_from_slice(q.as_bytes());
        input.push(b'\n');
    }
    let cf = fw::git::run_in(&w.repo, &["cat-file", "--batch-check=%(objectname)"], &input);
    obs.count("git_spawns", 1);
    let git_vals: Vec<Option<String>> = match cf {
        Ok(o) if o.ok => {
            let lines: Vec<&[u8]> = o.stdout.split(|b| *b == b'\n').filter(|l| !l.is_empty()).collect();
            if lines.len() != qv.len() {
                obs.inconclusive.push("cat-file --batch-check answered a different number of lines".into());
                return obs;
            }
            lines.iter().map(|l| if l.ends_with(b" missing") || l.ends_with(b" ambiguous") { None } else { Some(String::from_utf8_lossy(l).to_string()) }).collect()
        }
        _ => {
            obs.inconclusive.push("git cat-file --batch-check failed".into());
            return obs;
        }
    };
    // (`rev-parse --symbolic-full-name` prints nothing for a detached HEAD)
    let detached = matches!(l.head, Some(Val::Obj(_)));
    let resolvable: Vec<&String> = qv.iter().zip(&git_vals).filter(|(q, v)| v.is_some() && !(detached && q.as_str() == "HEAD")).map(|(q, _)| q).collect();
    let mut git_names: BTreeMap<&str, Vec<u8>> = BTreeMap::new();
    if !resolvable.is_empty() && r.bool() {
        let mut args: Vec<&str> = vec!["rev-parse", "--symbolic-full-name"];
        args.extend(resolvable.iter().map(|s| s.as_str()));
        obs.count("git_spawns", 1);
        match fw::git::run(&w.repo, &args) {
            Ok(o) if o.ok => {
                let lines: Vec<&[u8]> = o.stdout.split(|b| *b == b'\n').filter(|l| !l.is_empty()).collect();
                if lines.len() == resolvable.len() {
                    for (q, l) in resolvable.iter().zip(lines) {
                        git_names.insert(q.as_str(), l.to_vec());
                    }
                } else {
                    obs.count("rev_parse_name_batches_unusable", 1);
                    obs.count("rev_parse_line_count_mismatch", 1);
                }
            }
            Ok(o) => {
                obs.count("rev_parse_name_batches_unusable", 1);
                let _ = o;
            }
            Err(_) => obs.count("rev_parse_name_batches_unusable", 1),
        }
    }
    for (q, git_val) in qv.iter().zip(&git_vals) {
        let qc = query_class(q);
        let m = model_find(q);
        // model vs git first
        let m_resolved = m.as_ref().and_then(|(_, n)| resolve(n));
        let model_val = m_resolved.as_ref().map(|(_, o)| o.clone());
        if q == "HEAD" && l.head.is_none() {
            obs.count("find_skipped_unborn_head", 1);
            continue;
        }
        if model_val != *git_val {
            obs.count("model_differs_from_git", 1);
            obs.inconclusive.push(format!("lookup model and git disagree on {q:?}: model={model_val:?} git={git_val:?}"));
            continue;
        }
        if let (Some(gn), Some((final_name, _))) = (git_names.get(q.as_str()), &m_resolved) {
            if gn != final_name {
                obs.count("model_differs_from_git", 1);
                obs.inconclusive.push(format!("lookup model and git disagree on which ref {q:?} names: model={:?} git={:?}", String::from_utf8_lossy(final_name), String::from_utf8_lossy(gn)));
                continue;
            }
            obs.count("find_names_confirmed_by_rev_parse", 1);
        }
        obs.evals += 1;
        obs.count(&format!("find_queries_{qc}"), 1);
        let mut wv = layout_witness.clone();
        wv["query"] = json!(q);
        wv["git_resolves_to"] = json!(m.as_ref().map(|(i, n)| format!("rule {} -> {}", i + 1, String::from_utf8_lossy(n))));
        wv["git_value"] = json!(git_val);
        let res = guard(|| store.try_find(q.as_str()).map(|o| o.map(|r| {
            (r.name.as_bstr().to_vec(), to_tgt(&r.target), r.peeled.map(|p| p.to_hex().to_string()))
        })));
        let where_stored = m.as_ref().map(|(_, n)| {
            let n = String::from_utf8_lossy(n).to_string();
            (l.loose.contains_key(&n), l.packed.contains_key(&n))
        });
        obs.distinct.push(fw::hash_of(&("find", qc, m.as_ref().map(|(i, _)| *i), where_stored)));
        match res {
            Err(p) => {
                if p.in_repo {
                    obs.findings.push((format!("panic|try_find|{}|{qc}", p.site), format!("try_find panicked at {}: {}", p.site, p.message), wv));
                } else {
                    obs.inconclusive.push(format!("harness panic at {}: {}", p.site, p.message));
                }
            }
            Ok(Err(e)) => {
                wv["error"] = json!(e.to_string());
                // does one of the lookup candidates run through an existing loose ref *file* (ENOTDIR)?
                let cands = [q.to_string(), format!("refs/{q}"), format!("refs/tags/{q}"), format!("refs/heads/{q}"), format!("refs/remotes/{q}"), format!("refs/remotes/{q}/HEAD")];
                let crosses = cands.iter().any(|c| l.loose.keys().any(|n| c.len() > n.len() && c.starts_with(n.as_str()) && c.as_bytes()[n.len()] == b'/'));
                let cause = if crosses { "candidate-path-runs-through-a-loose-ref-file" } else { "other" };
                obs.findings.push((format!("find|error|{cause}"), format!("try_find({q:?}) failed: {e}"), wv));
            }
            Ok(Ok(found)) => match (&m, found) {
                (None, None) => obs.count("find_both_missing", 1),
                (Some((rule, n)), None) => {
                    let sub = if *rule == 5 && where_stored == Some((false, true)) { "remote-head-only-in-packed-refs" } else { "git-finds-it" };
                    // upper-case short names: which of git's rules finds it is part of the class (rule 2 = directly below refs/)
                    let sub = if sub != "git-finds-it" {
                        sub.to_string()
                    } else if qc == "uppercase-short-name" {
                        format!("{qc}|git-rule-{}", rule + 1)
                    } else {
                        qc.to_string()
                    };
                    obs.findings.push((format!("find|not-found|{sub}"), format!("try_find({q:?}) returns None, git resolves it to {}", String::from_utf8_lossy(n)), wv));
                }
                (None, Some((n, _, _))) => {
                    wv["gitoxide_found"] = json!(String::from_utf8_lossy(&n));
                    obs.findings.push((format!("find|found-but-git-does-not|{qc}"), format!("try_find({q:?}) finds {} but git cannot resolve the name", String::from_utf8_lossy(&n)), wv));
                }
                (Some((rule, want)), Some((n, t, _pid))) => {
                    let qc = if qc == "uppercase-short-name" { format!("{qc}|git-rule-{}", rule + 1) } else { qc.to_string() };
                    wv["gitoxide_found"] = json!(format!("{} {:?}", String::from_utf8_lossy(&n), t));
                    let want_t = if want == b"HEAD" { l.head.as_ref().map(tgt_of) } else { visible.get(want).cloned() };
                    if &n != want {
                        obs.findings.push((format!("find|wrong-ref|{qc}"), format!("try_find({q:?}) finds {} but git's lookup order gives {}", String::from_utf8_lossy(&n), String::from_utf8_lossy(want)), wv));
                    } else if Some(&t) != want_t.as_ref() {
                        let k = if stale_packed.get(&n) == Some(&t) { "stale-packed-value" } else { "wrong-value" };
                        obs.findings.push((format!("find|{k}|{qc}"), format!("try_find({q:?}) returns a value that differs from what git reads"), wv));
                    } else {
                        obs.count("find_agree", 1);
                    }
                }
            },
        }
    }
    obs
}

// ------------------------------------------------------------------ setup

fn make_base(base: &Path) -> Result<Vec<Obj>, String> {
    fw::git::init(base, true)?;
    let who = "C O Mitter <c@example.com> 1700000000 +0000";
    let mut s = String::new();
    s.push_str("blob\nmark :1\ndata 2\nx\n\n");
    for i in 0..4 {
        s.push_str(&format!("commit refs/keep/c{i}\nmark :{}\ncommitter {who}\ndata 3\nc{i}\nM 100644 :1 f{i}\n\n", 10 + i));
    }
    s.push_str(&format!("tag t1\nmark :20\nfrom :10\ntagger {who}\ndata 3\nt1\n\n"));
    s.push_str(&format!("tag t2\nmark :21\nfrom :20\ntagger {who}\ndata 3\nt2\n\n"));
    fw::git::ok_in(base, &["fast-import", "--quiet"], s.as_bytes())?;
    let out = fw::git::ok(base, &["rev-parse", "refs/keep/c0", "refs/keep/c1", "refs/keep/c2", "refs/keep/c3", "refs/tags/t1", "refs/tags/t2"])?;
    let ids: Vec<String> = out.lines().map(|l| l.trim().to_string()).collect();
    if ids.len() != 6 {
        return Err(format!("unexpected rev-parse output {out:?}"));
    }
    let mut objs: Vec<Obj> = ids[..4].iter().map(|o| Obj { oid: o.clone(), peeled: None }).collect();
    objs.push(Obj { oid: ids[4].clone(), peeled: Some(ids[0].clone()) });
    objs.push(Obj { oid: ids[5].clone(), peeled: Some(ids[0].clone()) });
    Ok(objs)
}

fn copy_dir(from: &Path, to: &Path) -> std::io::Result<()> {
    std::fs::create_dir_all(to)?;
    for e in std::fs::read_dir(from)? {
        let e = e?;
        let p = to.join(e.file_name());
        if e.file_type()?.is_dir() {
            copy_dir(&e.path(), &p)?;
        } else {
            std::fs::copy(e.path(), &p)?;
        }
    }
    Ok(())
}

const THREADS: usize = 4;

pub fn run(ctx: &mut Ctx) {
    ctx.rule("scenario = ref layout of 1..40 names under refs/heads, refs/tags, refs/remotes/o, refs/x, refs/ built from components {a,a-b,a.b,a0,a+b,a,b,a-,b,Z,0,é,ab,MAIN} (bytes below '/' next to directory boundaries), each loose / packed / both / both-with-stale-packed-value, symbolic refs, annotated-tag values with peel lines, 1/4 realised by git update-ref+pack-refs, 1/8 with header-less or unsorted packed-refs; observed: iter().all(), iter().prefixed(p) for directory and partial-name prefixes, try_find for every full name and its short forms; distinct = (set of (byte below '/', sibling kind, storage) adjacencies, #stale, realisation) per layout, (prefix class, walk-order anomaly, size) per prefix query, (query class, git rule that matches, storage) per lookup");
    ctx.assume("no directory/file conflicts, no dangling symbolic refs below refs/, no broken files: git for-each-ref does not list those (C06 covers broken input)");
    ctx.assume("a prefix that is a directory on disk or ends in '/' means 'everything below that directory' (documented, and what git for-each-ref <prefix> prints); for a partial-name prefix only results that are wrong under both readings (string prefix / git pattern) are reported");
    let base = ctx.dir("base");
    let objs = match make_base(&base) {
        Ok(o) => o,
        Err(e) => {
            ctx.inconclusive(&format!("base repository could not be built: {e}"));
            return;
        }
    };
    let mut workers = Vec::new();
    for i in 0..THREADS {
        let d = ctx.dir(&format!("w{i}"));
        if let Err(e) = copy_dir(&base, &d) {
            ctx.inconclusive(&format!("copy failed: {e}"));
            return;
        }
        workers.push(Worker { repo: d, objs: objs.clone() });
    }
    let groups = ctx.n(4, 700);
    let quick = ctx.quick();
    ctx.cases("layouts", groups, |ctx, r| {
        let rngs: Vec<Rng> = (0..THREADS).map(|_| r.fork()).collect();
        let results: Vec<Result<Obs, fw::PanicInfo>> = std::thread::scope(|s| {
            let hs: Vec<_> = workers
                .iter()
                .zip(rngs)
                .map(|(w, mut rr)| s.spawn(move || {
                    let mut all = Vec::new();
                    for _ in 0..2 {
                        all.push(guard(|| run_layout(w, &mut rr, quick)));
                    }
                    all
                }))
                .collect();
            hs.into_iter().flat_map(|h| h.join().expect("worker")).collect()
        });
        for res in results {
            match res {
                Err(p) => ctx.panic_violation("layout-worker", &p, "layout", json!({})),
                Ok(obs) => {
                    ctx.add_evals(obs.evals);
                    for (k, v) in &obs.counts {
                        ctx.count_n(k, *v);
                    }
                    for d in &obs.distinct {
                        ctx.distinct(d);
                    }
                    for i in &obs.inconclusive {
                        ctx.inconclusive(i);
                    }
                    for (sig, what, w) in obs.findings {
                        ctx.violation(&sig, &what, w);
                    }
                    if let Some(s) = obs.sample {
                        if ctx.want_sample() {
                            ctx.sample(s);
                        }
                    }
                }
            }
        }
    });
}
