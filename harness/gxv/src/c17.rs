//! C17 Reference transactions terminate under lock contention (fault enumeration).
//!
//! For every generated (store state, transaction) the set L of lock files the transaction can touch is
//! computed (`<ref>.lock` for every edit and every referent reached through `deref`, `packed-refs.lock`;
//! at most 6) and EVERY subset of L is created as a foreign lock before an isolated child process performs
//! exactly one `prepare(+commit)`. Oracle: the child answers before the watchdog expires (a timeout is
//! re-run alone with a 20x budget before it is called a hang), and afterwards the lock files below the git
//! directory are exactly the foreign ones.
//! The transaction model and helpers are shared with C16 (`crate::c16`).
use crate::c16::{self, MEdit, MVal, Model, Op, Pred, DANGLING, MODE_NAMES, NAMES};
use crate::fw::{isolate, Ctx, Rng};
use gix_hash::ObjectId;
use gix_lock::acquire::Fail;
use serde_json::{json, Value};
use std::collections::{BTreeMap, BTreeSet};
use std::path::{Path, PathBuf};
use std::time::Duration;

// ------------------------------------------------------------------ child: exactly one prepare(+commit)

fn exp_from_json(v: &Value) -> c16::Exp {
    let val = |v: &Value| -> MVal {
        if let Some(i) = v["obj"].as_u64() {
            MVal::Obj(i as usize)
        } else {
            MVal::Sym(v["sym"].as_str().unwrap_or("").to_string())
        }
    };
    match v["kind"].as_str().unwrap_or("any") {
        "must-exist" => c16::Exp::MustExist,
        "must-not-exist" => c16::Exp::MustNotExist,
        "must-exist-and-match" => c16::Exp::MustExistAndMatch(val(&v["value"])),
        "existing-must-match" => c16::Exp::ExistingMustMatch(val(&v["value"])),
        _ => c16::Exp::Any,
    }
}
fn val_to_json(v: &MVal) -> Value {
    match v {
        MVal::Obj(i) => json!({"obj": i}),
        MVal::Sym(s) => json!({"sym": s}),
    }
}
fn exp_to_json(e: &c16::Exp) -> Value {
    match e {
        c16::Exp::Any => json!({"kind": "any"}),
        c16::Exp::MustExist => json!({"kind": "must-exist"}),
        c16::Exp::MustNotExist => json!({"kind": "must-not-exist"}),
        c16::Exp::MustExistAndMatch(v) => json!({"kind": "must-exist-and-match", "value": val_to_json(v)}),
        c16::Exp::ExistingMustMatch(v) => json!({"kind": "existing-must-match", "value": val_to_json(v)}),
    }
}
fn edit_to_json(e: &MEdit) -> Value {
    json!({"name": e.name, "delete": e.op == Op::Delete, "new": match &e.op { Op::Update(v) => val_to_json(v), Op::Delete => Value::Null },
           "expected": exp_to_json(&e.exp), "deref": e.deref, "log_only": e.log_only})
}
fn edit_from_json(v: &Value) -> MEdit {
    let new = if let Some(i) = v["new"]["obj"].as_u64() { MVal::Obj(i as usize) } else { MVal::Sym(v["new"]["sym"].as_str().unwrap_or("").to_string()) };
    MEdit {
        name: v["name"].as_str().unwrap_or("HEAD").to_string(),
        op: if v["delete"].as_bool().unwrap_or(false) { Op::Delete } else { Op::Update(new) },
        exp: exp_from_json(&v["expected"]),
        deref: v["deref"].as_bool().unwrap_or(false),
        log_only: v["log_only"].as_bool().unwrap_or(false),
    }
}
fn fail_mode(ms: u64) -> Fail {
    if ms == 0 {
        Fail::Immediately
    } else {
        Fail::AfterDurationWithBackoff(Duration::from_millis(ms))
    }
}

pub fn child(_mode: &str) {
    isolate::serve(|payload| {
        let v: Value = match serde_json::from_slice(payload) {
            Ok(v) => v,
            Err(e) => return format!("bad-payload {e}").into_bytes(),
        };
        let repo = PathBuf::from(v["repo"].as_str().unwrap_or(""));
        let objs: Vec<ObjectId> = v["objs"].as_array().map(|a| a.iter().filter_map(|h| ObjectId::from_hex(h.as_str().unwrap_or("").as_bytes()).ok()).collect()).unwrap_or_default();
        let edits: Vec<MEdit> = v["edits"].as_array().map(|a| a.iter().map(edit_from_json).collect()).unwrap_or_default();
        let mode = v["packed_refs"].as_u64().unwrap_or(0) as u8;
        let store = c16::store_at(&repo, v["reflog"].as_bool().unwrap_or(false));
        let odb = match gix_odb::at(repo.join("objects")) {
            Ok(o) => o,
            Err(e) => return format!("no-odb {e}").into_bytes(),
        };
        let ref_edits: Vec<_> = edits.iter().map(|e| c16::to_ref_edit(e, &objs)).collect();
        let sig = gix_actor::SignatureRef { name: "gxv".into(), email: "gxv@example.com".into(), time: gix_date::Time { seconds: 1_700_000_000, offset: 0, sign: gix_date::time::Sign::Plus } };
        let t = store.transaction().packed_refs(c16::packed_mode(mode, &odb));
        let out = match t.prepare(ref_edits, fail_mode(v["ref_fail_ms"].as_u64().unwrap_or(0)), fail_mode(v["packed_fail_ms"].as_u64().unwrap_or(0))) {
            Err(e) => format!("prepare-err {}", first_line(&e.to_string())),
            Ok(t) => {
                if v["commit"].as_bool().unwrap_or(true) {
                    match t.commit(Some(sig)) {
                        Ok(_) => "committed".to_string(),
                        Err(e) => format!("commit-err {}", first_line(&e.to_string())),
                    }
                } else {
                    drop(t);
                    "prepared-and-rolled-back".to_string()
                }
            }
        };
        out.into_bytes()
    });
}

fn first_line(s: &str) -> String {
    s.lines().next().unwrap_or("").chars().take(160).collect()
}

// ------------------------------------------------------------------ parent

#[derive(Clone, Debug, Default)]
struct State {
    /// loose files: name -> value
    loose: BTreeMap<String, MVal>,
    /// packed-refs entries
    packed: BTreeMap<String, usize>,
}
impl State {
    fn model(&self) -> Model {
        let mut m: Model = self.packed.iter().map(|(k, v)| (k.clone(), MVal::Obj(*v))).collect();
        for (k, v) in &self.loose {
            m.insert(k.clone(), v.clone());
        }
        m
    }
}

fn write_state(repo: &Path, st: &State, ids: &[String]) -> std::io::Result<()> {
    c16::reset_refs(repo)?;
    // reset_refs leaves HEAD -> refs/heads/main; remove every stray lock as well
    fn rm_locks(dir: &Path) {
        if let Ok(rd) = std::fs::read_dir(dir) {
            for e in rd.flatten() {
                let p = e.path();
                if p.is_dir() {
                    rm_locks(&p);
                } else if p.extension().map_or(false, |x| x == "lock") {
                    let _ = std::fs::remove_file(&p);
                }
            }
        }
    }
    rm_locks(repo);
    for (n, v) in &st.loose {
        let p = repo.join(n);
        std::fs::create_dir_all(p.parent().unwrap())?;
        std::fs::write(
            &p,
            match v {
                MVal::Obj(i) => format!("{}\n", ids[*i]),
                MVal::Sym(t) => format!("ref: {t}\n"),
            },
        )?;
    }
    if !st.packed.is_empty() {
        let mut out = String::from("# pack-refs with: peeled fully-peeled sorted \n");
        for (n, o) in &st.packed {
            out.push_str(&format!("{} {}\n", ids[*o], n));
            if *o == 4 {
                out.push_str(&format!("^{}\n", ids[0]));
            }
        }
        std::fs::write(repo.join("packed-refs"), out)?;
    }
    Ok(())
}

fn gen_state(r: &mut Rng, n_objs: usize) -> (State, &'static str) {
    let mut st = State::default();
    let place = |st: &mut State, r: &mut Rng, name: &str, v: usize| match r.below(3) {
        0 => {
            st.loose.insert(name.into(), MVal::Obj(v));
        }
        1 => {
            st.packed.insert(name.into(), v);
        }
        _ => {
            st.loose.insert(name.into(), MVal::Obj(v));
            st.packed.insert(name.into(), (v + 1) % 4);
        }
    };
    let template = match r.below(6) {
        0 | 1 => {
            st.loose.insert("HEAD".into(), MVal::Sym("refs/heads/main".into()));
            let v = r.usize(4);
            place(&mut st, r, "refs/heads/main", v);
            "HEAD->main"
        }
        2 => {
            st.loose.insert("HEAD".into(), MVal::Sym("refs/heads/main".into()));
            "HEAD->unborn"
        }
        3 => {
            st.loose.insert("HEAD".into(), MVal::Sym("refs/heads/b".into()));
            st.loose.insert("refs/heads/b".into(), MVal::Sym("refs/heads/main".into()));
            if r.chance(3, 4) {
                let v = r.usize(4);
                place(&mut st, r, "refs/heads/main", v);
            }
            "HEAD->b->main"
        }
        4 => {
            st.loose.insert("HEAD".into(), MVal::Obj(r.usize(4)));
            st.loose.insert("refs/remotes/o/HEAD".into(), MVal::Sym("refs/remotes/o/a".into()));
            let v = r.usize(4);
            place(&mut st, r, "refs/remotes/o/a", v);
            "detached+remote-HEAD->a"
        }
        _ => {
            st.loose.insert("HEAD".into(), MVal::Sym("refs/heads/main".into()));
            "random"
        }
    };
    // sprinkle further refs
    for n in NAMES.iter().skip(1) {
        if st.loose.contains_key(*n) || st.packed.contains_key(*n) || !r.chance(1, 3) {
            continue;
        }
        if st.loose.keys().chain(st.packed.keys()).any(|k| c16::df_conflict(k, n)) {
            continue;
        }
        if r.chance(1, 5) {
            let mut cands: Vec<&str> = NAMES.iter().copied().filter(|x| *x != "HEAD" && x != n).collect();
            cands.push(DANGLING);
            st.loose.insert(n.to_string(), MVal::Sym(r.pick(&cands).to_string()));
        } else {
            let v = if n.starts_with("refs/tags/") { r.usize(n_objs) } else { r.usize(4) };
            place(&mut st, r, n, v);
        }
    }
    (st, template)
}

fn gen_txn(r: &mut Rng, model: &Model, n_objs: usize) -> Vec<MEdit> {
    let n = 1 + r.usize(3);
    let mut edits: Vec<MEdit> = Vec::new();
    for i in 0..n {
        let symbolic: Vec<&String> = model.iter().filter(|(_, v)| matches!(v, MVal::Sym(_))).map(|(k, _)| k).collect();
        let name = if i == 0 && !symbolic.is_empty() && r.chance(2, 3) { (*r.pick(&symbolic)).clone() } else { r.pick(NAMES).to_string() };
        if edits.iter().any(|e| e.name == name) {
            continue;
        }
        let deref = if i == 0 { r.chance(4, 5) } else { r.bool() };
        let leaf = {
            let mut cur = name.clone();
            for _ in 0..6 {
                match model.get(&cur) {
                    Some(MVal::Sym(t)) if deref => cur = t.clone(),
                    _ => break,
                }
            }
            cur
        };
        let cur = model.get(&leaf).cloned();
        let op = if r.chance(1, 4) {
            Op::Delete
        } else if r.chance(1, 6) {
            let mut cands: Vec<&str> = NAMES.iter().copied().filter(|x| *x != "HEAD" && *x != name).collect();
            cands.push(DANGLING);
            Op::Update(MVal::Sym(r.pick(&cands).to_string()))
        } else {
            Op::Update(MVal::Obj(r.usize(if name.starts_with("refs/tags/") { n_objs } else { 4 })))
        };
        let exp = match (r.below(5), &cur) {
            (0, _) | (1, _) => c16::Exp::Any,
            (2, Some(c)) => c16::Exp::MustExistAndMatch(c.clone()),
            (3, Some(c)) => c16::Exp::ExistingMustMatch(c.clone()),
            (2, None) | (3, None) => {
                if op == Op::Delete {
                    c16::Exp::Any
                } else {
                    c16::Exp::MustNotExist
                }
            }
            _ => c16::Exp::MustExist,
        };
        if name == "HEAD" && op == Op::Delete && !(deref && matches!(model.get("HEAD"), Some(MVal::Sym(_)))) {
            continue;
        }
        edits.push(MEdit { name, op, exp, deref, log_only: false });
    }
    edits
}

fn list_locks(repo: &Path) -> BTreeSet<String> {
    fn walk(dir: &Path, base: &Path, out: &mut BTreeSet<String>) {
        if let Ok(rd) = std::fs::read_dir(dir) {
            for e in rd.flatten() {
                let p = e.path();
                if p.is_dir() {
                    if p.file_name().map_or(false, |n| n == "objects") {
                        continue;
                    }
                    walk(&p, base, out);
                } else if p.extension().map_or(false, |x| x == "lock") {
                    out.insert(p.strip_prefix(base).unwrap().display().to_string());
                }
            }
        }
    }
    let mut out = BTreeSet::new();
    walk(repo, repo, &mut out);
    out
}

const FIRST_TIMEOUT: Duration = Duration::from_secs(1);
const CONFIRM_TIMEOUT: Duration = Duration::from_secs(20);

pub fn run(ctx: &mut Ctx) {
    ctx.rule("case = (store state from templates HEAD->main, HEAD->unborn, HEAD->b->main (two-level), detached HEAD + remote HEAD, random; loose/packed/both placement) x (transaction of 1..3 edits, mostly deref=true through a symbolic ref, all PackedRefs modes) x EVERY subset of its <=6 lock files pre-created as foreign locks x lock fail mode (immediately / 5 ms / 50 ms back-off); an isolated child runs exactly one prepare(+commit); distinct = (state template, change kinds, deref-through-symref?, PackedRefs mode, subset bitmap over (packed-refs, direct edit, split edit) locks, fail mode)");
    ctx.assume("a call that does not answer within 1 s is repeated alone with a 20 s budget (20x) before it is reported as a hang; after a hang class has been confirmed in this run, further cases of the same class (same dominant kind of held lock: split edit > direct edit > packed-refs) are skipped and counted, because each costs the full watchdog budget");
    ctx.assume("directory/file conflicts are not provoked; no precise upper bound on the back-off duration is asserted (wall-clock is not a verdict), only termination");
    let base = ctx.dir("base");
    let ids = match c16::make_base(&base) {
        Ok(o) => o,
        Err(e) => {
            ctx.inconclusive(&format!("base repository could not be built: {e}"));
            return;
        }
    };
    let repo = ctx.dir("repo");
    if let Err(e) = c16::copy_dir(&base, &repo) {
        ctx.inconclusive(&format!("copy failed: {e}"));
        return;
    }
    let mut worker = isolate::Child::new("C17", "txn");
    let mut confirmed_hang_classes: BTreeSet<String> = BTreeSet::new();
    let n_txn = ctx.n(30, 700);
    ctx.cases("contention", n_txn, |ctx, r| {
        let (st, template) = gen_state(r, ids.len());
        let model = st.model();
        let edits = gen_txn(r, &model, ids.len());
        if edits.is_empty() {
            ctx.count("skipped_empty_transaction");
            return;
        }
        let work = match c16::predict(&model, &edits) {
            Pred::Skip(_) => {
                ctx.count("skipped_directory_file_conflict");
                return;
            }
            Pred::MustFail { work, .. } => work,
            Pred::Ok { work, .. } => work,
        };
        // L: packed-refs.lock first, then the locks in processing order
        let mut locks: Vec<(String, &'static str)> = vec![("packed-refs.lock".into(), "packed-refs")];
        for wk in &work {
            let p = format!("{}.lock", wk.name);
            if !locks.iter().any(|(l, _)| *l == p) {
                locks.push((p, if wk.split { "split-edit" } else { "direct-edit" }));
            }
        }
        locks.truncate(6);
        let mode = r.below(3) as u8;
        let fail_ms = |r: &mut Rng| *r.pick(&[0u64, 0, 0, 5, 5, 50]);
        let ref_fail_ms = fail_ms(r);
        let packed_fail_ms = if r.chance(2, 3) { ref_fail_ms } else { fail_ms(r) };
        let commit = r.chance(4, 5);
        let through = edits.iter().any(|e| e.deref && matches!(model.get(&e.name), Some(MVal::Sym(_))));
        let kinds: Vec<&str> = edits
            .iter()
            .map(|e| match &e.op {
                Op::Delete => "delete",
                Op::Update(MVal::Obj(_)) => "update-object",
                Op::Update(MVal::Sym(_)) => "update-symbolic",
            })
            .collect();
        ctx.count("transactions");
        if through {
            ctx.count("transactions_deref_through_symref");
        }
        ctx.count(&format!("state_{template}"));
        let payload = json!({
            "repo": repo.display().to_string(), "objs": ids, "edits": edits.iter().map(edit_to_json).collect::<Vec<_>>(),
            "packed_refs": mode, "ref_fail_ms": ref_fail_ms, "packed_fail_ms": packed_fail_ms, "commit": commit, "reflog": false,
        });
        let payload_bytes = serde_json::to_vec(&payload).unwrap();
        // subsets in order of size, so that minimal lock sets are met first
        let mut subsets: Vec<u32> = (0..(1u32 << locks.len())).collect();
        subsets.sort_by_key(|s| (s.count_ones(), *s));
        for subset in subsets {
            if !ctx.time_left() {
                ctx.count("budget_stops_inside_enumeration");
                break;
            }
            let held: Vec<&(String, &'static str)> = locks.iter().enumerate().filter(|(i, _)| subset & (1 << i) != 0).map(|(_, l)| l).collect();
            // class of the lock set: a held lock of a split (dereferenced) edit dominates, then direct edits, then packed-refs.
            // (Which held lock the transaction meets first cannot be told from outside: under a packed-refs transaction
            // deletions and no-op updates do not take their own lock at all.)
            let first_held = ["split-edit", "direct-edit", "packed-refs"].into_iter().find(|k| held.iter().any(|l| l.1 == *k)).unwrap_or("no");
            let class = format!("{first_held}-lock-held");
            if confirmed_hang_classes.contains(&class) {
                ctx.count(&format!("skipped_after_confirmed_hang_{class}"));
                continue;
            }
            if let Err(e) = write_state(&repo, &st, &ids) {
                ctx.inconclusive(&format!("cannot write state: {e}"));
                return;
            }
            let mut foreign: BTreeSet<String> = BTreeSet::new();
            let mut setup_ok = true;
            for (l, _) in &held {
                let p = repo.join(l);
                if std::fs::create_dir_all(p.parent().unwrap()).is_err() || std::fs::write(&p, b"").is_err() {
                    setup_ok = false;
                }
                foreign.insert(l.clone());
            }
            if !setup_ok {
                ctx.count("skipped_lock_could_not_be_placed");
                continue;
            }
            ctx.eval();
            ctx.count(&format!("runs_class_{first_held}"));
            let kinds_held: BTreeSet<&str> = held.iter().map(|l| l.1).collect();
            ctx.distinct((template, &kinds, through, mode, &kinds_held, held.len(), ref_fail_ms, packed_fail_ms));
            let w = json!({
                "state": {"loose": st.loose.iter().map(|(k, v)| format!("{k} = {}", match v { MVal::Obj(i) => ids[*i][..8].to_string(), MVal::Sym(t) => format!("ref: {t}") })).collect::<Vec<_>>(),
                          "packed": st.packed.iter().map(|(k, v)| format!("{k} = {}", &ids[*v][..8])).collect::<Vec<_>>()},
                "transaction": edits.iter().map(edit_to_json).collect::<Vec<_>>(), "packed_refs_mode": MODE_NAMES[mode as usize],
                "ref_lock_fail_ms": ref_fail_ms, "packed_lock_fail_ms": packed_fail_ms, "commit": commit,
                "lock_files_of_the_transaction": locks.iter().map(|l| format!("{} ({})", l.0, l.1)).collect::<Vec<_>>(),
                "foreign_locks_held": foreign.iter().collect::<Vec<_>>(),
            });
            let mut outcome = worker.call(&payload_bytes, FIRST_TIMEOUT);
            if let isolate::Outcome::Timeout = outcome {
                ctx.count("first_level_timeouts");
                // alone, with twenty times the budget, from the same initial state
                let _ = write_state(&repo, &st, &ids);
                for (l, _) in &held {
                    let p = repo.join(l);
                    let _ = std::fs::create_dir_all(p.parent().unwrap());
                    let _ = std::fs::write(&p, b"");
                }
                outcome = worker.call(&payload_bytes, CONFIRM_TIMEOUT);
                if !matches!(outcome, isolate::Outcome::Timeout) {
                    ctx.count("timeouts_not_confirmed");
                }
            }
            match outcome {
                isolate::Outcome::Timeout => {
                    ctx.count("hangs_confirmed");
                    let entry = "prepare";
                    ctx.violation(
                        &format!("hang|{entry}|{class}"),
                        &format!("prepare()/commit() did not return within {} s (run alone) while foreign lock files {:?} exist", CONFIRM_TIMEOUT.as_secs(), foreign),
                        w,
                    );
                    confirmed_hang_classes.insert(class);
                }
                isolate::Outcome::Panic(p) => ctx.panic_violation("transaction", &p, &class, w),
                isolate::Outcome::Died(d) => ctx.violation(&format!("died|transaction|{class}"), &format!("the process running the transaction died: {d}"), w),
                isolate::Outcome::Ok(resp) => {
                    let resp = String::from_utf8_lossy(&resp).to_string();
                    if resp.starts_with("bad-payload") || resp.starts_with("no-odb") {
                        ctx.inconclusive(&format!("child could not run the case: {resp}"));
                        continue;
                    }
                    let key = resp.split(' ').next().unwrap_or("?").to_string();
                    ctx.count(&format!("outcome_{key}"));
                    let after = list_locks(&repo);
                    if after != foreign {
                        let left: Vec<&String> = after.difference(&foreign).collect();
                        let stolen: Vec<&String> = foreign.difference(&after).collect();
                        let mut w = w.clone();
                        w["outcome"] = json!(resp);
                        w["own_locks_left_behind"] = json!(left);
                        w["foreign_locks_removed"] = json!(stolen);
                        let k = if !left.is_empty() { "own-lock-left-behind" } else { "foreign-lock-removed" };
                        ctx.violation(&format!("locks|{k}|{key}|{class}"), "after the call the lock files are not exactly the foreign ones", w);
                    }
                    if ctx.want_sample() {
                        ctx.sample(json!({"case": w, "outcome": resp}));
                    }
                }
            }
        }
    });
    ctx.note("confirmed_hang_classes", json!(confirmed_hang_classes.iter().collect::<Vec<_>>()));
}
