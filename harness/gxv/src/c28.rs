//! C28 Config edits change only what was edited.
//! Oracles: M - an ordered multimap model (sections in file order, each with its (key, value|implicit) list) that follows
//! the documented semantics of every edit API; after every edit (a) the edited `File` serialized with `to_bstring()`
//! and parsed again must list exactly the model, (b) in-memory `raw_values_by` lookups and `sections()` must agree
//! with the model, (c) event diff: every comment, header, key, separator and value event of the text before the
//! edit that does not belong to the edited key/section must still be there, in order, in the text after the edit.
//! G - `git config -z --list` reads the starting text (must agree with the model, else the history is not judged: that
//! is C27's subject) and the final text (must list the model).
//! Part 2 (model-free, see "edit sequences on ONE in-memory file" below): after every step of a sequence of section renames,
//! removals, additions and value edits the long-lived `File` must behave like a fresh parse of its own serialization
//! (same lookups, same effect of the next edit), like git reads that serialization, and like the `git config --file`
//! command of the same meaning edits it.
use crate::c26::{feat_names, gen_config, GenOpts};
use crate::c27::{git_list_batch, GitEntry};
use crate::fw::{guard, show, Ctx, PanicInfo, Rng};
use bstr::{BStr, BString, ByteSlice};
use gix_config::parse::{section::ValueName, Event, Events};
use serde_json::json;
use std::borrow::Cow;
use std::collections::{BTreeSet, HashSet};

pub fn child(_mode: &str) {}

// ------------------------------------------------------------------ model

#[derive(Clone, Debug, PartialEq, Eq)]
struct MKv {
    key: Vec<u8>,
    /// None = implicit boolean
    val: Option<Vec<u8>>,
}

#[derive(Clone, Debug, PartialEq, Eq)]
struct MSec {
    name: Vec<u8>,
    sub: Option<Vec<u8>>,
    kvs: Vec<MKv>,
}

fn sec_matches(s: &MSec, name: &[u8], sub: Option<&[u8]>) -> bool {
    s.name.eq_ignore_ascii_case(name) && s.sub.as_deref() == sub
}

fn last_section(m: &[MSec], name: &[u8], sub: Option<&[u8]>) -> Option<usize> {
    m.iter().rposition(|s| sec_matches(s, name, sub))
}

fn last_key(s: &MSec, key: &[u8]) -> Option<usize> {
    s.kvs.iter().rposition(|kv| kv.key.eq_ignore_ascii_case(key))
}

fn valid_section_name(n: &[u8]) -> bool {
    n.iter().all(|b| b.is_ascii_alphanumeric() || *b == b'-')
}

fn valid_subsection(n: &[u8]) -> bool {
    !n.contains(&b'\n') && !n.contains(&0)
}

/// what git lists for the model: (lower section[.sub].lower key, value)
fn model_listing(m: &[MSec]) -> Vec<(Vec<u8>, Option<Vec<u8>>)> {
    let mut out = Vec::new();
    for s in m {
        for kv in &s.kvs {
            let mut k = s.name.to_ascii_lowercase();
            if let Some(sub) = &s.sub {
                k.push(b'.');
                k.extend_from_slice(sub);
            }
            k.push(b'.');
            k.extend_from_slice(&kv.key.to_ascii_lowercase());
            out.push((k, kv.val.clone()));
        }
    }
    out
}

// ------------------------------------------------------------------ reading texts

struct FlatEv {
    ev: Event<'static>,
    /// usize::MAX = frontmatter
    sec: usize,
    kv: Option<usize>,
    header: bool,
}

fn is_content(e: &Event<'_>) -> bool {
    !matches!(e, Event::Whitespace(_) | Event::Newline(_))
}

/// all events of a text in order, tagged with the section and key/value pair they belong to
fn flatten(text: &[u8]) -> Result<Vec<FlatEv>, String> {
    let ev = Events::from_bytes(text, None).map_err(|e| e.to_string())?;
    let mut out = flatten_events(&ev);
    // a CR before the line feed belongs to the line ending, the parser leaves it in the comment text
    for f in out.iter_mut() {
        if let Event::Comment(c) = &mut f.ev {
            if c.text.last() == Some(&b'\r') {
                let mut t = c.text.to_vec();
                t.pop();
                c.text = Cow::Owned(t.into());
            }
        }
    }
    Ok(out)
}

fn flatten_events(ev: &Events<'_>) -> Vec<FlatEv> {
    let mut out = Vec::new();
    for e in &ev.frontmatter {
        out.push(FlatEv { ev: e.to_owned(), sec: usize::MAX, kv: None, header: false });
    }
    for (si, s) in ev.sections.iter().enumerate() {
        out.push(FlatEv { ev: Event::SectionHeader(s.header.to_owned()), sec: si, kv: None, header: true });
        let mut kv_idx: Option<usize> = None;
        let mut open = false;
        for e in &s.events {
            match e {
                Event::SectionValueName(_) => {
                    kv_idx = Some(kv_idx.map_or(0, |k| k + 1));
                    open = true;
                    out.push(FlatEv { ev: e.to_owned(), sec: si, kv: kv_idx, header: false });
                }
                Event::Value(_) | Event::ValueDone(_) if open => {
                    out.push(FlatEv { ev: e.to_owned(), sec: si, kv: kv_idx, header: false });
                    open = false;
                }
                _ => out.push(FlatEv { ev: e.to_owned(), sec: si, kv: if open { kv_idx } else { None }, header: false }),
            }
        }
    }
    out
}

/// sections and values of a text as gitoxide's parser and `normalize` see them
fn read_back(flat: &[FlatEv]) -> Vec<MSec> {
    let mut secs: Vec<MSec> = Vec::new();
    let mut raw: Vec<u8> = Vec::new();
    let mut saw_sep = false;
    for f in flat {
        if f.header {
            if let Event::SectionHeader(h) = &f.ev {
                secs.push(MSec { name: h.name().to_vec(), sub: h.subsection_name().map(|s| s.to_vec()), kvs: Vec::new() });
            }
            continue;
        }
        let Some(sec) = secs.last_mut() else { continue };
        if f.kv.is_none() {
            continue;
        }
        match &f.ev {
            Event::SectionValueName(k) => {
                sec.kvs.push(MKv { key: k.as_ref().as_bytes().to_vec(), val: None });
                raw.clear();
                saw_sep = false;
            }
            Event::KeyValueSeparator => saw_sep = true,
            Event::ValueNotDone(v) => raw.extend_from_slice(v.as_ref()),
            Event::Value(v) | Event::ValueDone(v) => {
                raw.extend_from_slice(v.as_ref());
                if saw_sep {
                    let n = gix_config::value::normalize_bstr(raw.as_bstr()).to_vec();
                    if let Some(kv) = sec.kvs.last_mut() {
                        kv.val = Some(n);
                    }
                }
            }
            _ => {}
        }
    }
    secs
}

fn same_model(a: &[MSec], b: &[MSec]) -> bool {
    a.len() == b.len()
        && a.iter().zip(b).all(|(x, y)| {
            x.name == y.name
                && x.sub == y.sub
                && x.kvs.len() == y.kvs.len()
                && x.kvs.iter().zip(&y.kvs).all(|(p, q)| p.key.eq_ignore_ascii_case(&q.key) && p.val == q.val)
        })
}

fn show_model(m: &[MSec]) -> serde_json::Value {
    json!(m
        .iter()
        .map(|s| {
            json!({
                "section": show(&s.name),
                "subsection": s.sub.as_ref().map(|x| show(x)),
                "values": s.kvs.iter().map(|kv| format!("{}={}", show(&kv.key), kv.val.as_ref().map_or("<implicit>".into(), |v| show(v)))).collect::<Vec<_>>()
            })
        })
        .collect::<Vec<_>>())
}

fn kv_class(flat: &[FlatEv], sec: usize, kv: usize) -> &'static str {
    let evs: Vec<&Event<'_>> = flat.iter().filter(|f| f.sec == sec && f.kv == Some(kv)).map(|f| &f.ev).collect();
    if !evs.iter().any(|e| matches!(e, Event::KeyValueSeparator)) {
        if evs.iter().any(|e| matches!(e, Event::Whitespace(_))) {
            "implicit-blank"
        } else {
            "implicit"
        }
    } else if evs.iter().any(|e| matches!(e, Event::ValueNotDone(_))) {
        "continuation"
    } else {
        "plain"
    }
}

/// how the body of a section (or the frontmatter, or the whole text for usize::MAX-1) ends
fn tail_class(flat: &[FlatEv], sec: Option<usize>) -> &'static str {
    let evs: Vec<&FlatEv> = match sec {
        Some(s) => flat.iter().filter(|f| f.sec == s && !f.header).collect(),
        None => flat.iter().collect(),
    };
    if evs.is_empty() {
        return "empty";
    }
    if matches!(evs.last().unwrap().ev, Event::Newline(_)) {
        return "newline";
    }
    match evs.iter().rev().find(|f| !matches!(f.ev, Event::Whitespace(_))) {
        Some(f) => match &f.ev {
            Event::Comment(c) if c.text.iter().all(u8::is_ascii_whitespace) => "blank-comment-no-newline",
            Event::Comment(_) => "comment-no-newline",
            Event::Value(_) | Event::ValueDone(_) => "value-no-newline",
            Event::SectionHeader(_) => "header-no-newline",
            Event::Newline(_) => "blank-after-newline",
            _ => "other",
        },
        None => "blank-only",
    }
}

// ------------------------------------------------------------------ edits

const NEW_VALUES: &[&[u8]] = &[
    b"v", b"new value", b" lead", b"trail ", b"a;b", b"a#b", b"q\"uote", b"back\\slash", b"", b"line\nbreak", b"tab\there", b"\xc3\xbc", b"x=y", b"[br]",
    b"true", b"42", b"~/p", b"a  b", b"'", b"\\", b"\"", b"# starts", b"ends\\", b"\"quoted\"", b"\\n", b" ", b"a \\\" b", b"k = v", b"\ttab-first",
];
const NEW_SECTIONS: &[&str] = &["a", "core", "CORE", "remote", "fresh", "x1", "new-sec", "9z", "b-c", "A"];
const BAD_SECTIONS: &[&str] = &["a.b", "sp ace", "uml\u{fc}", "a_b", "q\"", "[x]"];
const NEW_SUBS: &[&[u8]] = &[b"origin", b"Origin", b"o r", b"a.b", b"", b"q\"uote", b"back\\slash", b"\xc3\xbc", b"x]y", b"#;=", b"sub", b"fresh"];
const BAD_SUBS: &[&[u8]] = &[b"new\nline"];
const NEW_KEYS: &[&str] = &["k", "key", "Key", "a-b", "x2", "url", "path", "flag", "n", "K", "fresh", "z9"];

#[derive(Clone, Debug)]
enum MultiOp {
    SetAll(&'static [u8]),
    SetValues(Vec<&'static [u8]>),
    SetAt(usize, &'static [u8]),
    Delete(usize),
    DeleteAll,
}

#[derive(Clone, Debug)]
enum Edit {
    SetRaw { sec: String, sub: Option<Vec<u8>>, key: String, val: &'static [u8] },
    SetExisting { sec: String, sub: Option<Vec<u8>>, key: String, val: &'static [u8] },
    ValueMutSet { sec: String, sub: Option<Vec<u8>>, key: String, val: &'static [u8] },
    ValueMutDelete { sec: String, sub: Option<Vec<u8>>, key: String },
    Multi { sec: String, sub: Option<Vec<u8>>, key: String, ops: Vec<MultiOp> },
    SecPush { sec: String, sub: Option<Vec<u8>>, key: String, val: Option<&'static [u8]> },
    SecSet { sec: String, sub: Option<Vec<u8>>, key: String, val: &'static [u8] },
    SecRemove { sec: String, sub: Option<Vec<u8>>, key: String },
    NewSection { sec: String, sub: Option<Vec<u8>>, pushes: Vec<(String, Option<&'static [u8]>)> },
    RemoveSection { sec: String, sub: Option<Vec<u8>> },
    RemoveSectionFilter { sec: String, sub: Option<Vec<u8>> },
    RenameSection { sec: String, sub: Option<Vec<u8>>, new_sec: String, new_sub: Option<Vec<u8>> },
}

impl Edit {
    fn kind(&self) -> &'static str {
        match self {
            Edit::SetRaw { .. } => "set_raw_value",
            Edit::SetExisting { .. } => "set_existing_raw_value",
            Edit::ValueMutSet { .. } => "raw_value_mut.set",
            Edit::ValueMutDelete { .. } => "raw_value_mut.delete",
            Edit::Multi { ops, .. } => match ops.first() {
                Some(MultiOp::SetAll(_)) => "raw_values_mut.set_all",
                Some(MultiOp::SetValues(_)) => "raw_values_mut.set_values",
                Some(MultiOp::SetAt(..)) => "raw_values_mut.set_at",
                Some(MultiOp::Delete(_)) => "raw_values_mut.delete",
                _ => "raw_values_mut.delete_all",
            },
            Edit::SecPush { .. } => "section_mut.push",
            Edit::SecSet { .. } => "section_mut.set",
            Edit::SecRemove { .. } => "section_mut.remove",
            Edit::NewSection { .. } => "new_section",
            Edit::RemoveSection { .. } => "remove_section",
            Edit::RemoveSectionFilter { .. } => "remove_section_filter",
            Edit::RenameSection { .. } => "rename_section",
        }
    }
}

fn vary_case(r: &mut Rng, s: &[u8]) -> String {
    let v: Vec<u8> = match r.below(4) {
        0 => s.to_ascii_uppercase(),
        1 => s.to_ascii_lowercase(),
        _ => s.to_vec(),
    };
    String::from_utf8_lossy(&v).into_owned()
}

fn pick_section(r: &mut Rng, m: &[MSec]) -> (String, Option<Vec<u8>>) {
    if !m.is_empty() && r.chance(5, 6) {
        let s = &m[r.usize(m.len())];
        (vary_case(r, &s.name), s.sub.clone())
    } else {
        let name = (*r.pick(NEW_SECTIONS)).to_string();
        let sub = if r.bool() { Some(r.pick(NEW_SUBS).to_vec()) } else { None };
        (name, sub)
    }
}

fn pick_key(r: &mut Rng, m: &[MSec], sec: &str, sub: Option<&[u8]>) -> String {
    let keys: Vec<&Vec<u8>> = m.iter().filter(|s| sec_matches(s, sec.as_bytes(), sub)).flat_map(|s| s.kvs.iter().map(|kv| &kv.key)).collect();
    if !keys.is_empty() && r.chance(3, 4) {
        let k = keys[r.usize(keys.len())];
        vary_case(r, k)
    } else {
        (*r.pick(NEW_KEYS)).to_string()
    }
}

fn gen_edit(r: &mut Rng, m: &[MSec]) -> Edit {
    let (sec, sub) = pick_section(r, m);
    let key = pick_key(r, m, &sec, sub.as_deref());
    let val: &'static [u8] = *r.pick(NEW_VALUES);
    match r.below(19) {
        0 | 1 => Edit::SetRaw { sec, sub, key, val },
        2 | 16 => Edit::SetExisting { sec, sub, key, val },
        3 => Edit::ValueMutSet { sec, sub, key, val },
        4 => Edit::ValueMutDelete { sec, sub, key },
        5 | 6 => {
            let n_occ: usize = m.iter().filter(|s| sec_matches(s, sec.as_bytes(), sub.as_deref())).map(|s| s.kvs.iter().filter(|kv| kv.key.eq_ignore_ascii_case(key.as_bytes())).count()).sum();
            let n_ops = 1 + r.usize(2);
            let mut ops = Vec::new();
            let mut left = n_occ;
            for _ in 0..n_ops {
                let op = match r.below(6) {
                    0 => MultiOp::SetAll(*r.pick(NEW_VALUES)),
                    1 => {
                        let n = r.usize(n_occ + 2);
                        MultiOp::SetValues((0..n).map(|_| *r.pick(NEW_VALUES)).collect())
                    }
                    2 | 3 if left > 0 => MultiOp::SetAt(r.usize(left), *r.pick(NEW_VALUES)),
                    4 if left > 0 => {
                        left -= 1;
                        MultiOp::Delete(r.usize(left + 1))
                    }
                    5 => {
                        left = 0;
                        MultiOp::DeleteAll
                    }
                    _ => MultiOp::SetAll(*r.pick(NEW_VALUES)),
                };
                ops.push(op);
            }
            Edit::Multi { sec, sub, key, ops }
        }
        7 | 8 => Edit::SecPush { sec, sub, key, val: if r.chance(1, 5) { None } else { Some(val) } },
        9 | 14 => Edit::SecSet { sec, sub, key, val },
        10 | 17 => Edit::SecRemove { sec, sub, key },
        11 | 12 => {
            let name = if r.chance(1, 10) { (*r.pick(BAD_SECTIONS)).to_string() } else { (*r.pick(NEW_SECTIONS)).to_string() };
            let sub = match r.below(12) {
                0 => Some(r.pick(BAD_SUBS).to_vec()),
                1..=6 => Some(r.pick(NEW_SUBS).to_vec()),
                _ => None,
            };
            let n = r.usize(3);
            let pushes = (0..n).map(|_| ((*r.pick(NEW_KEYS)).to_string(), if r.chance(1, 6) { None } else { Some(*r.pick(NEW_VALUES)) })).collect();
            Edit::NewSection { sec: name, sub, pushes }
        }
        13 => {
            if r.chance(1, 6) {
                Edit::RemoveSectionFilter { sec, sub }
            } else {
                Edit::RemoveSection { sec, sub }
            }
        }
        _ => {
            let new_sec = if r.chance(1, 10) { (*r.pick(BAD_SECTIONS)).to_string() } else { (*r.pick(NEW_SECTIONS)).to_string() };
            let new_sub = match r.below(12) {
                0 => Some(r.pick(BAD_SUBS).to_vec()),
                1..=6 => Some(r.pick(NEW_SUBS).to_vec()),
                _ => None,
            };
            Edit::RenameSection { sec, sub, new_sec, new_sub }
        }
    }
}

/// how every section body and the whole file end *in memory* (serializing the whole file appends a missing final newline)
struct Tails {
    sections: Vec<&'static str>,
    file: &'static str,
}

fn tails_of(file: &gix_config::File<'_>) -> Tails {
    let mut sections = Vec::new();
    for s in file.sections() {
        let t = s.to_bstring();
        sections.push(match flatten(&t) {
            Ok(f) => tail_class(&f, Some(0)),
            Err(_) => "unparsable",
        });
    }
    let file_tail = match sections.last() {
        Some(t) => *t,
        None => match flatten(&file.to_bstring()) {
            Ok(f) => tail_class(&f, None),
            Err(_) => "unparsable",
        },
    };
    Tails { sections, file: file_tail }
}

/// what the edit may take away from the old text
#[derive(Default, Debug)]
struct Removed {
    kvs: HashSet<(usize, usize)>,
    sections: HashSet<usize>,
    headers: HashSet<usize>,
}

struct Applied {
    /// the code path the edit takes when it differs from the API called (set on a missing key is a push, ...)
    path: Option<&'static str>,
    /// does the API call have to succeed?
    ok: bool,
    removed: Removed,
    /// class of what the edit acts on (for signatures and distinctness)
    class: String,
}

/// Apply `e` to the model. `flat` describes the serialized text before the edit (for classes).
fn apply_model(m: &mut Vec<MSec>, e: &Edit, flat: &[FlatEv], tails: &Tails) -> Applied {
    let mut removed = Removed::default();
    let tail_of = |si: Option<usize>, _m: &Vec<MSec>| -> String {
        match si {
            Some(i) => match tails.sections.get(i).copied().unwrap_or("?") {
                "blank-comment-no-newline" => "comment-no-newline".to_string(),
                t => t.to_string(),
            },
            // a new section is appended to the text
            None => format!("file-{}", tails.file),
        }
    };
    match e {
        Edit::SetRaw { sec, sub, key, val } => {
            let si = last_section(m, sec.as_bytes(), sub.as_deref());
            match si {
                None => {
                    if !valid_section_name(sec.as_bytes()) || !sub.as_deref().map_or(true, valid_subsection) {
                        return Applied { path: None, ok: false, removed, class: "invalid-header".into() };
                    }
                    let class = tail_of(None, m);
                    m.push(MSec { name: sec.as_bytes().to_vec(), sub: sub.clone(), kvs: vec![MKv { key: key.as_bytes().to_vec(), val: Some(val.to_vec()) }] });
                    Applied { path: Some("new_section"), ok: true, removed, class }
                }
                Some(si) => match last_key(&m[si], key.as_bytes()) {
                    Some(ki) => {
                        removed.kvs.insert((si, ki));
                        m[si].kvs[ki].val = Some(val.to_vec());
                        Applied { path: Some("section_mut.set"), ok: true, removed, class: kv_class(flat, si, ki).into() }
                    }
                    None => {
                        let class = tail_of(Some(si), m);
                        m[si].kvs.push(MKv { key: key.as_bytes().to_vec(), val: Some(val.to_vec()) });
                        Applied { path: Some("section_mut.push"), ok: true, removed, class }
                    }
                },
            }
        }
        Edit::SetExisting { sec, sub, key, val } | Edit::ValueMutSet { sec, sub, key, val } => {
            let hit = m.iter().enumerate().rev().filter(|(_, s)| sec_matches(s, sec.as_bytes(), sub.as_deref())).find_map(|(si, s)| last_key(s, key.as_bytes()).map(|ki| (si, ki)));
            match hit {
                None => Applied { path: None, ok: false, removed, class: "missing".into() },
                Some((si, ki)) => {
                    removed.kvs.insert((si, ki));
                    m[si].kvs[ki].val = Some(val.to_vec());
                    Applied { path: None, ok: true, removed, class: kv_class(flat, si, ki).into() }
                }
            }
        }
        Edit::ValueMutDelete { sec, sub, key } => {
            let hit = m.iter().enumerate().rev().filter(|(_, s)| sec_matches(s, sec.as_bytes(), sub.as_deref())).find_map(|(si, s)| last_key(s, key.as_bytes()).map(|ki| (si, ki)));
            match hit {
                None => Applied { path: None, ok: false, removed, class: "missing".into() },
                Some((si, ki)) => {
                    removed.kvs.insert((si, ki));
                    let class = kv_class(flat, si, ki).to_string();
                    m[si].kvs.remove(ki);
                    Applied { path: None, ok: true, removed, class }
                }
            }
        }
        Edit::Multi { sec, sub, key, ops } => {
            let mut occ: Vec<(usize, usize)> = Vec::new();
            for (si, s) in m.iter().enumerate() {
                if sec_matches(s, sec.as_bytes(), sub.as_deref()) {
                    for (ki, kv) in s.kvs.iter().enumerate() {
                        if kv.key.eq_ignore_ascii_case(key.as_bytes()) {
                            occ.push((si, ki));
                        }
                    }
                }
            }
            if occ.is_empty() {
                return Applied { path: None, ok: false, removed, class: "missing".into() };
            }
            let mut classes: BTreeSet<&'static str> = BTreeSet::new();
            for (si, ki) in &occ {
                removed.kvs.insert((*si, *ki));
                classes.insert(kv_class(flat, *si, *ki));
            }
            let class = format!("{}x{}", occ.len().min(3), classes.into_iter().collect::<Vec<_>>().join("+"));
            let mut dead: HashSet<(usize, usize)> = HashSet::new();
            for op in ops {
                match op {
                    MultiOp::SetAll(v) => {
                        for (si, ki) in &occ {
                            m[*si].kvs[*ki].val = Some(v.to_vec());
                        }
                    }
                    MultiOp::SetValues(vs) => {
                        for ((si, ki), v) in occ.iter().zip(vs) {
                            m[*si].kvs[*ki].val = Some(v.to_vec());
                        }
                    }
                    MultiOp::SetAt(i, v) => {
                        if let Some((si, ki)) = occ.get(*i) {
                            m[*si].kvs[*ki].val = Some(v.to_vec());
                        }
                    }
                    MultiOp::Delete(i) => {
                        if *i < occ.len() {
                            dead.insert(occ.remove(*i));
                        }
                    }
                    MultiOp::DeleteAll => {
                        dead.extend(occ.drain(..));
                    }
                }
            }
            for (si, s) in m.iter_mut().enumerate() {
                let mut ki = 0;
                s.kvs.retain(|_| {
                    let keep = !dead.contains(&(si, ki));
                    ki += 1;
                    keep
                });
            }
            Applied { path: None, ok: true, removed, class }
        }
        Edit::SecPush { sec, sub, key, val } => match last_section(m, sec.as_bytes(), sub.as_deref()) {
            None => Applied { path: None, ok: false, removed, class: "missing".into() },
            Some(si) => {
                let class = tail_of(Some(si), m);
                m[si].kvs.push(MKv { key: key.as_bytes().to_vec(), val: val.map(|v| v.to_vec()) });
                Applied { path: None, ok: true, removed, class }
            }
        },
        Edit::SecSet { sec, sub, key, val } => match last_section(m, sec.as_bytes(), sub.as_deref()) {
            None => Applied { path: None, ok: false, removed, class: "missing".into() },
            Some(si) => match last_key(&m[si], key.as_bytes()) {
                Some(ki) => {
                    removed.kvs.insert((si, ki));
                    m[si].kvs[ki].val = Some(val.to_vec());
                    Applied { path: None, ok: true, removed, class: kv_class(flat, si, ki).into() }
                }
                None => {
                    let class = tail_of(Some(si), m);
                    m[si].kvs.push(MKv { key: key.as_bytes().to_vec(), val: Some(val.to_vec()) });
                    Applied { path: Some("section_mut.push"), ok: true, removed, class }
                }
            },
        },
        Edit::SecRemove { sec, sub, key } => match last_section(m, sec.as_bytes(), sub.as_deref()) {
            None => Applied { path: None, ok: false, removed, class: "missing".into() },
            Some(si) => match last_key(&m[si], key.as_bytes()) {
                Some(ki) => {
                    removed.kvs.insert((si, ki));
                    let class = kv_class(flat, si, ki).to_string();
                    m[si].kvs.remove(ki);
                    Applied { path: None, ok: true, removed, class }
                }
                // the section exists, the key does not: nothing happens (the call itself yields None)
                None => Applied { path: None, ok: true, removed, class: "absent".into() },
            },
        },
        Edit::NewSection { sec, sub, pushes } => {
            if !valid_section_name(sec.as_bytes()) || !sub.as_deref().map_or(true, valid_subsection) {
                return Applied { path: None, ok: false, removed, class: "invalid-header".into() };
            }
            let class = tail_of(None, m);
            m.push(MSec { name: sec.as_bytes().to_vec(), sub: sub.clone(), kvs: pushes.iter().map(|(k, v)| MKv { key: k.as_bytes().to_vec(), val: v.map(|v| v.to_vec()) }).collect() });
            Applied { path: None, ok: true, removed, class }
        }
        Edit::RemoveSection { sec, sub } | Edit::RemoveSectionFilter { sec, sub } => match last_section(m, sec.as_bytes(), sub.as_deref()) {
            None => Applied { path: None, ok: false, removed, class: "missing".into() },
            Some(si) => {
                removed.sections.insert(si);
                let dup = m.iter().filter(|s| sec_matches(s, sec.as_bytes(), sub.as_deref())).count() > 1;
                m.remove(si);
                Applied { path: None, ok: true, removed, class: if dup { "duplicate-section".into() } else { "single-section".into() } }
            }
        },
        Edit::RenameSection { sec, sub, new_sec, new_sub } => match last_section(m, sec.as_bytes(), sub.as_deref()) {
            None => Applied { path: None, ok: false, removed, class: "missing".into() },
            Some(si) => {
                if !valid_section_name(new_sec.as_bytes()) || !new_sub.as_deref().map_or(true, valid_subsection) {
                    return Applied { path: None, ok: false, removed, class: "invalid-header".into() };
                }
                removed.headers.insert(si);
                m[si].name = new_sec.as_bytes().to_vec();
                m[si].sub = new_sub.clone();
                Applied { path: None, ok: true, removed, class: "renamed".into() }
            }
        },
    }
}

fn opt_bstr(v: &Option<Vec<u8>>) -> Option<&BStr> {
    v.as_ref().map(|s| s.as_bstr())
}

/// Run the edit on the real `File`. Ok(true) = the API reported success.
fn apply_file<'a>(file: &mut gix_config::File<'a>, e: &Edit) -> Result<bool, PanicInfo> {
    guard(|| match e {
        Edit::SetRaw { sec, sub, key, val } => file.set_raw_value_by(sec.as_str(), opt_bstr(sub), key.clone(), val.as_bstr()).is_ok(),
        Edit::SetExisting { sec, sub, key, val } => file.set_existing_raw_value_by(sec.as_str(), opt_bstr(sub), key.as_str(), val.as_bstr()).is_ok(),
        Edit::ValueMutSet { sec, sub, key, val } => match file.raw_value_mut_by(sec.as_str(), opt_bstr(sub), key.as_str()) {
            Ok(mut v) => {
                v.set(val.as_bstr());
                true
            }
            Err(_) => false,
        },
        Edit::ValueMutDelete { sec, sub, key } => match file.raw_value_mut_by(sec.as_str(), opt_bstr(sub), key.as_str()) {
            Ok(mut v) => {
                v.delete();
                true
            }
            Err(_) => false,
        },
        Edit::Multi { sec, sub, key, ops } => match file.raw_values_mut_by(sec.as_str(), opt_bstr(sub), key.as_str()) {
            Ok(mut mv) => {
                for op in ops {
                    match op {
                        MultiOp::SetAll(v) => mv.set_all(v.as_bstr()),
                        MultiOp::SetValues(vs) => mv.set_values(vs.iter().map(|v| v.as_bstr())),
                        MultiOp::SetAt(i, v) => {
                            if *i < mv.len() {
                                mv.set_at(*i, v.as_bstr())
                            }
                        }
                        MultiOp::Delete(i) => {
                            if *i < mv.len() {
                                mv.delete(*i)
                            }
                        }
                        MultiOp::DeleteAll => mv.delete_all(),
                    }
                }
                true
            }
            Err(_) => false,
        },
        Edit::SecPush { sec, sub, key, val } => match file.section_mut(sec.as_str(), opt_bstr(sub)) {
            Ok(mut s) => match ValueName::try_from(key.clone()) {
                Ok(k) => {
                    s.push(k, val.map(|v| v.as_bstr()));
                    true
                }
                Err(_) => false,
            },
            Err(_) => false,
        },
        Edit::SecSet { sec, sub, key, val } => match file.section_mut(sec.as_str(), opt_bstr(sub)) {
            Ok(mut s) => match ValueName::try_from(key.clone()) {
                Ok(k) => {
                    s.set(k, val.as_bstr());
                    true
                }
                Err(_) => false,
            },
            Err(_) => false,
        },
        Edit::SecRemove { sec, sub, key } => match file.section_mut(sec.as_str(), opt_bstr(sub)) {
            Ok(mut s) => {
                s.remove(key.as_str());
                true
            }
            Err(_) => false,
        },
        Edit::NewSection { sec, sub, pushes } => match file.new_section(sec.clone(), sub.clone().map(|s| Cow::Owned(BString::from(s)))) {
            Ok(mut s) => {
                for (k, v) in pushes {
                    if let Ok(k) = ValueName::try_from(k.clone()) {
                        s.push(k, v.map(|v| v.as_bstr()));
                    }
                }
                true
            }
            Err(_) => false,
        },
        Edit::RemoveSection { sec, sub } => file.remove_section(sec.as_str(), opt_bstr(sub)).is_some(),
        Edit::RemoveSectionFilter { sec, sub } => file.remove_section_filter(sec.as_str(), opt_bstr(sub), &mut |_| true).is_some(),
        Edit::RenameSection { sec, sub, new_sec, new_sub } => file.rename_section(sec.as_str(), opt_bstr(sub), new_sec.clone(), new_sub.clone().map(|s| Cow::Owned(BString::from(s)))).is_ok(),
    })
}

fn clip(b: &[u8]) -> String {
    let s = show(b);
    if s.len() > 1200 {
        let mut end = 1200;
        while !s.is_char_boundary(end) {
            end -= 1;
        }
        format!("{}…", &s[..end])
    } else {
        s
    }
}

/// greedy subsequence test: every expected event appears in `actual`, in order
fn missing_from<'a>(expected: &[&'a Event<'static>], actual: &[&Event<'static>]) -> Option<&'a Event<'static>> {
    let mut j = 0;
    for e in expected {
        loop {
            if j >= actual.len() {
                return Some(e);
            }
            j += 1;
            if actual[j - 1] == *e {
                break;
            }
        }
    }
    None
}

fn event_kind(e: &Event<'_>) -> &'static str {
    match e {
        Event::Comment(_) => "comment",
        Event::SectionHeader(_) => "header",
        Event::SectionValueName(_) => "key",
        Event::Value(_) | Event::ValueDone(_) | Event::ValueNotDone(_) => "value",
        Event::KeyValueSeparator => "separator",
        _ => "blank",
    }
}

struct History {
    original: Vec<u8>,
    feats: u64,
    /// None: not judged (reason counted)
    final_text: Option<Vec<u8>>,
    model: Vec<MSec>,
    edits: Vec<String>,
}

fn git_listing(entries: &[GitEntry]) -> Vec<(Vec<u8>, Option<Vec<u8>>)> {
    entries.iter().map(|e| (e.key.clone(), e.value.clone())).collect()
}

/// one edit history on one file; returns the final text and model if everything held so far
fn run_history(ctx: &mut Ctx, r: &mut Rng, original: &[u8], baseline: &[GitEntry], edits_log: &mut Vec<String>) -> Option<(Vec<u8>, Vec<MSec>)> {
    // ---- baseline: gitoxide and git must agree on the untouched file, and it must be inside the modelled domain
    let flat0 = match guard(|| flatten(original)) {
        Err(p) => {
            ctx.panic_violation("Events::from_bytes", &p, "baseline", json!({"file": clip(original)}));
            return None;
        }
        Ok(Err(_)) => {
            ctx.count("skipped_gitoxide_rejects_baseline");
            return None;
        }
        Ok(Ok(f)) => f,
    };
    for f in flat0.iter().filter(|f| f.header) {
        if let Event::SectionHeader(h) = &f.ev {
            if h.is_legacy() && (h.name().contains(&b'.') || h.subsection_name().map_or(false, |s| s.iter().any(u8::is_ascii_uppercase))) {
                ctx.count("skipped_legacy_header_deviation");
                return None;
            }
        }
    }
    let mut model = read_back(&flat0);
    if model_listing(&model) != git_listing(baseline) {
        ctx.count("skipped_baseline_git_and_gitoxide_disagree");
        return None;
    }
    let mut file = match guard(|| gix_config::File::from_bytes_no_includes(original, gix_config::file::Metadata::api(), Default::default())) {
        Ok(Ok(f)) => f,
        _ => {
            ctx.count("skipped_gitoxide_rejects_baseline");
            return None;
        }
    };
    ctx.count("histories");
    let n_edits = 1 + r.usize(15);
    let mut text: Vec<u8> = match guard(|| file.to_bstring()) {
        Ok(t) => t.into(),
        Err(p) => {
            ctx.panic_violation("File::to_bstring", &p, "baseline", json!({"file": clip(original)}));
            return None;
        }
    };
    let mut kinds: Vec<&'static str> = Vec::new();
    for step in 0..n_edits {
        let flat = match flatten(&text) {
            Ok(f) => f,
            Err(_) => return None, // reported by the step that produced this text
        };
        let edit = gen_edit(r, &model);
        let kind = edit.kind();
        kinds.push(kind);
        edits_log.push(format!("{edit:?}"));
        let before_model = model.clone();
        let tails = match guard(|| tails_of(&file)) {
            Ok(t) => t,
            Err(p) => {
                ctx.panic_violation("Section::to_bstring", &p, "tails", json!({"original": clip(original), "edits": edits_log.clone()}));
                return None;
            }
        };
        let applied = apply_model(&mut model, &edit, &flat, &tails);
        let class = applied.class.clone();
        let api_kind = kind;
        let kind = applied.path.unwrap_or(kind);
        ctx.eval();
        ctx.count(&format!("edit_{api_kind}"));
        ctx.distinct((api_kind, kind, class.clone(), applied.ok));
        let witness = |extra: serde_json::Value| {
            json!({"original": clip(original), "edits": edits_log.clone(), "failing_step": step, "text_before_edit": clip(&text), "model_before_edit": show_model(&before_model), "detail": extra})
        };
        let ok = match apply_file(&mut file, &edit) {
            Err(p) => {
                let entry = if api_kind.starts_with("section_mut.") { "section_mut" } else { api_kind };
                ctx.panic_violation(entry, &p, &class, witness(json!(null)));
                return None;
            }
            Ok(ok) => ok,
        };
        if ok != applied.ok {
            ctx.violation(
                &format!("result|{kind}|{class}"),
                "the edit call reports success/failure differently than its documented semantics",
                witness(json!({"api_ok": ok, "expected_ok": applied.ok})),
            );
            return None;
        }
        if !applied.ok {
            ctx.count("edits_expected_to_fail");
        }
        // (b) in-memory view
        let mem = guard(|| {
            let heads: Vec<(Vec<u8>, Option<Vec<u8>>)> = file.sections().map(|s| (s.header().name().to_vec(), s.header().subsection_name().map(|n| n.to_vec()))).collect();
            let mut sec_lookups = Vec::new();
            let mut seen_secs = HashSet::new();
            for s in model.iter().chain(before_model.iter()) {
                let id = (s.name.to_ascii_lowercase(), s.sub.clone());
                if !seen_secs.insert(id.clone()) {
                    continue;
                }
                let got = file
                    .section(String::from_utf8_lossy(&id.0).as_ref(), id.1.as_ref().map(|s| s.as_bstr()))
                    .ok()
                    .map(|s| (s.header().name().to_vec(), s.body().clone().into_iter().count()));
                sec_lookups.push((id, got));
            }
            let mut lookups = Vec::new();
            let mut seen = HashSet::new();
            for s in model.iter().chain(before_model.iter()) {
                for kv in &s.kvs {
                    let id = (s.name.to_ascii_lowercase(), s.sub.clone(), kv.key.to_ascii_lowercase());
                    if !seen.insert(id.clone()) {
                        continue;
                    }
                    let got = file
                        .raw_values_by(String::from_utf8_lossy(&id.0).as_ref(), id.1.as_ref().map(|s| s.as_bstr()), String::from_utf8_lossy(&id.2).as_ref())
                        .map(|v| v.into_iter().map(|c| c.to_vec()).collect::<Vec<_>>())
                        .unwrap_or_default();
                    lookups.push((id, got));
                }
            }
            (heads, lookups, sec_lookups)
        });
        let (heads, lookups, sec_lookups) = match mem {
            Err(p) => {
                ctx.panic_violation(&format!("lookup after {kind}"), &p, "-", witness(json!(null)));
                return None;
            }
            Ok(x) => x,
        };
        let want_heads: Vec<(Vec<u8>, Option<Vec<u8>>)> = model.iter().map(|s| (s.name.clone(), s.sub.clone())).collect();
        if heads != want_heads {
            ctx.violation(
                &format!("memory|sections|{kind}|{class}"),
                "sections() of the edited file are not the sections the edit should leave",
                witness(json!({"sections": heads.iter().map(|(n, s)| format!("{} {:?}", show(n), s.as_ref().map(|x| show(x)))).collect::<Vec<_>>(), "model_after": show_model(&model)})),
            );
            return None;
        }
        for ((name, sub), got) in &sec_lookups {
            let want = model.iter().rev().find(|s| sec_matches(s, name, sub.as_deref())).map(|s| (s.name.clone(), s.kvs.len()));
            ctx.count("memory_section_lookups");
            if *got != want {
                ctx.violation(
                    &format!("memory|section-lookup|{kind}|{class}"),
                    "section(name, subsection) on the edited file does not find the (last) section the edit should leave under that name",
                    witness(json!({"section": show(name), "subsection": sub.as_ref().map(|s| show(s)), "want_name_and_entries": format!("{:?}", want.map(|(n, k)| (show(&n), k))), "got": format!("{:?}", got.as_ref().map(|(n, k)| (show(n), *k)))})),
                );
                return None;
            }
        }
        for ((name, sub, key), got) in &lookups {
            let want: Vec<Vec<u8>> = model
                .iter()
                .filter(|s| sec_matches(s, name, sub.as_deref()))
                .flat_map(|s| s.kvs.iter().filter(|kv| kv.key.eq_ignore_ascii_case(key)).map(|kv| kv.val.clone().unwrap_or_default()))
                .collect();
            ctx.count("memory_lookups");
            if *got != want {
                ctx.violation(
                    &format!("memory|lookup|{kind}|{class}"),
                    "raw_values_by() on the edited file does not return the values the edit should leave",
                    witness(json!({"section": show(name), "subsection": sub.as_ref().map(|s| show(s)), "key": show(key), "want": want.iter().map(|v| show(v)).collect::<Vec<_>>(), "got": got.iter().map(|v| show(v)).collect::<Vec<_>>()})),
                );
                return None;
            }
        }
        // (a) serialize and read back
        let new_text: Vec<u8> = match guard(|| file.to_bstring()) {
            Ok(t) => t.into(),
            Err(p) => {
                ctx.panic_violation("File::to_bstring", &p, kind, witness(json!(null)));
                return None;
            }
        };
        let new_flat = match guard(|| flatten(&new_text)) {
            Err(p) => {
                ctx.panic_violation("Events::from_bytes", &p, kind, witness(json!({"text_after_edit": clip(&new_text)})));
                return None;
            }
            Ok(Err(e)) => {
                let comment_lines_with_bracket = |t: &[u8]| {
                    t.split(|c| *c == b'\n')
                        .filter(|l| {
                            let l = l.trim_start();
                            matches!(l.first(), Some(b'#' | b';')) && l[1..].trim_start().starts_with(b"[")
                        })
                        .count()
                };
                let swallowed = comment_lines_with_bracket(&new_text) > comment_lines_with_bracket(&text);
                let sig = if swallowed { "serialize|header-swallowed-by-comment".to_string() } else { format!("reparse|{kind}|{class}") };
                ctx.violation(
                    &sig,
                    "the serialized edited file does not parse",
                    witness(json!({"text_after_edit": clip(&new_text), "error": e})),
                );
                return None;
            }
            Ok(Ok(f)) => f,
        };
        // Symptom check first: edits never add comments, so a comment that grew means that the serializer put something on
        // a comment line that had no line ending in memory. Any later edit can expose that state, hence no edit kind here.
        let old_comments: Vec<Vec<u8>> = flat.iter().filter_map(|f| if let Event::Comment(c) = &f.ev { Some(c.to_bstring().to_vec()) } else { None }).collect();
        let mut grown: Option<(Vec<u8>, Vec<u8>)> = None;
        for f in &new_flat {
            if let Event::Comment(c) = &f.ev {
                let nb = c.to_bstring().to_vec();
                if old_comments.contains(&nb) {
                    continue;
                }
                if let Some(oc) = old_comments.iter().filter(|oc| nb.len() > oc.len() && nb.starts_with(oc)).max_by_key(|oc| oc.len()) {
                    grown = Some((oc.clone(), nb[oc.len()..].to_vec()));
                    break;
                }
            }
        }
        if let Some((old, tail)) = grown {
            let header = tail.trim_start().starts_with(b"[");
            ctx.violation(
                if header { "serialize|header-swallowed-by-comment" } else { "serialize|line-glued-onto-comment" },
                "after the edit the serialized file has a comment line that took in the following header/key line (or its indentation)",
                witness(json!({"text_after_edit": clip(&new_text), "comment_before": show(&old), "appended_to_it": show(&tail), "edit_kind": kind, "class": class})),
            );
            return None;
        }
        let got_model = read_back(&new_flat);
        if !same_model(&got_model, &model) {
            ctx.violation(
                &format!("reparse|{kind}|{class}"),
                "the serialized edited file does not read back as the sections and values the edit should leave",
                witness(json!({"text_after_edit": clip(&new_text), "model_after": show_model(&model), "read_back": show_model(&got_model)})),
            );
            return None;
        }
        // (c) nothing else may be lost: old content events outside the edited range are a subsequence of the new ones
        let expected: Vec<&Event<'static>> = flat
            .iter()
            .filter(|f| is_content(&f.ev))
            .filter(|f| {
                if applied.removed.sections.contains(&f.sec) {
                    return false;
                }
                if f.header && applied.removed.headers.contains(&f.sec) {
                    return false;
                }
                if let Some(k) = f.kv {
                    if applied.removed.kvs.contains(&(f.sec, k)) {
                        return false;
                    }
                }
                true
            })
            .map(|f| &f.ev)
            .collect();
        let actual: Vec<&Event<'static>> = new_flat.iter().filter(|f| is_content(&f.ev)).map(|f| &f.ev).collect();
        ctx.count_n("events_tracked", expected.len() as u64);
        if let Some(lost) = missing_from(&expected, &actual) {
            ctx.violation(
                &format!("events|lost-{}|{kind}|{class}", event_kind(lost)),
                "an event of the text before the edit that is outside the edited key/section is missing or altered afterwards",
                witness(json!({"text_after_edit": clip(&new_text), "lost_event": show(lost.to_bstring().as_slice())})),
            );
            return None;
        }
        text = new_text;
    }
    ctx.distinct(("history", kinds.len().min(8), kinds.iter().collect::<BTreeSet<_>>().len()));
    Some((text, model))
}

// ================================================================== part 2: edit sequences on ONE in-memory file
//
// The histories above judge every edit against a hand-written model. This part is model-free and directed at what a
// long-lived in-memory `File` can get wrong: its lookup structures (name -> section ids, section order) are updated
// incrementally by rename/remove/new section, while a freshly parsed file builds them from scratch. After EVERY step:
//  S1 edit(memory) vs edit(reparse): the same call on the long-lived file and on a fresh parse of its previous
//     serialization must report the same result and leave the same sections, keys and values;
//  S2 `sections()` of the long-lived file must be what its serialization reads back as;
//  S3 every read-only and mutable lookup (section, section_mut, sections_by_name, raw_value(_mut), raw_values(_mut),
//     num_values) on the long-lived file must answer like a fresh parse of its serialization, for every header and key
//     that is or was in the file;
//  S4 git's view: `git config --list` of the serialization must list, for every such key, the values `raw_values_by`
//     gives in memory (and `raw_value_by` the last of them);
//  S5 git-equivalent: where `git config --file` has a command with the same documented meaning (rename-section,
//     remove-section, set, --add, --unset, --unset-all), git applied to the previous serialization must list the same as
//     the serialization of the edited in-memory file.

type Hdr = (String, Option<Vec<u8>>);

const SEQ_NAMES: &[&str] = &["a", "b", "remote", "A", "x1"];
const SEQ_SUBS: &[&[u8]] = &[b"x", b"y", b"X", b"origin", b"o r", b"a.b", b"q\"uote", b"back\\slash", b""];
const SEQ_KEYS: &[&str] = &["k", "url", "n"];

#[derive(Clone, Debug)]
enum SeqOp {
    Rename { old: Hdr, new: Hdr, filter: bool },
    /// rename_section() until no section of the old name is left: what `git config --rename-section` does
    RenameAll { old: Hdr, new: Hdr },
    Remove { hdr: Hdr, filter: bool },
    /// remove_section() until none is left: what `git config --remove-section` does
    RemoveAll { hdr: Hdr },
    NewSection { hdr: Hdr, pushes: Vec<(String, Vec<u8>)> },
    Set { hdr: Hdr, key: String, val: Vec<u8> },
    SetExisting { hdr: Hdr, key: String, val: Vec<u8> },
    /// section_mut_or_create_new().push(): what `git config --add` does
    Add { hdr: Hdr, key: String, val: Vec<u8> },
    SecPush { hdr: Hdr, key: String, val: Vec<u8> },
    SecSet { hdr: Hdr, key: String, val: Vec<u8> },
    SecRemove { hdr: Hdr, key: String },
    Unset { hdr: Hdr, key: String },
    UnsetAll { hdr: Hdr, key: String },
}

impl SeqOp {
    fn kind(&self) -> &'static str {
        match self {
            SeqOp::Rename { filter: false, .. } => "rename_section",
            SeqOp::Rename { filter: true, .. } => "rename_section_filter",
            SeqOp::RenameAll { .. } => "rename_section-all",
            SeqOp::Remove { filter: false, .. } => "remove_section",
            SeqOp::Remove { filter: true, .. } => "remove_section_filter",
            SeqOp::RemoveAll { .. } => "remove_section-all",
            SeqOp::NewSection { .. } => "new_section",
            SeqOp::Set { .. } => "set_raw_value",
            SeqOp::SetExisting { .. } => "set_existing_raw_value",
            SeqOp::Add { .. } => "section_mut_or_create_new.push",
            SeqOp::SecPush { .. } => "section_mut.push",
            SeqOp::SecSet { .. } => "section_mut.set",
            SeqOp::SecRemove { .. } => "section_mut.remove",
            SeqOp::Unset { .. } => "raw_value_mut.delete",
            SeqOp::UnsetAll { .. } => "raw_values_mut.delete_all",
        }
    }
    fn headers(&self) -> Vec<&Hdr> {
        match self {
            SeqOp::Rename { old, new, .. } | SeqOp::RenameAll { old, new } => vec![old, new],
            SeqOp::Remove { hdr, .. }
            | SeqOp::RemoveAll { hdr }
            | SeqOp::NewSection { hdr, .. }
            | SeqOp::Set { hdr, .. }
            | SeqOp::SetExisting { hdr, .. }
            | SeqOp::Add { hdr, .. }
            | SeqOp::SecPush { hdr, .. }
            | SeqOp::SecSet { hdr, .. }
            | SeqOp::SecRemove { hdr, .. }
            | SeqOp::Unset { hdr, .. }
            | SeqOp::UnsetAll { hdr, .. } => vec![hdr],
        }
    }
    fn keys(&self) -> Vec<&String> {
        match self {
            SeqOp::NewSection { pushes, .. } => pushes.iter().map(|(k, _)| k).collect(),
            SeqOp::Set { key, .. }
            | SeqOp::SetExisting { key, .. }
            | SeqOp::Add { key, .. }
            | SeqOp::SecPush { key, .. }
            | SeqOp::SecSet { key, .. }
            | SeqOp::SecRemove { key, .. }
            | SeqOp::Unset { key, .. }
            | SeqOp::UnsetAll { key, .. } => vec![key],
            _ => Vec::new(),
        }
    }
}

fn header_line(name: &str, sub: Option<&[u8]>) -> Vec<u8> {
    let mut o = vec![b'['];
    o.extend_from_slice(name.as_bytes());
    if let Some(s) = sub {
        o.extend_from_slice(b" \"");
        for c in s {
            if *c == b'"' || *c == b'\\' {
                o.push(b'\\');
            }
            o.push(*c);
        }
        o.push(b'"');
    }
    o.push(b']');
    o
}

fn pool_header(r: &mut Rng, local: &[Hdr]) -> Hdr {
    if !local.is_empty() && r.chance(3, 4) {
        r.pick(local).clone()
    } else {
        let name = (*r.pick(SEQ_NAMES)).to_string();
        let sub = if r.chance(3, 5) { Some(r.pick(SEQ_SUBS).to_vec()) } else { None };
        (name, sub)
    }
}

fn existing_header(r: &mut Rng, view: &[MSec], local: &[Hdr]) -> Hdr {
    if !view.is_empty() && r.chance(9, 10) {
        let s = &view[r.usize(view.len())];
        // mostly as spelled in the file: git's rename-section/remove-section only find that spelling
        let name = if r.chance(1, 3) { vary_case(r, &s.name) } else { String::from_utf8_lossy(&s.name).into_owned() };
        (name, s.sub.clone())
    } else {
        pool_header(r, local)
    }
}

/// a small clean file: few distinct headers, many of them repeated, every value unique
fn gen_seq_start(r: &mut Rng, local: &[Hdr]) -> Vec<u8> {
    let mut t: Vec<u8> = Vec::new();
    if r.chance(1, 4) {
        t.extend_from_slice(b"# top\n");
    }
    let n = 2 + r.usize(5);
    let mut c = 0;
    for _ in 0..n {
        let (name, sub) = r.pick(local).clone();
        let name = if r.chance(1, 4) { vary_case(r, name.as_bytes()) } else { name };
        t.extend_from_slice(&header_line(&name, sub.as_deref()));
        t.push(b'\n');
        for _ in 0..r.usize(4) {
            c += 1;
            if r.chance(1, 8) {
                t.extend_from_slice(format!("\t# c{c}\n").as_bytes());
            } else {
                let key: &str = *r.pick(SEQ_KEYS);
                let key = vary_case(r, key.as_bytes());
                t.extend_from_slice(format!("\t{key} = v{c}\n").as_bytes());
            }
        }
        if r.chance(1, 8) {
            t.push(b'\n');
        }
    }
    if r.chance(1, 8) {
        while t.last() == Some(&b'\n') {
            t.pop();
        }
    }
    t
}

fn gen_seq_op(r: &mut Rng, view: &[MSec], local: &[Hdr], counter: &mut u32) -> SeqOp {
    let hdr = existing_header(r, view, local);
    let keys: Vec<&Vec<u8>> = view.iter().filter(|s| sec_matches(s, hdr.0.as_bytes(), hdr.1.as_deref())).flat_map(|s| s.kvs.iter().map(|kv| &kv.key)).collect();
    let key = if !keys.is_empty() && r.chance(3, 4) {
        let k = keys[r.usize(keys.len())];
        vary_case(r, k)
    } else if r.chance(3, 4) {
        (*r.pick(SEQ_KEYS)).to_string()
    } else {
        (*r.pick(NEW_KEYS)).to_string()
    };
    *counter += 1;
    let val: Vec<u8> = if r.chance(2, 3) { format!("w{counter}").into_bytes() } else { r.pick(NEW_VALUES).to_vec() };
    match r.below(100) {
        0..=27 => {
            let new: Hdr = match r.below(20) {
                0..=7 if !view.is_empty() => {
                    // onto the header of a section that is in the file: earlier, later or the renamed one itself
                    let s = &view[r.usize(view.len())];
                    (vary_case(r, &s.name), s.sub.clone())
                }
                0..=14 => pool_header(r, local),
                15..=17 => pool_header(r, &[]),
                18 => ((*r.pick(BAD_SECTIONS)).to_string(), if r.bool() { Some(r.pick(SEQ_SUBS).to_vec()) } else { None }),
                _ => ((*r.pick(SEQ_NAMES)).to_string(), Some(r.pick(BAD_SUBS).to_vec())),
            };
            if r.chance(1, 5) {
                SeqOp::RenameAll { old: hdr, new }
            } else {
                SeqOp::Rename { old: hdr, new, filter: r.chance(1, 4) }
            }
        }
        28..=35 => SeqOp::Remove { hdr, filter: r.chance(1, 4) },
        36..=38 => SeqOp::RemoveAll { hdr },
        39..=46 => {
            let hdr = if r.chance(1, 2) { hdr } else { pool_header(r, local) };
            let n = r.usize(3);
            let pushes = (0..n)
                .map(|_| {
                    *counter += 1;
                    ((*r.pick(SEQ_KEYS)).to_string(), format!("w{counter}").into_bytes())
                })
                .collect();
            SeqOp::NewSection { hdr, pushes }
        }
        47..=60 => SeqOp::Set { hdr, key, val },
        61..=65 => SeqOp::SetExisting { hdr, key, val },
        66..=73 => SeqOp::Add { hdr, key, val },
        74..=78 => SeqOp::SecPush { hdr, key, val },
        79..=83 => SeqOp::SecSet { hdr, key, val },
        84..=87 => SeqOp::SecRemove { hdr, key },
        88..=93 => SeqOp::Unset { hdr, key },
        94..=96 => SeqOp::UnsetAll { hdr, key },
        _ => SeqOp::Set { hdr, key, val },
    }
}

/// (sections with that header, occurrences of the key in them, occurrences in the last of them)
fn occurrences(view: &[MSec], hdr: &Hdr, key: &str) -> (usize, usize, usize) {
    let secs: Vec<&MSec> = view.iter().filter(|s| sec_matches(s, hdr.0.as_bytes(), hdr.1.as_deref())).collect();
    let occ_in = |s: &MSec| s.kvs.iter().filter(|kv| kv.key.eq_ignore_ascii_case(key.as_bytes())).count();
    let occ = secs.iter().map(|s| occ_in(s)).sum();
    let occ_last = secs.last().map_or(0, |s| occ_in(s));
    (secs.len(), occ, occ_last)
}

fn valid_header(h: &Hdr) -> bool {
    !h.0.is_empty() && valid_section_name(h.0.as_bytes()) && h.1.as_deref().map_or(true, valid_subsection)
}

/// class of what the step meets in the file as it is before the step (for signatures and distinctness)
fn seq_class(op: &SeqOp, view: &[MSec]) -> String {
    let key_class = |hdr: &Hdr, key: &str| -> String {
        let (nsec, occ, occ_last) = occurrences(view, hdr, key);
        if nsec == 0 {
            return if valid_header(hdr) { "no-section".into() } else { "invalid-header".into() };
        }
        let base = match (occ, occ_last) {
            (0, _) => "new-key",
            (1, 1) => "single-in-last",
            (1, _) => "single-in-earlier",
            _ => "multi",
        };
        if nsec > 1 {
            format!("dupsec-{base}")
        } else {
            base.to_string()
        }
    };
    match op {
        SeqOp::Rename { old, new, .. } | SeqOp::RenameAll { old, new } => {
            let Some(si) = last_section(view, old.0.as_bytes(), old.1.as_deref()) else { return "missing".into() };
            if !valid_header(new) {
                return "invalid-header".into();
            }
            let hits = |s: &MSec| sec_matches(s, new.0.as_bytes(), new.1.as_deref());
            let earlier = view[..si].iter().any(hits);
            let later = view[si + 1..].iter().any(hits);
            let onto = if hits(&view[si]) {
                "same"
            } else {
                match (earlier, later) {
                    (false, false) => "unused",
                    (true, false) => "earlier",
                    (false, true) => "later",
                    (true, true) => "earlier+later",
                }
            };
            let mut c = format!("{}-onto-{onto}", if new.1.is_some() { "sub" } else { "nosub" });
            if matches!(op, SeqOp::RenameAll { .. }) {
                let n = view.iter().filter(|s| sec_matches(s, old.0.as_bytes(), old.1.as_deref())).count();
                c.push_str(if n > 1 { "-many" } else { "-one" });
            }
            c
        }
        SeqOp::Remove { hdr, .. } | SeqOp::RemoveAll { hdr } => match view.iter().filter(|s| sec_matches(s, hdr.0.as_bytes(), hdr.1.as_deref())).count() {
            0 => "missing".into(),
            1 => "single-section".into(),
            _ => "duplicate-section".into(),
        },
        SeqOp::NewSection { hdr, .. } => {
            if !valid_header(hdr) {
                "invalid-header".into()
            } else if last_section(view, hdr.0.as_bytes(), hdr.1.as_deref()).is_some() {
                "duplicate-header".into()
            } else {
                "fresh-header".into()
            }
        }
        SeqOp::Set { hdr, key, .. }
        | SeqOp::SetExisting { hdr, key, .. }
        | SeqOp::Add { hdr, key, .. }
        | SeqOp::SecPush { hdr, key, .. }
        | SeqOp::SecSet { hdr, key, .. }
        | SeqOp::SecRemove { hdr, key }
        | SeqOp::Unset { hdr, key }
        | SeqOp::UnsetAll { hdr, key } => key_class(hdr, key),
    }
}

fn cow_sub(s: &Option<Vec<u8>>) -> Option<Cow<'static, BStr>> {
    s.clone().map(|s| Cow::Owned(BString::from(s)))
}

fn header_is(h: &gix_config::parse::section::Header<'_>, hdr: &Hdr) -> bool {
    h.name().eq_ignore_ascii_case(hdr.0.as_bytes()) && h.subsection_name().map(|s| s.as_bytes()) == hdr.1.as_deref()
}

/// Run the step on a `File`. Ok(true) = the API reported success (for the -all steps: at least once).
fn seq_apply(file: &mut gix_config::File<'static>, op: &SeqOp) -> Result<bool, PanicInfo> {
    guard(|| match op {
        SeqOp::Rename { old, new, filter: false } => file.rename_section(old.0.as_str(), opt_bstr(&old.1), new.0.clone(), cow_sub(&new.1)).is_ok(),
        SeqOp::Rename { old, new, filter: true } => file.rename_section_filter(old.0.as_str(), opt_bstr(&old.1), new.0.clone(), cow_sub(&new.1), &mut |_| true).is_ok(),
        SeqOp::RenameAll { old, new } => {
            let limit = file.sections().filter(|s| header_is(s.header(), old)).count();
            let mut n = 0;
            while n < limit && file.rename_section(old.0.as_str(), opt_bstr(&old.1), new.0.clone(), cow_sub(&new.1)).is_ok() {
                n += 1;
            }
            n > 0
        }
        SeqOp::Remove { hdr, filter: false } => file.remove_section(hdr.0.as_str(), opt_bstr(&hdr.1)).is_some(),
        SeqOp::Remove { hdr, filter: true } => file.remove_section_filter(hdr.0.as_str(), opt_bstr(&hdr.1), &mut |_| true).is_some(),
        SeqOp::RemoveAll { hdr } => {
            let limit = file.sections().count();
            let mut n = 0;
            while n < limit && file.remove_section(hdr.0.as_str(), opt_bstr(&hdr.1)).is_some() {
                n += 1;
            }
            n > 0
        }
        SeqOp::NewSection { hdr, pushes } => match file.new_section(hdr.0.clone(), cow_sub(&hdr.1)) {
            Ok(mut s) => {
                for (k, v) in pushes {
                    if let Ok(k) = ValueName::try_from(k.clone()) {
                        s.push(k, Some(v.as_bstr()));
                    }
                }
                true
            }
            Err(_) => false,
        },
        SeqOp::Set { hdr, key, val } => file.set_raw_value_by(hdr.0.as_str(), opt_bstr(&hdr.1), key.clone(), val.as_bstr()).is_ok(),
        SeqOp::SetExisting { hdr, key, val } => file.set_existing_raw_value_by(hdr.0.as_str(), opt_bstr(&hdr.1), key.as_str(), val.as_bstr()).is_ok(),
        SeqOp::Add { hdr, key, val } => match file.section_mut_or_create_new(hdr.0.as_str(), opt_bstr(&hdr.1)) {
            Ok(mut s) => match ValueName::try_from(key.clone()) {
                Ok(k) => {
                    s.push(k, Some(val.as_bstr()));
                    true
                }
                Err(_) => false,
            },
            Err(_) => false,
        },
        SeqOp::SecPush { hdr, key, val } => match file.section_mut(hdr.0.as_str(), opt_bstr(&hdr.1)) {
            Ok(mut s) => match ValueName::try_from(key.clone()) {
                Ok(k) => {
                    s.push(k, Some(val.as_bstr()));
                    true
                }
                Err(_) => false,
            },
            Err(_) => false,
        },
        SeqOp::SecSet { hdr, key, val } => match file.section_mut(hdr.0.as_str(), opt_bstr(&hdr.1)) {
            Ok(mut s) => match ValueName::try_from(key.clone()) {
                Ok(k) => {
                    s.set(k, val.as_bstr());
                    true
                }
                Err(_) => false,
            },
            Err(_) => false,
        },
        SeqOp::SecRemove { hdr, key } => match file.section_mut(hdr.0.as_str(), opt_bstr(&hdr.1)) {
            Ok(mut s) => s.remove(key.as_str()).is_some(),
            Err(_) => false,
        },
        SeqOp::Unset { hdr, key } => match file.raw_value_mut_by(hdr.0.as_str(), opt_bstr(&hdr.1), key.as_str()) {
            Ok(mut v) => {
                v.delete();
                true
            }
            Err(_) => false,
        },
        SeqOp::UnsetAll { hdr, key } => match file.raw_values_mut_by(hdr.0.as_str(), opt_bstr(&hdr.1), key.as_str()) {
            Ok(mut v) => {
                v.delete_all();
                true
            }
            Err(_) => false,
        },
    })
}

fn parse_owned(text: &[u8]) -> Result<gix_config::File<'static>, String> {
    let ev = Events::from_bytes_owned(text, None).map_err(|e| e.to_string())?;
    Ok(gix_config::File::from_parse_events_no_includes(ev, gix_config::file::Metadata::api()))
}

#[derive(Clone, PartialEq, Eq, Debug)]
struct SecSnap {
    name: Vec<u8>,
    sub: Option<Vec<u8>>,
    kvs: Vec<(Vec<u8>, Vec<u8>)>,
}

fn snap(s: &gix_config::file::Section<'_>) -> SecSnap {
    SecSnap {
        name: s.header().name().to_vec(),
        sub: s.header().subsection_name().map(|n| n.to_vec()),
        kvs: s.body().clone().into_iter().map(|(k, v)| (k.as_ref().as_bytes().to_vec(), v.to_vec())).collect(),
    }
}

fn show_snap(s: &SecSnap) -> String {
    format!(
        "{} {{{}}}",
        show(&header_line(&String::from_utf8_lossy(&s.name), s.sub.as_deref())),
        s.kvs.iter().map(|(k, v)| format!("{}={}", show(k), show(v))).collect::<Vec<_>>().join(", ")
    )
}

type ProbeHdr = (Vec<u8>, Option<Vec<u8>>);

/// what every lookup API answers, for fixed lists of headers, names and keys
#[derive(Clone, PartialEq, Eq, Debug, Default)]
struct Lookups {
    sections: Vec<SecSnap>,
    num_values: usize,
    section: Vec<Option<SecSnap>>,
    section_mut: Vec<Option<SecSnap>>,
    /// `None` (name never seen) and `Some(nothing)` (all sections of the name removed or renamed) both mean: no section
    by_name: Vec<Vec<SecSnap>>,
    by_name_some_empty: usize,
    raw_value: Vec<Option<Vec<u8>>>,
    raw_values: Vec<Vec<Vec<u8>>>,
    raw_value_mut: Vec<Option<(Vec<u8>, SecSnap)>>,
    raw_values_mut: Vec<Option<Vec<Vec<u8>>>>,
}

fn collect_lookups(file: &mut gix_config::File<'static>, hdrs: &[ProbeHdr], names: &[Vec<u8>], keys: &[Vec<u8>]) -> Lookups {
    let mut l = Lookups { sections: file.sections().map(snap).collect(), num_values: file.num_values(), ..Default::default() };
    for name in names {
        let name = String::from_utf8_lossy(name).into_owned();
        let found: Option<Vec<SecSnap>> = file.sections_by_name(&name).map(|it| it.map(snap).collect());
        if found.as_ref().map_or(false, |v| v.is_empty()) {
            l.by_name_some_empty += 1;
        }
        l.by_name.push(found.unwrap_or_default());
    }
    for (name, sub) in hdrs {
        let name = String::from_utf8_lossy(name).into_owned();
        let sub = sub.as_ref().map(|s| s.as_bstr());
        l.section.push(file.section(&name, sub).ok().map(snap));
        l.section_mut.push(file.section_mut(name.as_str(), sub).ok().map(|s| snap(&s)));
        for key in keys {
            let key = String::from_utf8_lossy(key).into_owned();
            l.raw_value.push(file.raw_value_by(name.as_str(), sub, key.as_str()).ok().map(|v| v.to_vec()));
            l.raw_values.push(file.raw_values_by(name.as_str(), sub, key.as_str()).map(|v| v.into_iter().map(|c| c.to_vec()).collect()).unwrap_or_default());
            l.raw_value_mut.push(file.raw_value_mut_by(name.as_str(), sub, key.as_str()).ok().and_then(|v| v.get().ok().map(|val| (val.to_vec(), snap(v.section())))));
            l.raw_values_mut.push(file.raw_values_mut_by(name.as_str(), sub, key.as_str()).ok().and_then(|v| v.get().ok().map(|vals| vals.into_iter().map(|c| c.to_vec()).collect())));
        }
    }
    l
}

/// the first lookup API whose answers differ, with the probe and both answers
fn lookups_differ(mem: &Lookups, fresh: &Lookups, hdrs: &[ProbeHdr], names: &[Vec<u8>], keys: &[Vec<u8>]) -> Option<(&'static str, serde_json::Value)> {
    let show_hdr = |h: &ProbeHdr| show(&header_line(&String::from_utf8_lossy(&h.0), h.1.as_deref()));
    let show_sec = |s: &Option<SecSnap>| s.as_ref().map(show_snap);
    let show_vals = |v: &[Vec<u8>]| v.iter().map(|x| show(x)).collect::<Vec<_>>();
    if mem.sections != fresh.sections {
        return Some(("sections", json!({"memory": mem.sections.iter().map(show_snap).collect::<Vec<_>>(), "reparsed": fresh.sections.iter().map(show_snap).collect::<Vec<_>>()})));
    }
    for (i, h) in hdrs.iter().enumerate() {
        if mem.section[i] != fresh.section[i] {
            return Some(("section", json!({"lookup": show_hdr(h), "memory": show_sec(&mem.section[i]), "reparsed": show_sec(&fresh.section[i])})));
        }
    }
    for (i, h) in hdrs.iter().enumerate() {
        if mem.section_mut[i] != fresh.section_mut[i] {
            return Some(("section_mut", json!({"lookup": show_hdr(h), "memory": show_sec(&mem.section_mut[i]), "reparsed": show_sec(&fresh.section_mut[i])})));
        }
    }
    for (i, n) in names.iter().enumerate() {
        if mem.by_name[i] != fresh.by_name[i] {
            let sh = |v: &Vec<SecSnap>| v.iter().map(show_snap).collect::<Vec<_>>();
            return Some(("sections_by_name", json!({"lookup": show(n), "memory": sh(&mem.by_name[i]), "reparsed": sh(&fresh.by_name[i])})));
        }
    }
    let mut i = 0;
    let mut first: Option<(&'static str, serde_json::Value)> = None;
    // in the order of how basic the API is, so that one defect keeps one signature
    let mut rank = usize::MAX;
    for h in hdrs {
        for k in keys {
            let probe = format!("{} {}", show_hdr(h), show(k));
            if mem.raw_values[i] != fresh.raw_values[i] && rank > 0 {
                rank = 0;
                first = Some(("raw_values", json!({"lookup": probe, "memory": show_vals(&mem.raw_values[i]), "reparsed": show_vals(&fresh.raw_values[i])})));
            }
            if mem.raw_value[i] != fresh.raw_value[i] && rank > 1 {
                rank = 1;
                first = Some(("raw_value", json!({"lookup": probe, "memory": mem.raw_value[i].as_ref().map(|v| show(v)), "reparsed": fresh.raw_value[i].as_ref().map(|v| show(v))})));
            }
            if mem.raw_value_mut[i] != fresh.raw_value_mut[i] && rank > 2 {
                rank = 2;
                let sh = |v: &Option<(Vec<u8>, SecSnap)>| v.as_ref().map(|(v, s)| format!("{} in {}", show(v), show_snap(s)));
                first = Some(("raw_value_mut", json!({"lookup": probe, "memory": sh(&mem.raw_value_mut[i]), "reparsed": sh(&fresh.raw_value_mut[i])})));
            }
            if mem.raw_values_mut[i] != fresh.raw_values_mut[i] && rank > 3 {
                rank = 3;
                let sh = |v: &Option<Vec<Vec<u8>>>| v.as_ref().map(|v| show_vals(v));
                first = Some(("raw_values_mut", json!({"lookup": probe, "memory": sh(&mem.raw_values_mut[i]), "reparsed": sh(&fresh.raw_values_mut[i])})));
            }
            i += 1;
        }
    }
    if first.is_some() {
        return first;
    }
    if mem.num_values != fresh.num_values {
        return Some(("num_values", json!({"memory": mem.num_values, "reparsed": fresh.num_values})));
    }
    None
}

enum GitEq {
    /// no git command with the same meaning on this input (reason is counted)
    No(&'static str),
    /// git must list exactly the same afterwards
    Full(&'static str, Vec<Vec<u8>>),
    /// git edits another occurrence than the documented target of the gitoxide call, but the value every key
    /// resolves to (the last one) must be the same
    Effective(&'static str, Vec<Vec<u8>>),
}

/// `name[.sub]` as the git command line wants it; None if git's syntax cannot express it safely
fn git_section_arg(h: &Hdr) -> Option<Vec<u8>> {
    if !valid_header(h) {
        return None;
    }
    let mut o = h.0.as_bytes().to_vec();
    if let Some(s) = &h.1 {
        if s.is_empty() || s.contains(&b'\n') {
            return None;
        }
        o.push(b'.');
        o.extend_from_slice(s);
    }
    Some(o)
}

fn git_key_arg(h: &Hdr, key: &str) -> Option<Vec<u8>> {
    let k = key.as_bytes();
    if k.is_empty() || !k[0].is_ascii_alphabetic() || !k.iter().all(|c| c.is_ascii_alphanumeric() || *c == b'-') {
        return None;
    }
    let mut o = git_section_arg(h)?;
    o.push(b'.');
    o.extend_from_slice(k);
    Some(o)
}

fn git_equivalent(op: &SeqOp, view: &[MSec]) -> GitEq {
    let nsec = |h: &Hdr| view.iter().filter(|s| sec_matches(s, h.0.as_bytes(), h.1.as_deref())).count();
    // `git config --rename-section/--remove-section` compare the section name with the header text byte by byte
    // (section_name_match() in git's config.c), while reading and gitoxide ignore its case: only equal spellings coincide
    let same_spelling = |h: &Hdr| view.iter().filter(|s| sec_matches(s, h.0.as_bytes(), h.1.as_deref())).all(|s| s.name == h.0.as_bytes());
    let args = |a: &[&[u8]]| a.iter().map(|x| x.to_vec()).collect::<Vec<_>>();
    match op {
        SeqOp::Rename { old, new, .. } | SeqOp::RenameAll { old, new } => {
            let (Some(o), Some(n)) = (git_section_arg(old), git_section_arg(new)) else { return GitEq::No("header-not-expressible") };
            if !same_spelling(old) {
                return GitEq::No("git-matches-header-case-sensitively");
            }
            match (nsec(old), matches!(op, SeqOp::RenameAll { .. })) {
                (0, _) => GitEq::No("target-missing"),
                (1, _) | (_, true) => GitEq::Full("rename-section", args(&[b"--rename-section", &o, &n])),
                _ => GitEq::No("git-takes-all-duplicates"),
            }
        }
        SeqOp::Remove { hdr, .. } | SeqOp::RemoveAll { hdr } => {
            let Some(h) = git_section_arg(hdr) else { return GitEq::No("header-not-expressible") };
            if !same_spelling(hdr) {
                return GitEq::No("git-matches-header-case-sensitively");
            }
            match (nsec(hdr), matches!(op, SeqOp::RemoveAll { .. })) {
                (0, _) => GitEq::No("target-missing"),
                (1, _) | (_, true) => GitEq::Full("remove-section", args(&[b"--remove-section", &h])),
                _ => GitEq::No("git-takes-all-duplicates"),
            }
        }
        SeqOp::NewSection { .. } => GitEq::No("no-git-command"),
        SeqOp::Set { hdr, key, val } | SeqOp::SecSet { hdr, key, val } => {
            let Some(k) = git_key_arg(hdr, key) else { return GitEq::No("header-not-expressible") };
            let (n, occ, occ_last) = occurrences(view, hdr, key);
            if n == 0 && matches!(op, SeqOp::SecSet { .. }) {
                return GitEq::No("target-missing");
            }
            match (occ, occ_last) {
                (0, _) | (1, 1) => GitEq::Full("set", args(&[&k, val])),
                (1, _) => GitEq::Effective("set", args(&[&k, val])),
                _ => GitEq::No("git-refuses-multi-valued"),
            }
        }
        SeqOp::SetExisting { hdr, key, val } => {
            let Some(k) = git_key_arg(hdr, key) else { return GitEq::No("header-not-expressible") };
            match occurrences(view, hdr, key).1 {
                0 => GitEq::No("target-missing"),
                1 => GitEq::Full("set", args(&[&k, val])),
                _ => GitEq::No("git-refuses-multi-valued"),
            }
        }
        SeqOp::Add { hdr, key, val } | SeqOp::SecPush { hdr, key, val } => {
            let Some(k) = git_key_arg(hdr, key) else { return GitEq::No("header-not-expressible") };
            if nsec(hdr) == 0 && matches!(op, SeqOp::SecPush { .. }) {
                return GitEq::No("target-missing");
            }
            GitEq::Full("add", args(&[b"--add", &k, val]))
        }
        SeqOp::SecRemove { hdr, key } | SeqOp::Unset { hdr, key } => {
            let Some(k) = git_key_arg(hdr, key) else { return GitEq::No("header-not-expressible") };
            let (_, occ, occ_last) = occurrences(view, hdr, key);
            match (occ, occ_last, matches!(op, SeqOp::Unset { .. })) {
                (0, _, _) => GitEq::No("target-missing"),
                (1, 1, _) | (1, _, true) => GitEq::Full("unset", args(&[b"--unset", &k])),
                (1, _, false) => GitEq::No("key-not-in-last-section"),
                _ => GitEq::No("git-refuses-multi-valued"),
            }
        }
        SeqOp::UnsetAll { hdr, key } => {
            let Some(k) = git_key_arg(hdr, key) else { return GitEq::No("header-not-expressible") };
            match occurrences(view, hdr, key).1 {
                0 => GitEq::No("target-missing"),
                _ => GitEq::Full("unset-all", args(&[b"--unset-all", &k])),
            }
        }
    }
}

/// what the in-memory file answered for one key right after a step
struct KeyProbe {
    name: Vec<u8>,
    sub: Option<Vec<u8>>,
    key: Vec<u8>,
    values: Vec<Vec<u8>>,
    last: Option<Vec<u8>>,
}

/// `git config --file <copy of the text before the step> <args>`
struct GitJob {
    cmd: &'static str,
    args: Vec<Vec<u8>>,
    /// compare the full listing, or only the value every key resolves to
    full: bool,
    /// where the text git left went (None: not run or git refused)
    text_idx: Option<usize>,
}

/// one judged step, waiting for git's listing of the texts
struct StepRec {
    seq: usize,
    step: usize,
    kind: &'static str,
    class: String,
    t_before: usize,
    t_after: usize,
    git: Option<GitJob>,
    probes: Vec<KeyProbe>,
}

struct SeqLog {
    start: Vec<u8>,
    ops: Vec<String>,
}

fn view_of_snaps(s: &[SecSnap]) -> Vec<MSec> {
    s.iter().map(|s| MSec { name: s.name.clone(), sub: s.sub.clone(), kvs: s.kvs.iter().map(|(k, v)| MKv { key: k.clone(), val: Some(v.clone()) }).collect() }).collect()
}

/// one sequence of steps on one long-lived file; S1..S3 are judged here, S4/S5 need git and are recorded
fn run_sequence(ctx: &mut Ctx, r: &mut Rng, seq: usize, start: &[u8], local: &[Hdr], s5_allowance: usize, texts: &mut Vec<Vec<u8>>, recs: &mut Vec<StepRec>, log: &mut SeqLog) {
    let mut r5 = r.fork();
    let mut s5_left = s5_allowance;
    let (mut file, mut reparsed) = match (guard(|| parse_owned(start)), guard(|| parse_owned(start))) {
        (Ok(Ok(a)), Ok(Ok(b))) => (a, b),
        _ => {
            ctx.count("seq_skipped_start_rejected");
            return;
        }
    };
    let mut text: Vec<u8> = match guard(|| file.to_bstring()) {
        Ok(t) => t.into(),
        Err(p) => {
            ctx.panic_violation("File::to_bstring", &p, "seq-start", json!({"start": clip(start)}));
            return;
        }
    };
    let mut view = match flatten(&text) {
        Ok(f) => read_back(&f),
        Err(_) => {
            ctx.count("seq_skipped_start_rejected");
            return;
        }
    };
    ctx.count("sequences");
    texts.push(text.clone());
    let mut t_idx = texts.len() - 1;
    let mut seen_hdrs: Vec<ProbeHdr> = Vec::new();
    let mut seen_keys: Vec<Vec<u8>> = Vec::new();
    let mut counter = 0u32;
    let n_steps = 2 + r.usize(7);
    let mut prev: (&'static str, String) = ("start", String::new());
    for step in 0..n_steps {
        let op = gen_seq_op(r, &view, local, &mut counter);
        let kind = op.kind();
        let class = seq_class(&op, &view);
        log.ops.push(format!("{op:?}"));
        ctx.eval();
        ctx.count(&format!("seq_{kind}"));
        ctx.distinct(("seq", kind, class.clone()));
        ctx.distinct(("seq-pair", prev.0, prev.1.clone(), kind, class.clone()));
        let witness = |after: Option<&[u8]>, extra: serde_json::Value| {
            json!({"start": clip(&log.start), "steps": log.ops.clone(), "failing_step": step, "text_before_step": clip(&text), "text_after_step": after.map(clip), "detail": extra})
        };
        // ---- S1: the same step on the long-lived file and on a fresh parse of its previous serialization
        let ok_m = match seq_apply(&mut file, &op) {
            Ok(b) => b,
            Err(p) => {
                ctx.panic_violation(&format!("sequence {kind}"), &p, &class, witness(None, json!(null)));
                return;
            }
        };
        let ok_p = match seq_apply(&mut reparsed, &op) {
            Ok(b) => b,
            Err(p) => {
                ctx.panic_violation(&format!("sequence {kind} on reparsed"), &p, &class, witness(None, json!(null)));
                return;
            }
        };
        let (new_text, new_text_p): (Vec<u8>, Vec<u8>) = match (guard(|| file.to_bstring()), guard(|| reparsed.to_bstring())) {
            (Ok(a), Ok(b)) => (a.into(), b.into()),
            (Err(p), _) | (_, Err(p)) => {
                ctx.panic_violation("File::to_bstring", &p, kind, witness(None, json!(null)));
                return;
            }
        };
        if ok_m != ok_p {
            ctx.violation(
                &format!("coherence|edit-memory-vs-reparse|result|{kind}|{class}"),
                "the same edit call succeeds on the long-lived in-memory file and fails on a fresh parse of its serialization (or the reverse)",
                witness(Some(&new_text), json!({"ok_in_memory": ok_m, "ok_on_reparsed": ok_p})),
            );
            return;
        }
        if !ok_m {
            ctx.count("seq_steps_failing_as_expected");
        }
        let (new_view, new_view_p) = match (flatten(&new_text), flatten(&new_text_p)) {
            (Ok(a), Ok(b)) => (read_back(&a), read_back(&b)),
            (a, _) => {
                ctx.violation(
                    &format!("coherence|serialization-unparsable|{kind}|{class}"),
                    "the serialized file does not parse after the step",
                    witness(Some(&new_text), json!({"which": if a.is_err() { "long-lived file" } else { "reparsed file" }, "text_of_reparsed_after_step": clip(&new_text_p)})),
                );
                return;
            }
        };
        if !same_model(&new_view, &new_view_p) {
            ctx.violation(
                &format!("coherence|edit-memory-vs-reparse|content|{kind}|{class}"),
                "the same edit leaves different sections/values on the long-lived in-memory file than on a fresh parse of its serialization: the in-memory lookup picked another target than the file's text means",
                witness(Some(&new_text), json!({"long_lived_file_after": show_model(&new_view), "reparsed_file_after": show_model(&new_view_p), "text_of_reparsed_after_step": clip(&new_text_p)})),
            );
            return;
        }
        if new_text != new_text_p {
            ctx.count("seq_steps_bytes_differ_content_equal");
            if ctx.counter("seq_steps_bytes_differ_content_equal") == 1 {
                ctx.note("first_bytes_differ_content_equal", json!({"text_before_step": clip(&text), "step": format!("{op:?}"), "long_lived_file_after": clip(&new_text), "reparsed_file_after": clip(&new_text_p)}));
            }
        }
        // ---- S2 + S3: every lookup on the long-lived file against a fresh parse of what it serializes to
        for h in op.headers() {
            let id = (h.0.as_bytes().to_ascii_lowercase(), h.1.clone());
            if valid_header(h) && !seen_hdrs.contains(&id) {
                seen_hdrs.push(id);
            }
        }
        for s in view.iter().chain(new_view.iter()) {
            let id = (s.name.to_ascii_lowercase(), s.sub.clone());
            if !seen_hdrs.contains(&id) {
                seen_hdrs.push(id);
            }
            for kv in &s.kvs {
                let k = kv.key.to_ascii_lowercase();
                if !seen_keys.contains(&k) {
                    seen_keys.push(k);
                }
            }
        }
        for k in op.keys() {
            let k = k.as_bytes().to_ascii_lowercase();
            if !seen_keys.contains(&k) {
                seen_keys.push(k);
            }
        }
        let mut names: Vec<Vec<u8>> = Vec::new();
        for (n, _) in &seen_hdrs {
            if !names.contains(n) {
                names.push(n.clone());
            }
        }
        let mut fresh = match guard(|| parse_owned(&new_text)) {
            Ok(Ok(f)) => f,
            _ => {
                ctx.inconclusive("a text that Events::from_bytes accepts is rejected by from_bytes_owned");
                return;
            }
        };
        let (lm, lf) = match (guard(|| collect_lookups(&mut file, &seen_hdrs, &names, &seen_keys)), guard(|| collect_lookups(&mut fresh, &seen_hdrs, &names, &seen_keys))) {
            (Ok(a), Ok(b)) => (a, b),
            (Err(p), _) => {
                ctx.panic_violation(&format!("sequence lookups after {kind}"), &p, &class, witness(Some(&new_text), json!(null)));
                return;
            }
            (_, Err(p)) => {
                ctx.panic_violation(&format!("sequence lookups on reparsed after {kind}"), &p, &class, witness(Some(&new_text), json!(null)));
                return;
            }
        };
        ctx.count_n("seq_sections_by_name_some_but_empty_in_memory", lm.by_name_some_empty as u64);
        ctx.count_n("seq_lookups_compared", (2 * seen_hdrs.len() + names.len() + 4 * seen_hdrs.len() * seen_keys.len() + 2) as u64);
        if !same_model(&view_of_snaps(&lm.sections), &new_view) {
            ctx.violation(
                &format!("coherence|sections-vs-serialization|{kind}|{class}"),
                "sections() of the long-lived file lists other sections/values than its own serialization reads back as",
                witness(Some(&new_text), json!({"sections()": lm.sections.iter().map(show_snap).collect::<Vec<_>>(), "read_back": show_model(&new_view)})),
            );
            return;
        }
        if let Some((api, detail)) = lookups_differ(&lm, &lf, &seen_hdrs, &names, &seen_keys) {
            ctx.violation(
                &format!("coherence|memory-vs-reparse|{api}|{kind}|{class}"),
                "after the step a lookup on the long-lived in-memory file answers differently than the same lookup on a fresh parse of its serialization",
                witness(Some(&new_text), detail),
            );
            return;
        }
        // ---- S4/S5: recorded, judged when git has listed the texts
        texts.push(new_text.clone());
        let t_after = texts.len() - 1;
        let mut probes = Vec::new();
        let mut i = 0;
        for (name, sub) in &seen_hdrs {
            for key in &seen_keys {
                probes.push(KeyProbe { name: name.clone(), sub: sub.clone(), key: key.clone(), values: lm.raw_values[i].clone(), last: lm.raw_value[i].clone() });
                i += 1;
            }
        }
        let mut git = None;
        match git_equivalent(&op, &view) {
            GitEq::No(reason) => ctx.count(&format!("seq_git_equivalent_none_{reason}")),
            GitEq::Full(cmd, _) | GitEq::Effective(cmd, _) if !ok_m => {
                // inside the domain the call has to work like the git command does
                ctx.violation(
                    &format!("git-equivalent|{cmd}|call-fails|{kind}|{class}"),
                    "the edit call fails where the git command of the same meaning applies",
                    witness(Some(&new_text), json!({"git_command": cmd})),
                );
                return;
            }
            eq @ (GitEq::Full(..) | GitEq::Effective(..)) => {
                let (cmd, args, full) = match eq {
                    GitEq::Full(c, a) => (c, a, true),
                    GitEq::Effective(c, a) => (c, a, false),
                    GitEq::No(_) => unreachable!(),
                };
                // every git edit is a process: a sequence may ask for `s5_allowance` of them, section commands first
                let wanted = matches!(cmd, "rename-section" | "remove-section") || r5.chance(1, 3) || step + 1 == n_steps;
                if s5_left > 0 && wanted {
                    s5_left -= 1;
                    git = Some(GitJob { cmd, args, full, text_idx: None });
                } else {
                    ctx.count("seq_git_equivalent_not_run_allowance");
                }
            }
        }
        recs.push(StepRec { seq, step, kind, class: class.clone(), t_before: t_idx, t_after, git, probes });
        reparsed = fresh;
        text = new_text;
        view = new_view;
        t_idx = t_after;
        prev = (kind, class);
    }
    ctx.distinct(("seq-len", n_steps));
}

fn effective(listing: &[(Vec<u8>, Option<Vec<u8>>)]) -> std::collections::BTreeMap<Vec<u8>, Option<Vec<u8>>> {
    listing.iter().cloned().collect()
}

fn show_listing(l: &[(Vec<u8>, Option<Vec<u8>>)]) -> Vec<String> {
    l.iter().map(|(k, v)| format!("{}={}", show(k), v.as_ref().map_or("<implicit>".into(), |v| show(v)))).collect()
}

/// S4 and S5 for all recorded steps of a batch
fn judge_with_git(ctx: &mut Ctx, dir: &std::path::Path, texts: &mut Vec<Vec<u8>>, recs: &mut [StepRec], logs: &[SeqLog]) {
    use std::os::unix::ffi::OsStrExt;
    // ---- the git edits, four at a time, each on its own copy g<j> of the text before the step
    let jobs: Vec<(usize, Vec<std::ffi::OsString>, &Vec<u8>)> = recs
        .iter()
        .enumerate()
        .filter_map(|(ri, rec)| {
            rec.git.as_ref().map(|j| {
                let mut argv: Vec<std::ffi::OsString> = vec!["config".into(), "--file".into(), format!("g{ri}").into()];
                argv.extend(j.args.iter().map(|a| std::ffi::OsStr::from_bytes(a).to_os_string()));
                (ri, argv, &texts[rec.t_before])
            })
        })
        .collect();
    // Ok(Some(text)) git edited, Ok(None) git refused (exit, stderr), Err tool failure
    type JobOut = Result<Result<Vec<u8>, (Option<i32>, String)>, String>;
    let run_job = |ri: usize, argv: &[std::ffi::OsString], before: &[u8]| -> JobOut {
        let g = dir.join(format!("g{ri}"));
        std::fs::write(&g, before).map_err(|_| "cannot write scratch file".to_string())?;
        let o = crate::fw::git::run(dir, argv).map_err(|e| format!("git spawn failed: {e}"))?;
        let res = if o.ok { Ok(std::fs::read(&g).map_err(|_| "cannot read scratch file".to_string())?) } else { Err((o.code, o.err_text())) };
        let _ = std::fs::remove_file(&g);
        Ok(res)
    };
    let mut outs: Vec<(usize, JobOut)> = std::thread::scope(|sc| {
        let handles: Vec<_> = (0..4)
            .map(|t| {
                let jobs = &jobs;
                let run_job = &run_job;
                sc.spawn(move || jobs.iter().skip(t).step_by(4).map(|(ri, argv, before)| (*ri, run_job(*ri, argv, before))).collect::<Vec<_>>())
            })
            .collect();
        handles.into_iter().flat_map(|h| h.join().unwrap_or_default()).collect()
    });
    if outs.len() != jobs.len() {
        ctx.inconclusive("a git edit worker thread died");
        return;
    }
    drop(jobs);
    outs.sort_by_key(|(ri, _)| *ri);
    for (ri, out) in outs {
        ctx.count("seq_git_edit_calls");
        let Some(job) = recs[ri].git.as_mut() else { continue };
        match out {
            Err(e) => {
                ctx.inconclusive(&e);
                return;
            }
            Ok(Err((code, stderr))) => {
                let key = format!("seq_git_equivalent_git_refused_{}", job.cmd);
                ctx.count(&key);
                if ctx.counter(&key) == 1 {
                    ctx.note(&format!("first_git_refusal_{}", job.cmd), json!({"text": clip(&texts[recs[ri].t_before]), "args": job.args.iter().map(|a| show(a)).collect::<Vec<_>>(), "exit": code, "stderr": stderr}));
                }
            }
            Ok(Ok(t)) => {
                texts.push(t);
                job.text_idx = Some(texts.len() - 1);
                ctx.count(&format!("seq_git_equivalent_{}{}", job.cmd, if job.full { "" } else { "_effective" }));
            }
        }
    }
    let texts: &[Vec<u8>] = texts;
    let recs: &[StepRec] = recs;
    let mut listed: Vec<Option<Vec<GitEntry>>> = Vec::with_capacity(texts.len());
    for chunk in texts.chunks(400) {
        for (i, t) in chunk.iter().enumerate() {
            if std::fs::write(dir.join(format!("f{i}")), t).is_err() {
                ctx.inconclusive("cannot write scratch file");
                return;
            }
        }
        let Some(l) = git_list_batch(ctx, dir, chunk.len()) else { return };
        listed.extend(l);
    }
    let mut dead: HashSet<usize> = HashSet::new();
    for rec in recs {
        if dead.contains(&rec.seq) {
            continue;
        }
        let log = &logs[rec.seq];
        let kind = rec.kind;
        let class = &rec.class;
        let witness = |extra: serde_json::Value| {
            json!({"start": clip(&log.start), "steps": log.ops[..=rec.step.min(log.ops.len() - 1)].to_vec(), "failing_step": rec.step, "text_before_step": clip(&texts[rec.t_before]), "text_after_step": clip(&texts[rec.t_after]), "detail": extra})
        };
        ctx.eval();
        let Some(entries) = &listed[rec.t_after] else {
            ctx.violation(&format!("coherence|git-rejects-serialization|{kind}|{class}"), "git rejects the serialized file after the step", witness(json!(null)));
            dead.insert(rec.seq);
            continue;
        };
        // ---- S4
        let mut bad = None;
        for p in &rec.probes {
            let want: Vec<Vec<u8>> = entries
                .iter()
                .filter(|e| e.section == p.name && e.sub == p.sub && e.name == p.key)
                .map(|e| e.value.clone().unwrap_or_default())
                .collect();
            ctx.count("seq_git_view_lookups");
            if want != p.values {
                bad = Some(("raw_values", p, want));
                break;
            }
            if want.last() != p.last.as_ref() {
                bad = Some(("raw_value", p, want));
                break;
            }
        }
        if let Some((api, p, want)) = bad {
            ctx.violation(
                &format!("coherence|memory-vs-git|{api}|{kind}|{class}"),
                "after the step a lookup on the long-lived in-memory file answers differently than git reads its serialization",
                witness(json!({"lookup": format!("{} {}", show(&header_line(&String::from_utf8_lossy(&p.name), p.sub.as_deref())), show(&p.key)),
                    "git": want.iter().map(|v| show(v)).collect::<Vec<_>>(), "raw_values_by": p.values.iter().map(|v| show(v)).collect::<Vec<_>>(), "raw_value_by": p.last.as_ref().map(|v| show(v))})),
            );
            dead.insert(rec.seq);
            continue;
        }
        // ---- S5
        if let Some((gi, cmd, full)) = rec.git.as_ref().and_then(|j| j.text_idx.map(|t| (t, j.cmd, j.full))) {
            let Some(gentries) = &listed[gi] else {
                ctx.count("seq_git_equivalent_git_output_unreadable");
                continue;
            };
            ctx.eval();
            ctx.count("seq_git_equivalent_checks");
            let ours = git_listing(entries);
            let gits = git_listing(gentries);
            let differs = if full { ours != gits } else { effective(&ours) != effective(&gits) };
            if differs {
                ctx.violation(
                    &format!("git-equivalent|{cmd}|{}|{kind}|{class}", if full { "listing" } else { "effective-values" }),
                    "the edit on the in-memory file does not have the effect of the git command of the same meaning applied to the same text",
                    witness(json!({"git_command": cmd, "text_git_leaves": clip(&texts[gi]), "git_lists_for_ours": show_listing(&ours), "git_lists_for_its_own": show_listing(&gits)})),
                );
                dead.insert(rec.seq);
            }
        }
    }
}

pub fn run(ctx: &mut Ctx) {
    ctx.rule(
        "case = a batch of edit histories; one history = a generated config file (grammar of C26, git-safe) + 1..15 random edits \
         (set_raw_value, set_existing_raw_value, raw_value_mut set/delete, raw_values_mut set_all/set_values/set_at/delete/delete_all, \
         section_mut push/set/remove, new_section(+push), remove_section(_filter), rename_section; names with case variations, \
         existing and missing targets, invalid names) checked after every edit against the multimap model (in memory, after \
         to_bstring+parse, event subsequence) and by git on the final text. distinct = (edit kind, class of the targeted \
         value/section end [implicit, continuation, ends without newline, ...], expected ok) + (history length, kinds used). \
         Part 2 (sequences): a small clean file with few distinct headers, many repeated (with/without subsection, case variants of \
         the name) + 2..8 steps on ONE long-lived File (rename_section(_filter) onto unused/same/earlier/later headers, rename/remove \
         until none is left, remove_section(_filter), new_section, set/set_existing/add/section_mut push,set,remove/unset/unset-all); \
         after every step: same step on a fresh parse of the previous serialization (result+content), sections() vs serialization, \
         all lookups in memory vs fresh parse of the serialization, vs git's listing of it, and the git command of the same meaning \
         (rename-section, remove-section, set, --add, --unset, --unset-all) on the same text. distinct there = (step kind, class of \
         what it meets [sub/nosub-onto-unused/same/earlier/later, single/duplicate section, key new/single/multi, ...]) and pairs \
         of consecutive (kind, class)",
    );
    ctx.assume("git-equivalent: gitoxide edits the last matching section/occurrence, git refuses multi-valued keys and takes all sections of a name; the comparison is made only where both meanings coincide (counted otherwise)");
    ctx.assume("the model follows the documented API semantics: last matching section, last matching key, multi-values in file order, set() replaces the last occurrence or appends");
    // ---- part 2 first (it is small and directed; the histories below take what is left of the budget)
    let seq_dir = ctx.dir("c28seq");
    let seq_batches = ctx.n(14, 200);
    let seq_per_batch = 40usize;
    let s5_allowance = ctx.n(2, 4) as usize;
    let seq_budget_s = if ctx.quick() { 25.0 } else { 200.0 };
    ctx.cases("sequences", seq_batches, |ctx, r| {
        if ctx.elapsed() > seq_budget_s {
            ctx.count("seq_budget_stops");
            return;
        }
        // phase 1: the start files; git and gitoxide must read them alike
        let mut starts: Vec<(Vec<u8>, Vec<Hdr>)> = Vec::new();
        for i in 0..seq_per_batch {
            let names: Vec<&str> = (0..2).map(|_| *r.pick(SEQ_NAMES)).collect();
            let subs: Vec<&[u8]> = (0..2).map(|_| *r.pick(SEQ_SUBS)).collect();
            let n_local = 2 + r.usize(3);
            let local: Vec<Hdr> = (0..n_local).map(|_| ((*r.pick(&names)).to_string(), if r.chance(3, 5) { Some(r.pick(&subs).to_vec()) } else { None })).collect();
            let start = gen_seq_start(r, &local);
            if std::fs::write(seq_dir.join(format!("f{i}")), &start).is_err() {
                ctx.inconclusive("cannot write scratch file");
                return;
            }
            starts.push((start, local));
        }
        let Some(listed) = git_list_batch(ctx, &seq_dir, starts.len()) else { return };
        // phase 2: the sequences; S1..S3 judged on the spot
        let mut texts: Vec<Vec<u8>> = Vec::new();
        let mut recs: Vec<StepRec> = Vec::new();
        let mut logs: Vec<SeqLog> = Vec::new();
        for (seq, ((start, local), entries)) in starts.iter().zip(&listed).enumerate() {
            logs.push(SeqLog { start: start.clone(), ops: Vec::new() });
            let mut sub = r.fork();
            let agree = match (entries, flatten(start)) {
                (Some(e), Ok(f)) => model_listing(&read_back(&f)) == git_listing(e),
                _ => false,
            };
            if !agree {
                ctx.count("seq_skipped_start_git_and_gitoxide_disagree");
                continue;
            }
            let mut log = SeqLog { start: start.clone(), ops: Vec::new() };
            run_sequence(ctx, &mut sub, seq, start, local, s5_allowance, &mut texts, &mut recs, &mut log);
            if ctx.want_sample() {
                ctx.sample(json!({"part": "sequence", "start": clip(start), "steps": log.ops}));
            }
            logs[seq] = log;
        }
        // phase 3: git lists every text of the batch in one go; S4/S5
        judge_with_git(ctx, &seq_dir, &mut texts, &mut recs, &logs);
    });
    let seq_seconds = ctx.elapsed();
    ctx.note("seq_part_seconds", json!((seq_seconds * 10.0).round() / 10.0));

    let dir = ctx.dir("c28");
    let batches = ctx.n(16, 400);
    let per_batch = 50usize;
    ctx.cases("histories", batches, |ctx, r| {
        if ctx.elapsed() > 400.0 {
            ctx.count("budget_stops");
            return;
        }
        let mut hs: Vec<History> = Vec::new();
        for i in 0..per_batch {
            let opts = GenOpts { git_safe: true, typed: false, max_sections: 4, max_lines: 4 };
            let g = gen_config(r, &opts);
            let mut bytes = g.bytes;
            bytes.retain(|c| *c != 0);
            if r.chance(1, 12) {
                // a last line that is only a comment marker, without newline
                while matches!(bytes.last(), Some(b'\n' | b'\r')) {
                    bytes.pop();
                }
                bytes.extend_from_slice(*r.pick(&[&b"\n#"[..], b"\n;  ", b"\n\t# c"]));
            }
            if std::fs::write(dir.join(format!("f{i}")), &bytes).is_err() {
                ctx.inconclusive("cannot write scratch file");
                return;
            }
            hs.push(History { original: bytes, feats: g.feats, final_text: None, model: Vec::new(), edits: Vec::new() });
        }
        let Some(listed) = git_list_batch(ctx, &dir, hs.len()) else { return };
        for (h, entries) in hs.iter_mut().zip(&listed) {
            let Some(entries) = entries else {
                ctx.count("skipped_git_rejects_baseline");
                continue;
            };
            let mut log = Vec::new();
            let mut sub = r.fork();
            if let Some((text, model)) = run_history(ctx, &mut sub, &h.original, entries, &mut log) {
                h.final_text = Some(text);
                h.model = model;
            }
            h.edits = log;
        }
        // ---- git reads the final texts
        for (i, h) in hs.iter().enumerate() {
            let text = h.final_text.clone().unwrap_or_default();
            if std::fs::write(dir.join(format!("f{i}")), &text).is_err() {
                ctx.inconclusive("cannot write scratch file");
                return;
            }
        }
        let Some(listed) = git_list_batch(ctx, &dir, hs.len()) else { return };
        for (h, entries) in hs.iter().zip(&listed) {
            let Some(text) = &h.final_text else { continue };
            ctx.eval();
            ctx.count("git_final_checks");
            let witness = |extra: serde_json::Value| json!({"original": clip(&h.original), "edits": h.edits, "final_text": clip(text), "model": show_model(&h.model), "detail": extra});
            match entries {
                None => ctx.violation("git|rejects-final-text", "git rejects the serialized edited file", witness(json!(null))),
                Some(entries) => {
                    let got = git_listing(entries);
                    let want = model_listing(&h.model);
                    if got != want {
                        let what = if got.len() != want.len() {
                            "entry-count"
                        } else if got.iter().zip(&want).any(|(a, b)| a.0 != b.0) {
                            "key"
                        } else {
                            "value"
                        };
                        ctx.violation(
                            &format!("git|final-listing-differs|{what}"),
                            "git lists different keys/values for the serialized edited file than the edits should leave",
                            witness(json!({"git": got.iter().map(|(k, v)| format!("{}={}", show(k), v.as_ref().map_or("<implicit>".into(), |v| show(v)))).collect::<Vec<_>>()})),
                        );
                    }
                }
            }
            if ctx.want_sample() {
                ctx.sample(json!({"original": clip(&h.original), "productions": feat_names(h.feats), "edits": h.edits, "final_text": clip(text)}));
            }
        }
    });
}
