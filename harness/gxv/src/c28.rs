//! C28 Config edits change only what was edited.
//! Oracles: M - an ordered multimap model (sections in file order, each with its (key, value|implicit) list) that follows
//! the documented semantics of every edit API; after every edit (a) the edited `File` serialized with `to_bstring()`
//! and parsed again must list exactly the model, (b) in-memory `raw_values_by` lookups and `sections()` must agree
//! with the model, (c) event diff: every comment, header, key, separator and value event of the text before the
//! edit that does not belong to the edited key/section must still be there, in order, in the text after the edit.
//! G - `git config -z --list` reads the starting text (must agree with the model, else the history is not judged: that
//! is C27's subject) and the final text (must list the model).
use crate::c26::{feat_names, gen_config, GenOpts};
use crate::c27::{git_list_batch, GitEntry};
use crate::fw::{guard, show, Ctx, PanicInfo, Rng};
use bstr::{BStr, BString, ByteSlice};
use gix_config::parse::{section::ValueName, Event, Events};
use serde_json::json;
use std::borrow::Cow;
use std::collections::{BTreeSet, HashSet};

pub fn child(_mode: &str) {}

// ------------------------------------------------------------------ model

#[derive(Clone, Debug, PartialEq, Eq)]
struct MKv {
    key: Vec<u8>,
    /// None = implicit boolean
    val: Option<Vec<u8>>,
}

#[derive(Clone, Debug, PartialEq, Eq)]
struct MSec {
    name: Vec<u8>,
    sub: Option<Vec<u8>>,
    kvs: Vec<MKv>,
}

fn sec_matches(s: &MSec, name: &[u8], sub: Option<&[u8]>) -> bool {
    s.name.eq_ignore_ascii_case(name) && s.sub.as_deref() == sub
}

fn last_section(m: &[MSec], name: &[u8], sub: Option<&[u8]>) -> Option<usize> {
    m.iter().rposition(|s| sec_matches(s, name, sub))
}

fn last_key(s: &MSec, key: &[u8]) -> Option<usize> {
    s.kvs.iter().rposition(|kv| kv.key.eq_ignore_ascii_case(key))
}

fn valid_section_name(n: &[u8]) -> bool {
    n.iter().all(|b| b.is_ascii_alphanumeric() || *b == b'-')
}

fn valid_subsection(n: &[u8]) -> bool {
    !n.contains(&b'\n') && !n.contains(&0)
}

/// what git lists for the model: (lower section[.sub].lower key, value)
fn model_listing(m: &[MSec]) -> Vec<(Vec<u8>, Option<Vec<u8>>)> {
    let mut out = Vec::new();
    for s in m {
        for kv in &s.kvs {
            let mut k = s.name.to_ascii_lowercase();
            if let Some(sub) = &s.sub {
                k.push(b'.');
                k.extend_from_slice(sub);
            }
            k.push(b'.');
            k.extend_from_slice(&kv.key.to_ascii_lowercase());
            out.push((k, kv.val.clone()));
        }
    }
    out
}

// ------------------------------------------------------------------ reading texts

struct FlatEv {
    ev: Event<'static>,
    /// usize::MAX = frontmatter
    sec: usize,
    kv: Option<usize>,
    header: bool,
}

fn is_content(e: &Event<'_>) -> bool {
    !matches!(e, Event::Whitespace(_) | Event::Newline(_))
}

/// all events of a text in order, tagged with the section and key/value pair they belong to
fn flatten(text: &[u8]) -> Result<Vec<FlatEv>, String> {
    let ev = Events::from_bytes(text, None).map_err(|e| e.to_string())?;
    let mut out = flatten_events(&ev);
    // a CR before the line feed belongs to the line ending, the parser leaves it in the comment text
    for f in out.iter_mut() {
        if let Event::Comment(c) = &mut f.ev {
            if c.text.last() == Some(&b'\r') {
                let mut t = c.text.to_vec();
                t.pop();
                c.text = Cow::Owned(t.into());
            }
        }
    }
    Ok(out)
}

fn flatten_events(ev: &Events<'_>) -> Vec<FlatEv> {
    let mut out = Vec::new();
    for e in &ev.frontmatter {
        out.push(FlatEv { ev: e.to_owned(), sec: usize::MAX, kv: None, header: false });
    }
    for (si, s) in ev.sections.iter().enumerate() {
        out.push(FlatEv { ev: Event::SectionHeader(s.header.to_owned()), sec: si, kv: None, header: true });
        let mut kv_idx: Option<usize> = None;
        let mut open = false;
        for e in &s.events {
            match e {
                Event::SectionValueName(_) => {
                    kv_idx = Some(kv_idx.map_or(0, |k| k + 1));
                    open = true;
                    out.push(FlatEv { ev: e.to_owned(), sec: si, kv: kv_idx, header: false });
                }
                Event::Value(_) | Event::ValueDone(_) if open => {
                    out.push(FlatEv { ev: e.to_owned(), sec: si, kv: kv_idx, header: false });
                    open = false;
                }
                _ => out.push(FlatEv { ev: e.to_owned(), sec: si, kv: if open { kv_idx } else { None }, header: false }),
            }
        }
    }
    out
}

/// sections and values of a text as gitoxide's parser and `normalize` see them
fn read_back(flat: &[FlatEv]) -> Vec<MSec> {
    let mut secs: Vec<MSec> = Vec::new();
    let mut raw: Vec<u8> = Vec::new();
    let mut saw_sep = false;
    for f in flat {
        if f.header {
            if let Event::SectionHeader(h) = &f.ev {
                secs.push(MSec { name: h.name().to_vec(), sub: h.subsection_name().map(|s| s.to_vec()), kvs: Vec::new() });
            }
            continue;
        }
        let Some(sec) = secs.last_mut() else { continue };
        if f.kv.is_none() {
            continue;
        }
        match &f.ev {
            Event::SectionValueName(k) => {
                sec.kvs.push(MKv { key: k.as_ref().as_bytes().to_vec(), val: None });
                raw.clear();
                saw_sep = false;
            }
            Event::KeyValueSeparator => saw_sep = true,
            Event::ValueNotDone(v) => raw.extend_from_slice(v.as_ref()),
            Event::Value(v) | Event::ValueDone(v) => {
                raw.extend_from_slice(v.as_ref());
                if saw_sep {
                    let n = gix_config::value::normalize_bstr(raw.as_bstr()).to_vec();
                    if let Some(kv) = sec.kvs.last_mut() {
                        kv.val = Some(n);
                    }
                }
            }
            _ => {}
        }
    }
    secs
}

fn same_model(a: &[MSec], b: &[MSec]) -> bool {
    a.len() == b.len()
        && a.iter().zip(b).all(|(x, y)| {
            x.name == y.name
                && x.sub == y.sub
                && x.kvs.len() == y.kvs.len()
                && x.kvs.iter().zip(&y.kvs).all(|(p, q)| p.key.eq_ignore_ascii_case(&q.key) && p.val == q.val)
        })
}

fn show_model(m: &[MSec]) -> serde_json::Value {
    json!(m
        .iter()
        .map(|s| {
            json!({
                "section": show(&s.name),
                "subsection": s.sub.as_ref().map(|x| show(x)),
                "values": s.kvs.iter().map(|kv| format!("{}={}", show(&kv.key), kv.val.as_ref().map_or("<implicit>".into(), |v| show(v)))).collect::<Vec<_>>()
            })
        })
        .collect::<Vec<_>>())
}

fn kv_class(flat: &[FlatEv], sec: usize, kv: usize) -> &'static str {
    let evs: Vec<&Event<'_>> = flat.iter().filter(|f| f.sec == sec && f.kv == Some(kv)).map(|f| &f.ev).collect();
    if !evs.iter().any(|e| matches!(e, Event::KeyValueSeparator)) {
        if evs.iter().any(|e| matches!(e, Event::Whitespace(_))) {
            "implicit-blank"
        } else {
            "implicit"
        }
    } else if evs.iter().any(|e| matches!(e, Event::ValueNotDone(_))) {
        "continuation"
    } else {
        "plain"
    }
}

/// how the body of a section (or the frontmatter, or the whole text for usize::MAX-1) ends
fn tail_class(flat: &[FlatEv], sec: Option<usize>) -> &'static str {
    let evs: Vec<&FlatEv> = match sec {
        Some(s) => flat.iter().filter(|f| f.sec == s && !f.header).collect(),
        None => flat.iter().collect(),
    };
    if evs.is_empty() {
        return "empty";
    }
    if matches!(evs.last().unwrap().ev, Event::Newline(_)) {
        return "newline";
    }
    match evs.iter().rev().find(|f| !matches!(f.ev, Event::Whitespace(_))) {
        Some(f) => match &f.ev {
            Event::Comment(c) if c.text.iter().all(u8::is_ascii_whitespace) => "blank-comment-no-newline",
            Event::Comment(_) => "comment-no-newline",
            Event::Value(_) | Event::ValueDone(_) => "value-no-newline",
            Event::SectionHeader(_) => "header-no-newline",
            Event::Newline(_) => "blank-after-newline",
            _ => "other",
        },
        None => "blank-only",
    }
}

// ------------------------------------------------------------------ edits

const NEW_VALUES: &[&[u8]] = &[
    b"v", b"new value", b" lead", b"trail ", b"a;b", b"a#b", b"q\"uote", b"back\\slash", b"", b"line\nbreak", b"tab\there", b"\xc3\xbc", b"x=y", b"[br]",
    b"true", b"42", b"~/p", b"a  b", b"'", b"\\", b"\"", b"# starts", b"ends\\", b"\"quoted\"", b"\\n", b" ", b"a \\\" b", b"k = v", b"\ttab-first",
];
const NEW_SECTIONS: &[&str] = &["a", "core", "CORE", "remote", "fresh", "x1", "new-sec", "9z", "b-c", "A"];
const BAD_SECTIONS: &[&str] = &["a.b", "sp ace", "uml\u{fc}", "a_b", "q\"", "[x]"];
const NEW_SUBS: &[&[u8]] = &[b"origin", b"Origin", b"o r", b"a.b", b"", b"q\"uote", b"back\\slash", b"\xc3\xbc", b"x]y", b"#;=", b"sub", b"fresh"];
const BAD_SUBS: &[&[u8]] = &[b"new\nline"];
const NEW_KEYS: &[&str] = &["k", "key", "Key", "a-b", "x2", "url", "path", "flag", "n", "K", "fresh", "z9"];

#[derive(Clone, Debug)]
enum MultiOp {
    SetAll(&'static [u8]),
    SetValues(Vec<&'static [u8]>),
    SetAt(usize, &'static [u8]),
    Delete(usize),
    DeleteAll,
}

#[derive(Clone, Debug)]
enum Edit {
    SetRaw { sec: String, sub: Option<Vec<u8>>, key: String, val: &'static [u8] },
    SetExisting { sec: String, sub: Option<Vec<u8>>, key: String, val: &'static [u8] },
    ValueMutSet { sec: String, sub: Option<Vec<u8>>, key: String, val: &'static [u8] },
    ValueMutDelete { sec: String, sub: Option<Vec<u8>>, key: String },
    Multi { sec: String, sub: Option<Vec<u8>>, key: String, ops: Vec<MultiOp> },
    SecPush { sec: String, sub: Option<Vec<u8>>, key: String, val: Option<&'static [u8]> },
    SecSet { sec: String, sub: Option<Vec<u8>>, key: String, val: &'static [u8] },
    SecRemove { sec: String, sub: Option<Vec<u8>>, key: String },
    NewSection { sec: String, sub: Option<Vec<u8>>, pushes: Vec<(String, Option<&'static [u8]>)> },
    RemoveSection { sec: String, sub: Option<Vec<u8>> },
    RemoveSectionFilter { sec: String, sub: Option<Vec<u8>> },
    RenameSection { sec: String, sub: Option<Vec<u8>>, new_sec: String, new_sub: Option<Vec<u8>> },
}

impl Edit {
    fn kind(&self) -> &'static str {
        match self {
            Edit::SetRaw { .. } => "set_raw_value",
            Edit::SetExisting { .. } => "set_existing_raw_value",
            Edit::ValueMutSet { .. } => "raw_value_mut.set",
            Edit::ValueMutDelete { .. } => "raw_value_mut.delete",
            Edit::Multi { ops, .. } => match ops.first() {
                Some(MultiOp::SetAll(_)) => "raw_values_mut.set_all",
                Some(MultiOp::SetValues(_)) => "raw_values_mut.set_values",
                Some(MultiOp::SetAt(..)) => "raw_values_mut.set_at",
                Some(MultiOp::Delete(_)) => "raw_values_mut.delete",
                _ => "raw_values_mut.delete_all",
            },
            Edit::SecPush { .. } => "section_mut.push",
            Edit::SecSet { .. } => "section_mut.set",
            Edit::SecRemove { .. } => "section_mut.remove",
            Edit::NewSection { .. } => "new_section",
            Edit::RemoveSection { .. } => "remove_section",
            Edit::RemoveSectionFilter { .. } => "remove_section_filter",
            Edit::RenameSection { .. } => "rename_section",
        }
    }
}

fn vary_case(r: &mut Rng, s: &[u8]) -> String {
    let v: Vec<u8> = match r.below(4) {
        0 => s.to_ascii_uppercase(),
        1 => s.to_ascii_lowercase(),
        _ => s.to_vec(),
    };
    String::from_utf8_lossy(&v).into_owned()
}

fn pick_section(r: &mut Rng, m: &[MSec]) -> (String, Option<Vec<u8>>) {
    if !m.is_empty() && r.chance(5, 6) {
        let s = &m[r.usize(m.len())];
        (vary_case(r, &s.name), s.sub.clone())
    } else {
        let name = (*r.pick(NEW_SECTIONS)).to_string();
        let sub = if r.bool() { Some(r.pick(NEW_SUBS).to_vec()) } else { None };
        (name, sub)
    }
}

fn pick_key(r: &mut Rng, m: &[MSec], sec: &str, sub: Option<&[u8]>) -> String {
    let keys: Vec<&Vec<u8>> = m.iter().filter(|s| sec_matches(s, sec.as_bytes(), sub)).flat_map(|s| s.kvs.iter().map(|kv| &kv.key)).collect();
    if !keys.is_empty() && r.chance(3, 4) {
        let k = keys[r.usize(keys.len())];
        vary_case(r, k)
    } else {
        (*r.pick(NEW_KEYS)).to_string()
    }
}

fn gen_edit(r: &mut Rng, m: &[MSec]) -> Edit {
    let (sec, sub) = pick_section(r, m);
    let key = pick_key(r, m, &sec, sub.as_deref());
    let val: &'static [u8] = *r.pick(NEW_VALUES);
    match r.below(19) {
        0 | 1 => Edit::SetRaw { sec, sub, key, val },
        2 | 16 => Edit::SetExisting { sec, sub, key, val },
        3 => Edit::ValueMutSet { sec, sub, key, val },
        4 => Edit::ValueMutDelete { sec, sub, key },
        5 | 6 => {
            let n_occ: usize = m.iter().filter(|s| sec_matches(s, sec.as_bytes(), sub.as_deref())).map(|s| s.kvs.iter().filter(|kv| kv.key.eq_ignore_ascii_case(key.as_bytes())).count()).sum();
            let n_ops = 1 + r.usize(2);
            let mut ops = Vec::new();
            let mut left = n_occ;
            for _ in 0..n_ops {
                let op = match r.below(6) {
                    0 => MultiOp::SetAll(*r.pick(NEW_VALUES)),
                    1 => {
                        let n = r.usize(n_occ + 2);
                        MultiOp::SetValues((0..n).map(|_| *r.pick(NEW_VALUES)).collect())
                    }
                    2 | 3 if left > 0 => MultiOp::SetAt(r.usize(left), *r.pick(NEW_VALUES)),
                    4 if left > 0 => {
                        left -= 1;
                        MultiOp::Delete(r.usize(left + 1))
                    }
                    5 => {
                        left = 0;
                        MultiOp::DeleteAll
                    }
                    _ => MultiOp::SetAll(*r.pick(NEW_VALUES)),
                };
                ops.push(op);
            }
            Edit::Multi { sec, sub, key, ops }
        }
        7 | 8 => Edit::SecPush { sec, sub, key, val: if r.chance(1, 5) { None } else { Some(val) } },
        9 | 14 => Edit::SecSet { sec, sub, key, val },
        10 | 17 => Edit::SecRemove { sec, sub, key },
        11 | 12 => {
            let name = if r.chance(1, 10) { (*r.pick(BAD_SECTIONS)).to_string() } else { (*r.pick(NEW_SECTIONS)).to_string() };
            let sub = match r.below(12) {
                0 => Some(r.pick(BAD_SUBS).to_vec()),
                1..=6 => Some(r.pick(NEW_SUBS).to_vec()),
                _ => None,
            };
            let n = r.usize(3);
            let pushes = (0..n).map(|_| ((*r.pick(NEW_KEYS)).to_string(), if r.chance(1, 6) { None } else { Some(*r.pick(NEW_VALUES)) })).collect();
            Edit::NewSection { sec: name, sub, pushes }
        }
        13 => {
            if r.chance(1, 6) {
                Edit::RemoveSectionFilter { sec, sub }
            } else {
                Edit::RemoveSection { sec, sub }
            }
        }
        _ => {
            let new_sec = if r.chance(1, 10) { (*r.pick(BAD_SECTIONS)).to_string() } else { (*r.pick(NEW_SECTIONS)).to_string() };
            let new_sub = match r.below(12) {
                0 => Some(r.pick(BAD_SUBS).to_vec()),
                1..=6 => Some(r.pick(NEW_SUBS).to_vec()),
                _ => None,
            };
            Edit::RenameSection { sec, sub, new_sec, new_sub }
        }
    }
}

/// how every section body and the whole file end *in memory* (serializing the whole file appends a missing final newline)
struct Tails {
    sections: Vec<&'static str>,
    file: &'static str,
}

fn tails_of(file: &gix_config::File<'_>) -> Tails {
    let mut sections = Vec::new();
    for s in file.sections() {
        let t = s.to_bstring();
        sections.push(match flatten(&t) {
            Ok(f) => tail_class(&f, Some(0)),
            Err(_) => "unparsable",
        });
    }
    let file_tail = match sections.last() {
        Some(t) => *t,
        None => match flatten(&file.to_bstring()) {
            Ok(f) => tail_class(&f, None),
            Err(_) => "unparsable",
        },
    };
    Tails { sections, file: file_tail }
}

/// what the edit may take away from the old text
#[derive(Default, Debug)]
struct Removed {
    kvs: HashSet<(usize, usize)>,
    sections: HashSet<usize>,
    headers: HashSet<usize>,
}

struct Applied {
    /// the code path the edit takes when it differs from the API called (set on a missing key is a push, ...)
    path: Option<&'static str>,
    /// does the API call have to succeed?
    ok: bool,
    removed: Removed,
    /// class of what the edit acts on (for signatures and distinctness)
    class: String,
}

/// Apply `e` to the model. `flat` describes the serialized text before the edit (for classes).
fn apply_model(m: &mut Vec<MSec>, e: &Edit, flat: &[FlatEv], tails: &Tails) -> Applied {
    let mut removed = Removed::default();
    let tail_of = |si: Option<usize>, _m: &Vec<MSec>| -> String {
        match si {
            Some(i) => match tails.sections.get(i).copied().unwrap_or("?") {
                "blank-comment-no-newline" => "comment-no-newline".to_string(),
                t => t.to_string(),
            },
            // a new section is appended to the text
            None => format!("file-{}", tails.file),
        }
    };
    match e {
        Edit::SetRaw { sec, sub, key, val } => {
            let si = last_section(m, sec.as_bytes(), sub.as_deref());
            match si {
                None => {
                    if !valid_section_name(sec.as_bytes()) || !sub.as_deref().map_or(true, valid_subsection) {
                        return Applied { path: None, ok: false, removed, class: "invalid-header".into() };
                    }
                    let class = tail_of(None, m);
                    m.push(MSec { name: sec.as_bytes().to_vec(), sub: sub.clone(), kvs: vec![MKv { key: key.as_bytes().to_vec(), val: Some(val.to_vec()) }] });
                    Applied { path: Some("new_section"), ok: true, removed, class }
                }
                Some(si) => match last_key(&m[si], key.as_bytes()) {
                    Some(ki) => {
                        removed.kvs.insert((si, ki));
                        m[si].kvs[ki].val = Some(val.to_vec());
                        Applied { path: Some("section_mut.set"), ok: true, removed, class: kv_class(flat, si, ki).into() }
                    }
                    None => {
                        let class = tail_of(Some(si), m);
                        m[si].kvs.push(MKv { key: key.as_bytes().to_vec(), val: Some(val.to_vec()) });
                        Applied { path: Some("section_mut.push"), ok: true, removed, class }
                    }
                },
            }
        }
        Edit::SetExisting { sec, sub, key, val } | Edit::ValueMutSet { sec, sub, key, val } => {
            let hit = m.iter().enumerate().rev().filter(|(_, s)| sec_matches(s, sec.as_bytes(), sub.as_deref())).find_map(|(si, s)| last_key(s, key.as_bytes()).map(|ki| (si, ki)));
            match hit {
                None => Applied { path: None, ok: false, removed, class: "missing".into() },
                Some((si, ki)) => {
                    removed.kvs.insert((si, ki));
                    m[si].kvs[ki].val = Some(val.to_vec());
                    Applied { path: None, ok: true, removed, class: kv_class(flat, si, ki).into() }
                }
            }
        }
        Edit::ValueMutDelete { sec, sub, key } => {
            let hit = m.iter().enumerate().rev().filter(|(_, s)| sec_matches(s, sec.as_bytes(), sub.as_deref())).find_map(|(si, s)| last_key(s, key.as_bytes()).map(|ki| (si, ki)));
            match hit {
                None => Applied { path: None, ok: false, removed, class: "missing".into() },
                Some((si, ki)) => {
                    removed.kvs.insert((si, ki));
                    let class = kv_class(flat, si, ki).to_string();
                    m[si].kvs.remove(ki);
                    Applied { path: None, ok: true, removed, class }
                }
            }
        }
        Edit::Multi { sec, sub, key, ops } => {
            let mut occ: Vec<(usize, usize)> = Vec::new();
            for (si, s) in m.iter().enumerate() {
                if sec_matches(s, sec.as_bytes(), sub.as_deref()) {
                    for (ki, kv) in s.kvs.iter().enumerate() {
                        if kv.key.eq_ignore_ascii_case(key.as_bytes()) {
                            occ.push((si, ki));
                        }
                    }
                }
            }
            if occ.is_empty() {
                return Applied { path: None, ok: false, removed, class: "missing".into() };
            }
            let mut classes: BTreeSet<&'static str> = BTreeSet::new();
            for (si, ki) in &occ {
                removed.kvs.insert((*si, *ki));
                classes.insert(kv_class(flat, *si, *ki));
            }
            let class = format!("{}x{}", occ.len().min(3), classes.into_iter().collect::<Vec<_>>().join("+"));
            let mut dead: HashSet<(usize, usize)> = HashSet::new();
            for op in ops {
                match op {
                    MultiOp::SetAll(v) => {
                        for (si, ki) in &occ {
                            m[*si].kvs[*ki].val = Some(v.to_vec());
                        }
                    }
                    MultiOp::SetValues(vs) => {
                        for ((si, ki), v) in occ.iter().zip(vs) {
                            m[*si].kvs[*ki].val = Some(v.to_vec());
                        }
                    }
                    MultiOp::SetAt(i, v) => {
                        if let Some((si, ki)) = occ.get(*i) {
                            m[*si].kvs[*ki].val = Some(v.to_vec());
                        }
                    }
                    MultiOp::Delete(i) => {
                        if *i < occ.len() {
                            dead.insert(occ.remove(*i));
                        }
                    }
                    MultiOp::DeleteAll => {
                        dead.extend(occ.drain(..));
                    }
                }
            }
            for (si, s) in m.iter_mut().enumerate() {
                let mut ki = 0;
                s.kvs.retain(|_| {
                    let keep = !dead.contains(&(si, ki));
                    ki += 1;
                    keep
                });
            }
            Applied { path: None, ok: true, removed, class }
        }
        Edit::SecPush { sec, sub, key, val } => match last_section(m, sec.as_bytes(), sub.as_deref()) {
            None => Applied { path: None, ok: false, removed, class: "missing".into() },
            Some(si) => {
                let class = tail_of(Some(si), m);
                m[si].kvs.push(MKv { key: key.as_bytes().to_vec(), val: val.map(|v| v.to_vec()) });
                Applied { path: None, ok: true, removed, class }
            }
        },
        Edit::SecSet { sec, sub, key, val } => match last_section(m, sec.as_bytes(), sub.as_deref()) {
            None => Applied { path: None, ok: false, removed, class: "missing".into() },
            Some(si) => match last_key(&m[si], key.as_bytes()) {
                Some(ki) => {
                    removed.kvs.insert((si, ki));
                    m[si].kvs[ki].val = Some(val.to_vec());
                    Applied { path: None, ok: true, removed, class: kv_class(flat, si, ki).into() }
                }
                None => {
                    let class = tail_of(Some(si), m);
                    m[si].kvs.push(MKv { key: key.as_bytes().to_vec(), val: Some(val.to_vec()) });
                    Applied { path: Some("section_mut.push"), ok: true, removed, class }
                }
            },
        },
        Edit::SecRemove { sec, sub, key } => match last_section(m, sec.as_bytes(), sub.as_deref()) {
            None => Applied { path: None, ok: false, removed, class: "missing".into() },
            Some(si) => match last_key(&m[si], key.as_bytes()) {
                Some(ki) => {
                    removed.kvs.insert((si, ki));
                    let class = kv_class(flat, si, ki).to_string();
                    m[si].kvs.remove(ki);
                    Applied { path: None, ok: true, removed, class }
                }
                // the section exists, the key does not: nothing happens (the call itself yields None)
                None => Applied { path: None, ok: true, removed, class: "absent".into() },
            },
        },
        Edit::NewSection { sec, sub, pushes } => {
            if !valid_section_name(sec.as_bytes()) || !sub.as_deref().map_or(true, valid_subsection) {
                return Applied { path: None, ok: false, removed, class: "invalid-header".into() };
            }
            let class = tail_of(None, m);
            m.push(MSec { name: sec.as_bytes().to_vec(), sub: sub.clone(), kvs: pushes.iter().map(|(k, v)| MKv { key: k.as_bytes().to_vec(), val: v.map(|v| v.to_vec()) }).collect() });
            Applied { path: None, ok: true, removed, class }
        }
        Edit::RemoveSection { sec, sub } | Edit::RemoveSectionFilter { sec, sub } => match last_section(m, sec.as_bytes(), sub.as_deref()) {
            None => Applied { path: None, ok: false, removed, class: "missing".into() },
            Some(si) => {
                removed.sections.insert(si);
                let dup = m.iter().filter(|s| sec_matches(s, sec.as_bytes(), sub.as_deref())).count() > 1;
                m.remove(si);
                Applied { path: None, ok: true, removed, class: if dup { "duplicate-section".into() } else { "single-section".into() } }
            }
        },
        Edit::RenameSection { sec, sub, new_sec, new_sub } => match last_section(m, sec.as_bytes(), sub.as_deref()) {
            None => Applied { path: None, ok: false, removed, class: "missing".into() },
            Some(si) => {
                if !valid_section_name(new_sec.as_bytes()) || !new_sub.as_deref().map_or(true, valid_subsection) {
                    return Applied { path: None, ok: false, removed, class: "invalid-header".into() };
                }
                removed.headers.insert(si);
                m[si].name = new_sec.as_bytes().to_vec();
                m[si].sub = new_sub.clone();
                Applied { path: None, ok: true, removed, class: "renamed".into() }
            }
        },
    }
}

fn opt_bstr(v: &Option<Vec<u8>>) -> Option<&BStr> {
    v.as_ref().map(|s| s.as_bstr())
}

/// Run the edit on the real `File`. Ok(true) = the API reported success.
fn apply_file<'a>(file: &mut gix_config::File<'a>, e: &Edit) -> Result<bool, PanicInfo> {
    guard(|| match e {
        Edit::SetRaw { sec, sub, key, val } => file.set_raw_value_by(sec.as_str(), opt_bstr(sub), key.clone(), val.as_bstr()).is_ok(),
        Edit::SetExisting { sec, sub, key, val } => file.set_existing_raw_value_by(sec.as_str(), opt_bstr(sub), key.as_str(), val.as_bstr()).is_ok(),
        Edit::ValueMutSet { sec, sub, key, val } => match file.raw_value_mut_by(sec.as_str(), opt_bstr(sub), key.as_str()) {
            Ok(mut v) => {
                v.set(val.as_bstr());
                true
            }
            Err(_) => false,
        },
        Edit::ValueMutDelete { sec, sub, key } => match file.raw_value_mut_by(sec.as_str(), opt_bstr(sub), key.as_str()) {
            Ok(mut v) => {
                v.delete();
                true
            }
            Err(_) => false,
        },
        Edit::Multi { sec, sub, key, ops } => match file.raw_values_mut_by(sec.as_str(), opt_bstr(sub), key.as_str()) {
            Ok(mut mv) => {
                for op in ops {
                    match op {
                        MultiOp::SetAll(v) => mv.set_all(v.as_bstr()),
                        MultiOp::SetValues(vs) => mv.set_values(vs.iter().map(|v| v.as_bstr())),
                        MultiOp::SetAt(i, v) => {
                            if *i < mv.len() {
                                mv.set_at(*i, v.as_bstr())
                            }
                        }
                        MultiOp::Delete(i) => {
                            if *i < mv.len() {
                                mv.delete(*i)
                            }
                        }
                        MultiOp::DeleteAll => mv.delete_all(),
                    }
                }
                true
            }
            Err(_) => false,
        },
        Edit::SecPush { sec, sub, key, val } => match file.section_mut(sec.as_str(), opt_bstr(sub)) {
            Ok(mut s) => match ValueName::try_from(key.clone()) {
                Ok(k) => {
                    s.push(k, val.map(|v| v.as_bstr()));
                    true
                }
                Err(_) => false,
            },
            Err(_) => false,
        },
        Edit::SecSet { sec, sub, key, val } => match file.section_mut(sec.as_str(), opt_bstr(sub)) {
            Ok(mut s) => match ValueName::try_from(key.clone()) {
                Ok(k) => {
                    s.set(k, val.as_bstr());
                    true
                }
                Err(_) => false,
            },
            Err(_) => false,
        },
        Edit::SecRemove { sec, sub, key } => match file.section_mut(sec.as_str(), opt_bstr(sub)) {
            Ok(mut s) => {
                s.remove(key.as_str());
                true
            }
            Err(_) => false,
        },
        Edit::NewSection { sec, sub, pushes } => match file.new_section(sec.clone(), sub.clone().map(|s| Cow::Owned(BString::from(s)))) {
            Ok(mut s) => {
                for (k, v) in pushes {
                    if let Ok(k) = ValueName::try_from(k.clone()) {
                        s.push(k, v.map(|v| v.as_bstr()));
                    }
                }
                true
            }
            Err(_) => false,
        },
        Edit::RemoveSection { sec, sub } => file.remove_section(sec.as_str(), opt_bstr(sub)).is_some(),
        Edit::RemoveSectionFilter { sec, sub } => file.remove_section_filter(sec.as_str(), opt_bstr(sub), &mut |_| true).is_some(),
        Edit::RenameSection { sec, sub, new_sec, new_sub } => file.rename_section(sec.as_str(), opt_bstr(sub), new_sec.clone(), new_sub.clone().map(|s| Cow::Owned(BString::from(s)))).is_ok(),
    })
}

fn clip(b: &[u8]) -> String {
    let s = show(b);
    if s.len() > 1200 {
        let mut end = 1200;
        while !s.is_char_boundary(end) {
            end -= 1;
        }
        format!("{}…", &s[..end])
    } else {
        s
    }
}

/// greedy subsequence test: every expected event appears in `actual`, in order
fn missing_from<'a>(expected: &[&'a Event<'static>], actual: &[&Event<'static>]) -> Option<&'a Event<'static>> {
    let mut j = 0;
    for e in expected {
        loop {
            if j >= actual.len() {
                return Some(e);
            }
            j += 1;
            if actual[j - 1] == *e {
                break;
            }
        }
    }
    None
}

fn event_kind(e: &Event<'_>) -> &'static str {
    match e {
        Event::Comment(_) => "comment",
        Event::SectionHeader(_) => "header",
        Event::SectionValueName(_) => "key",
        Event::Value(_) | Event::ValueDone(_) | Event::ValueNotDone(_) => "value",
        Event::KeyValueSeparator => "separator",
        _ => "blank",
    }
}

struct History {
    original: Vec<u8>,
    feats: u64,
    /// None: not judged (reason counted)
    final_text: Option<Vec<u8>>,
    model: Vec<MSec>,
    edits: Vec<String>,
}

fn git_listing(entries: &[GitEntry]) -> Vec<(Vec<u8>, Option<Vec<u8>>)> {
    entries.iter().map(|e| (e.key.clone(), e.value.clone())).collect()
}

/// one edit history on one file; returns the final text and model if everything held so far
fn run_history(ctx: &mut Ctx, r: &mut Rng, original: &[u8], baseline: &[GitEntry], edits_log: &mut Vec<String>) -> Option<(Vec<u8>, Vec<MSec>)> {
    // ---- baseline: gitoxide and git must agree on the untouched file, and it must be inside the modelled domain
    let flat0 = match guard(|| flatten(original)) {
        Err(p) => {
            ctx.panic_violation("Events::from_bytes", &p, "baseline", json!({"file": clip(original)}));
            return None;
        }
        Ok(Err(_)) => {
            ctx.count("skipped_gitoxide_rejects_baseline");
            return None;
        }
        Ok(Ok(f)) => f,
    };
    for f in flat0.iter().filter(|f| f.header) {
        if let Event::SectionHeader(h) = &f.ev {
            if h.is_legacy() && (h.name().contains(&b'.') || h.subsection_name().map_or(false, |s| s.iter().any(u8::is_ascii_uppercase))) {
                ctx.count("skipped_legacy_header_deviation");
                return None;
            }
        }
    }
    let mut model = read_back(&flat0);
    if model_listing(&model) != git_listing(baseline) {
        ctx.count("skipped_baseline_git_and_gitoxide_disagree");
        return None;
    }
    let mut file = match guard(|| gix_config::File::from_bytes_no_includes(original, gix_config::file::Metadata::api(), Default::default())) {
        Ok(Ok(f)) => f,
        _ => {
            ctx.count("skipped_gitoxide_rejects_baseline");
            return None;
        }
    };
    ctx.count("histories");
    let n_edits = 1 + r.usize(15);
    let mut text: Vec<u8> = match guard(|| file.to_bstring()) {
        Ok(t) => t.into(),
        Err(p) => {
            ctx.panic_violation("File::to_bstring", &p, "baseline", json!({"file": clip(original)}));
            return None;
        }
    };
    let mut kinds: Vec<&'static str> = Vec::new();
    for step in 0..n_edits {
        let flat = match flatten(&text) {
            Ok(f) => f,
            Err(_) => return None, // reported by the step that produced this text
        };
        let edit = gen_edit(r, &model);
        let kind = edit.kind();
        kinds.push(kind);
        edits_log.push(format!("{edit:?}"));
        let before_model = model.clone();
        let tails = match guard(|| tails_of(&file)) {
            Ok(t) => t,
            Err(p) => {
                ctx.panic_violation("Section::to_bstring", &p, "tails", json!({"original": clip(original), "edits": edits_log.clone()}));
                return None;
            }
        };
        let applied = apply_model(&mut model, &edit, &flat, &tails);
        let class = applied.class.clone();
        let api_kind = kind;
        let kind = applied.path.unwrap_or(kind);
        ctx.eval();
        ctx.count(&format!("edit_{api_kind}"));
        ctx.distinct((api_kind, kind, class.clone(), applied.ok));
        let witness = |extra: serde_json::Value| {
            json!({"original": clip(original), "edits": edits_log.clone(), "failing_step": step, "text_before_edit": clip(&text), "model_before_edit": show_model(&before_model), "detail": extra})
        };
        let ok = match apply_file(&mut file, &edit) {
            Err(p) => {
                let entry = if api_kind.starts_with("section_mut.") { "section_mut" } else { api_kind };
                ctx.panic_violation(entry, &p, &class, witness(json!(null)));
                return None;
            }
            Ok(ok) => ok,
        };
        if ok != applied.ok {
            ctx.violation(
                &format!("result|{kind}|{class}"),
                "the edit call reports success/failure differently than its documented semantics",
                witness(json!({"api_ok": ok, "expected_ok": applied.ok})),
            );
            return None;
        }
        if !applied.ok {
            ctx.count("edits_expected_to_fail");
        }
        // (b) in-memory view
        let mem = guard(|| {
            let heads: Vec<(Vec<u8>, Option<Vec<u8>>)> = file.sections().map(|s| (s.header().name().to_vec(), s.header().subsection_name().map(|n| n.to_vec()))).collect();
            let mut sec_lookups = Vec::new();
            let mut seen_secs = HashSet::new();
            for s in model.iter().chain(before_model.iter()) {
                let id = (s.name.to_ascii_lowercase(), s.sub.clone());
                if !seen_secs.insert(id.clone()) {
                    continue;
                }
                let got = file
                    .section(String::from_utf8_lossy(&id.0).as_ref(), id.1.as_ref().map(|s| s.as_bstr()))
                    .ok()
                    .map(|s| (s.header().name().to_vec(), s.body().clone().into_iter().count()));
                sec_lookups.push((id, got));
            }
            let mut lookups = Vec::new();
            let mut seen = HashSet::new();
            for s in model.iter().chain(before_model.iter()) {
                for kv in &s.kvs {
                    let id = (s.name.to_ascii_lowercase(), s.sub.clone(), kv.key.to_ascii_lowercase());
                    if !seen.insert(id.clone()) {
                        continue;
                    }
                    let got = file
                        .raw_values_by(String::from_utf8_lossy(&id.0).as_ref(), id.1.as_ref().map(|s| s.as_bstr()), String::from_utf8_lossy(&id.2).as_ref())
                        .map(|v| v.into_iter().map(|c| c.to_vec()).collect::<Vec<_>>())
                        .unwrap_or_default();
                    lookups.push((id, got));
                }
            }
            (heads, lookups, sec_lookups)
        });
        let (heads, lookups, sec_lookups) = match mem {
            Err(p) => {
                ctx.panic_violation(&format!("lookup after {kind}"), &p, "-", witness(json!(null)));
                return None;
            }
            Ok(x) => x,
        };
        let want_heads: Vec<(Vec<u8>, Option<Vec<u8>>)> = model.iter().map(|s| (s.name.clone(), s.sub.clone())).collect();
        if heads != want_heads {
            ctx.violation(
                &format!("memory|sections|{kind}|{class}"),
                "sections() of the edited file are not the sections the edit should leave",
                witness(json!({"sections": heads.iter().map(|(n, s)| format!("{} {:?}", show(n), s.as_ref().map(|x| show(x)))).collect::<Vec<_>>(), "model_after": show_model(&model)})),
            );
            return None;
        }
        for ((name, sub), got) in &sec_lookups {
            let want = model.iter().rev().find(|s| sec_matches(s, name, sub.as_deref())).map(|s| (s.name.clone(), s.kvs.len()));
            ctx.count("memory_section_lookups");
            if *got != want {
                ctx.violation(
                    &format!("memory|section-lookup|{kind}|{class}"),
                    "section(name, subsection) on the edited file does not find the (last) section the edit should leave under that name",
                    witness(json!({"section": show(name), "subsection": sub.as_ref().map(|s| show(s)), "want_name_and_entries": format!("{:?}", want.map(|(n, k)| (show(&n), k))), "got": format!("{:?}", got.as_ref().map(|(n, k)| (show(n), *k)))})),
                );
                return None;
            }
        }
        for ((name, sub, key), got) in &lookups {
            let want: Vec<Vec<u8>> = model
                .iter()
                .filter(|s| sec_matches(s, name, sub.as_deref()))
                .flat_map(|s| s.kvs.iter().filter(|kv| kv.key.eq_ignore_ascii_case(key)).map(|kv| kv.val.clone().unwrap_or_default()))
                .collect();
            ctx.count("memory_lookups");
            if *got != want {
                ctx.violation(
                    &format!("memory|lookup|{kind}|{class}"),
                    "raw_values_by() on the edited file does not return the values the edit should leave",
                    witness(json!({"section": show(name), "subsection": sub.as_ref().map(|s| show(s)), "key": show(key), "want": want.iter().map(|v| show(v)).collect::<Vec<_>>(), "got": got.iter().map(|v| show(v)).collect::<Vec<_>>()})),
                );
                return None;
            }
        }
        // (a) serialize and read back
        let new_text: Vec<u8> = match guard(|| file.to_bstring()) {
            Ok(t) => t.into(),
            Err(p) => {
                ctx.panic_violation("File::to_bstring", &p, kind, witness(json!(null)));
                return None;
            }
        };
        let new_flat = match guard(|| flatten(&new_text)) {
            Err(p) => {
                ctx.panic_violation("Events::from_bytes", &p, kind, witness(json!({"text_after_edit": clip(&new_text)})));
                return None;
            }
            Ok(Err(e)) => {
                let comment_lines_with_bracket = |t: &[u8]| {
                    t.split(|c| *c == b'\n')
                        .filter(|l| {
                            let l = l.trim_start();
                            matches!(l.first(), Some(b'#' | b';')) && l[1..].trim_start().starts_with(b"[")
                        })
                        .count()
                };
                let swallowed = comment_lines_with_bracket(&new_text) > comment_lines_with_bracket(&text);
                let sig = if swallowed { "serialize|header-swallowed-by-comment".to_string() } else { format!("reparse|{kind}|{class}") };
                ctx.violation(
                    &sig,
                    "the serialized edited file does not parse",
                    witness(json!({"text_after_edit": clip(&new_text), "error": e})),
                );
                return None;
            }
            Ok(Ok(f)) => f,
        };
        // Symptom check first: edits never add comments, so a comment that grew means that the serializer put something on
        // a comment line that had no line ending in memory. Any later edit can expose that state, hence no edit kind here.
        let old_comments: Vec<Vec<u8>> = flat.iter().filter_map(|f| if let Event::Comment(c) = &f.ev { Some(c.to_bstring().to_vec()) } else { None }).collect();
        let mut grown: Option<(Vec<u8>, Vec<u8>)> = None;
        for f in &new_flat {
            if let Event::Comment(c) = &f.ev {
                let nb = c.to_bstring().to_vec();
                if old_comments.contains(&nb) {
                    continue;
                }
                if let Some(oc) = old_comments.iter().filter(|oc| nb.len() > oc.len() && nb.starts_with(oc)).max_by_key(|oc| oc.len()) {
                    grown = Some((oc.clone(), nb[oc.len()..].to_vec()));
                    break;
                }
            }
        }
        if let Some((old, tail)) = grown {
            let header = tail.trim_start().starts_with(b"[");
            ctx.violation(
                if header { "serialize|header-swallowed-by-comment" } else { "serialize|line-glued-onto-comment" },
                "after the edit the serialized file has a comment line that took in the following header/key line (or its indentation)",
                witness(json!({"text_after_edit": clip(&new_text), "comment_before": show(&old), "appended_to_it": show(&tail), "edit_kind": kind, "class": class})),
            );
            return None;
        }
        let got_model = read_back(&new_flat);
        if !same_model(&got_model, &model) {
            ctx.violation(
                &format!("reparse|{kind}|{class}"),
                "the serialized edited file does not read back as the sections and values the edit should leave",
                witness(json!({"text_after_edit": clip(&new_text), "model_after": show_model(&model), "read_back": show_model(&got_model)})),
            );
            return None;
        }
        // (c) nothing else may be lost: old content events outside the edited range are a subsequence of the new ones
        let expected: Vec<&Event<'static>> = flat
            .iter()
            .filter(|f| is_content(&f.ev))
            .filter(|f| {
                if applied.removed.sections.contains(&f.sec) {
                    return false;
                }
                if f.header && applied.removed.headers.contains(&f.sec) {
                    return false;
                }
                if let Some(k) = f.kv {
                    if applied.removed.kvs.contains(&(f.sec, k)) {
                        return false;
                    }
                }
                true
            })
            .map(|f| &f.ev)
            .collect();
        let actual: Vec<&Event<'static>> = new_flat.iter().filter(|f| is_content(&f.ev)).map(|f| &f.ev).collect();
        ctx.count_n("events_tracked", expected.len() as u64);
        if let Some(lost) = missing_from(&expected, &actual) {
            ctx.violation(
                &format!("events|lost-{}|{kind}|{class}", event_kind(lost)),
                "an event of the text before the edit that is outside the edited key/section is missing or altered afterwards",
                witness(json!({"text_after_edit": clip(&new_text), "lost_event": show(lost.to_bstring().as_slice())})),
            );
            return None;
        }
        text = new_text;
    }
    ctx.distinct(("history", kinds.len().min(8), kinds.iter().collect::<BTreeSet<_>>().len()));
    Some((text, model))
}

pub fn run(ctx: &mut Ctx) {
    ctx.rule(
        "case = a batch of edit histories; one history = a generated config file (grammar of C26, git-safe) + 1..15 random edits \
         (set_raw_value, set_existing_raw_value, raw_value_mut set/delete, raw_values_mut set_all/set_values/set_at/delete/delete_all, \
         section_mut push/set/remove, new_section(+push), remove_section(_filter), rename_section; names with case variations, \
         existing and missing targets, invalid names) checked after every edit against the multimap model (in memory, after \
         to_bstring+parse, event subsequence) and by git on the final text. distinct = (edit kind, class of the targeted \
         value/section end [implicit, continuation, ends without newline, ...], expected ok) + (history length, kinds used)",
    );
    ctx.assume("the model follows the documented API semantics: last matching section, last matching key, multi-values in file order, set() replaces the last occurrence or appends");
    let dir = ctx.dir("c28");
    let batches = ctx.n(16, 400);
    let per_batch = 50usize;
    ctx.cases("histories", batches, |ctx, r| {
        if ctx.elapsed() > 400.0 {
            ctx.count("budget_stops");
            return;
        }
        let mut hs: Vec<History> = Vec::new();
        for i in 0..per_batch {
            let opts = GenOpts { git_safe: true, typed: false, max_sections: 4, max_lines: 4 };
            let g = gen_config(r, &opts);
            let mut bytes = g.bytes;
            bytes.retain(|c| *c != 0);
            if r.chance(1, 12) {
                // a last line that is only a comment marker, without newline
                while matches!(bytes.last(), Some(b'\n' | b'\r')) {
                    bytes.pop();
                }
                bytes.extend_from_slice(*r.pick(&[&b"\n#"[..], b"\n;  ", b"\n\t# c"]));
            }
            if std::fs::write(dir.join(format!("f{i}")), &bytes).is_err() {
                ctx.inconclusive("cannot write scratch file");
                return;
            }
            hs.push(History { original: bytes, feats: g.feats, final_text: None, model: Vec::new(), edits: Vec::new() });
        }
        let Some(listed) = git_list_batch(ctx, &dir, hs.len()) else { return };
        for (h, entries) in hs.iter_mut().zip(&listed) {
            let Some(entries) = entries else {
                ctx.count("skipped_git_rejects_baseline");
                continue;
            };
            let mut log = Vec::new();
            let mut sub = r.fork();
            if let Some((text, model)) = run_history(ctx, &mut sub, &h.original, entries, &mut log) {
                h.final_text = Some(text);
                h.model = model;
            }
            h.edits = log;
        }
        // ---- git reads the final texts
        for (i, h) in hs.iter().enumerate() {
            let text = h.final_text.clone().unwrap_or_default();
            if std::fs::write(dir.join(format!("f{i}")), &text).is_err() {
                ctx.inconclusive("cannot write scratch file");
                return;
            }
        }
        let Some(listed) = git_list_batch(ctx, &dir, hs.len()) else { return };
        for (h, entries) in hs.iter().zip(&listed) {
            let Some(text) = &h.final_text else { continue };
            ctx.eval();
            ctx.count("git_final_checks");
            let witness = |extra: serde_json::Value| json!({"original": clip(&h.original), "edits": h.edits, "final_text": clip(text), "model": show_model(&h.model), "detail": extra});
            match entries {
                None => ctx.violation("git|rejects-final-text", "git rejects the serialized edited file", witness(json!(null))),
                Some(entries) => {
                    let got = git_listing(entries);
                    let want = model_listing(&h.model);
                    if got != want {
                        let what = if got.len() != want.len() {
                            "entry-count"
                        } else if got.iter().zip(&want).any(|(a, b)| a.0 != b.0) {
                            "key"
                        } else {
                            "value"
                        };
                        ctx.violation(
                            &format!("git|final-listing-differs|{what}"),
                            "git lists different keys/values for the serialized edited file than the edits should leave",
                            witness(json!({"git": got.iter().map(|(k, v)| format!("{}={}", show(k), v.as_ref().map_or("<implicit>".into(), |v| show(v)))).collect::<Vec<_>>()})),
                        );
                    }
                }
            }
            if ctx.want_sample() {
                ctx.sample(json!({"original": clip(&h.original), "productions": feat_names(h.feats), "edits": h.edits, "final_text": clip(text)}));
            }
        }
    });
}
