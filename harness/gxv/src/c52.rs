//! C52 Dates format and parse consistently with git.
//! (a) self-consistency: for every output format f and time t (wall clock and instant in 0001-01-01..9999-12-30T22:00Z,
//!     the range of the jiff calendar backend; minute-granular offset within +-23:59),
//!     `gix_date::parse(t.format(f))` yields the same seconds and offset, on the components f carries
//!     (UNIX: seconds only; SHORT: only the date, checked as a fixed point of format∘parse).
//! (b) differential: date strings in the absolute grammars gitoxide accepts are given to
//!     `git rev-parse --since=<s>` (TZ=UTC) twice with different GIT_TEST_DATE_NOW; when git's answer does not
//!     depend on "now" (i.e. git parsed an absolute date), `--max-age=<j>` must equal the seconds gitoxide parsed; a
//!     mismatch is confirmed with git's strict parser (`GIT_AUTHOR_DATE=<s> git var GIT_AUTHOR_IDENT`) before it is
//!     reported (texts the strict parser refuses are counted and skipped).
use crate::fw::{git, guard, Ctx, Rng};
use gix_date::time::{format, Format, Sign};
use gix_date::Time;
use serde_json::json;

pub fn child(_mode: &str) {}

// ---------------------------------------------------------------- civil calendar (independent of jiff)

fn days_from_civil(y: i64, m: i64, d: i64) -> i64 {
    let y = if m <= 2 { y - 1 } else { y };
    let era = if y >= 0 { y } else { y - 399 } / 400;
    let yoe = y - era * 400;
    let mp = (m + 9) % 12;
    let doy = (153 * mp + 2) / 5 + d - 1;
    let doe = yoe * 365 + yoe / 4 - yoe / 100 + doy;
    era * 146097 + doe - 719468
}
fn civil_from_days(z: i64) -> (i64, i64, i64) {
    let z = z + 719468;
    let era = if z >= 0 { z } else { z - 146096 } / 146097;
    let doe = z - era * 146097;
    let yoe = (doe - doe / 1460 + doe / 36524 - doe / 146096) / 365;
    let y = yoe + era * 400;
    let doy = doe - (365 * yoe + yoe / 4 - yoe / 100);
    let mp = (5 * doy + 2) / 153;
    let d = doy - (153 * mp + 2) / 5 + 1;
    let m = if mp < 10 { mp + 3 } else { mp - 9 };
    (if m <= 2 { y + 1 } else { y }, m, d)
}
fn is_leap(y: i64) -> bool {
    (y % 4 == 0 && y % 100 != 0) || y % 400 == 0
}
fn days_in_month(y: i64, m: i64) -> i64 {
    match m {
        1 | 3 | 5 | 7 | 8 | 10 | 12 => 31,
        4 | 6 | 9 | 11 => 30,
        _ => {
            if is_leap(y) {
                29
            } else {
                28
            }
        }
    }
}
const WD: [&str; 7] = ["Sun", "Mon", "Tue", "Wed", "Thu", "Fri", "Sat"];
const WD_FULL: [&str; 7] = ["Sunday", "Monday", "Tuesday", "Wednesday", "Thursday", "Friday", "Saturday"];
const MON: [&str; 12] = ["Jan", "Feb", "Mar", "Apr", "May", "Jun", "Jul", "Aug", "Sep", "Oct", "Nov", "Dec"];
const MON_FULL: [&str; 12] =
    ["January", "February", "March", "April", "May", "June", "July", "August", "September", "October", "November", "December"];
fn weekday(days: i64) -> usize {
    (days + 4).rem_euclid(7) as usize // 1970-01-01 was a Thursday
}

const MIN_0001: i64 = -62_135_596_800; // 0001-01-01T00:00:00Z
const MAX_9999: i64 = 253_402_300_799; // 9999-12-31T23:59:59Z (generator bound only)
/// the largest instant jiff 0.1 (the calendar backend of gix-date) can hold: 9999-12-30T22:00:00Z
const MAX_INSTANT: i64 = 253_402_207_200;

// ---------------------------------------------------------------- (a) round trip

const FORMATS: &[(&str, u8)] =
    &[("SHORT", 0), ("RFC2822", 1), ("GIT_RFC2822", 2), ("ISO8601", 3), ("ISO8601_STRICT", 4), ("UNIX", 5), ("RAW", 6), ("GITOXIDE", 7), ("DEFAULT", 8)];

fn fmt_of(id: u8) -> Format {
    match id {
        0 => format::SHORT.into(),
        1 => format::RFC2822.into(),
        2 => format::GIT_RFC2822.into(),
        3 => format::ISO8601.into(),
        4 => format::ISO8601_STRICT.into(),
        5 => format::UNIX,
        6 => format::RAW,
        7 => format::GITOXIDE.into(),
        _ => format::DEFAULT.into(),
    }
}

fn gen_offset_minutes(r: &mut Rng) -> (i32, &'static str) {
    match r.below(10) {
        0 => (0, "zero"),
        1 => (r.range(1, 59) as i32, "pos-sub-hour"),
        2 => (-(r.range(1, 59) as i32), "neg-sub-hour"),
        3 => (*r.pick(&[23 * 60 + 59, -(23 * 60 + 59), 14 * 60, -12 * 60, 13 * 60 + 45, 5 * 60 + 45, -(9 * 60 + 30), -60, 60]), "edge"),
        4 => {
            let m = r.range(-14 * 60, 14 * 60) as i32;
            (m, if m < 0 { "neg-any-minute" } else { "pos-any-minute" })
        }
        _ => {
            let q = r.range(-14 * 4, 14 * 4) as i32;
            (q * 15, if q < 0 { "neg-quarter" } else { "pos-quarter" })
        }
    }
}

/// local (wall clock) seconds chosen around calendar boundaries; returns (local seconds, class)
fn gen_local_seconds(r: &mut Rng) -> (i64, &'static str) {
    const YEARS: &[i64] = &[1, 2, 9, 10, 99, 100, 999, 1000, 1582, 1752, 1899, 1900, 1901, 1969, 1970, 1971, 1999, 2000, 2001, 2037, 2038, 2039, 2099, 2100, 2400, 9998, 9999];
    match r.below(6) {
        0 => {
            // year boundary
            let y = *r.pick(YEARS);
            let base = days_from_civil(y, 1, 1) * 86400;
            (base + r.range(-2, 2), "year-boundary")
        }
        1 => {
            // month ends / leap days
            let y = if r.bool() { *r.pick(YEARS) } else { r.range(1, 9999) };
            let m = r.range(1, 12);
            let d = if r.bool() { days_in_month(y, m) } else { 1 };
            let base = days_from_civil(y, m, d) * 86400;
            (base + *r.pick(&[0, 1, 86399, 86400, -1, 43200]), "month-edge")
        }
        2 => {
            let y = *r.pick(&[4, 100, 400, 1600, 1900, 2000, 2024, 2100, 2400, 9996]);
            let base = days_from_civil(y, 2, 28) * 86400;
            (base + r.range(0, 3 * 86400), "feb-end")
        }
        3 => (r.range(0, 4_102_444_800), "1970-2099"),
        4 => {
            // single-digit days and hours (padding variants)
            let y = r.range(1, 9999);
            let base = days_from_civil(y, r.range(1, 12), r.range(1, 9)) * 86400;
            (base + r.range(0, 9) * 3600 + r.range(0, 9) * 60 + r.range(0, 9), "single-digits")
        }
        _ => (r.range(MIN_0001, MAX_9999), "uniform"),
    }
}

fn year_class(y: i64) -> &'static str {
    match y {
        i64::MIN..=0 => "y<=0",
        1..=999 => "y0001-0999",
        1000..=1899 => "y1000-1899",
        1900..=1969 => "y1900-1969",
        1970..=2099 => "y1970-2099",
        2100..=9999 => "y2100-9999",
        _ => "y>9999",
    }
}

fn roundtrip_one(ctx: &mut Ctx, r: &mut Rng) {
    let (off_min, off_class) = gen_offset_minutes(r);
    let (local, sec_class) = gen_local_seconds(r);
    let offset = off_min * 60;
    // keep the wall clock within 0001..9999 (the domain of the property)
    // ... and both the wall clock and the instant inside the calendar backend's range, which ends at
    // 9999-12-30T22:00:00 (beyond it: see out_of_range_one)
    let local = local.clamp(MIN_0001, MAX_INSTANT).min(MAX_INSTANT + offset as i64);
    let seconds = local - offset as i64;
    let sign = if r.chance(1, 20) && offset == 0 { Sign::Minus } else { Sign::from(offset) };
    let t = Time { seconds, offset, sign };
    let (ly, lm, ld) = civil_from_days(local.div_euclid(86400));
    let yc = year_class(ly);
    let &(fname, fid) = r.pick(FORMATS);
    ctx.eval();
    ctx.distinct(("rt", fid, yc, off_class, sec_class));
    ctx.count(&format!("rt_{fname}"));
    let w = |text: &str, got: String| {
        json!({"format": fname, "time": {"seconds": seconds, "offset": offset, "sign": format!("{sign:?}")},
               "local_date": format!("{ly:04}-{lm:02}-{ld:02}"), "year_class": yc, "offset_class": off_class, "text": text, "got": got})
    };
    let text = match guard(|| t.format(fmt_of(fid))) {
        Ok(s) => s,
        Err(p) => {
            ctx.panic_violation("Time::format", &p, "in-domain", w("", "panic".into()));
            return;
        }
    };
    let parsed = match guard(|| gix_date::parse(&text, None)) {
        Ok(p) => p,
        Err(p) => {
            ctx.panic_violation("gix_date::parse", &p, "in-domain", w(&text, "panic".into()));
            return;
        }
    };
    let got = match parsed {
        Ok(g) => g,
        Err(e) => {
            ctx.violation(
                &format!("roundtrip|{fname}|parse-error"),
                "text produced by Time::format is rejected by gix_date::parse",
                w(&text, e.to_string()),
            );
            return;
        }
    };
    let gs = format!("{got:?}");
    match fid {
        0 => {
            // SHORT carries only the date: fixed point of format∘parse
            match guard(|| got.format(fmt_of(0))) {
                Ok(again) if again == text => {}
                Ok(again) => ctx.violation(
                    "roundtrip|SHORT|date-differs",
                    "format(SHORT) -> parse -> format(SHORT) changes the date",
                    w(&text, format!("{gs} -> {again}")),
                ),
                Err(p) => ctx.panic_violation("Time::format", &p, "SHORT-reformat", w(&text, gs.clone())),
            }
        }
        5 => {
            if got.seconds != seconds {
                ctx.violation("roundtrip|UNIX|seconds-differ", "UNIX text parses to a different instant", w(&text, gs));
            }
        }
        _ => {
            if got.seconds != seconds {
                ctx.violation(
                    &format!("roundtrip|{fname}|seconds-differ"),
                    "formatted text parses to a different instant",
                    w(&text, gs),
                );
            } else if got.offset != offset {
                ctx.violation(
                    &format!("roundtrip|{fname}|offset-differs"),
                    "formatted text parses to a different offset",
                    w(&text, gs),
                );
            }
        }
    }
    if ctx.want_sample() {
        ctx.sample(json!({"part": "roundtrip", "format": fname, "seconds": seconds, "offset": offset, "text": text}));
    }
}

/// times outside years 0001..9999 or with offsets the calendar backend cannot hold: only panic-freedom is demanded
fn out_of_range_one(ctx: &mut Ctx, r: &mut Rng) {
    let (seconds, offset, class): (i64, i32, &str) = match r.below(7) {
        0 => (i64::MAX - r.below(3) as i64, 0, "instant-beyond-calendar"),
        1 => (i64::MIN + r.below(3) as i64, 0, "instant-beyond-calendar"),
        2 => (MAX_INSTANT + 1 + r.below(400 * 86400) as i64, 0, "instant-beyond-calendar"),
        3 => (-377_705_023_202 - r.below(400 * 86400) as i64, 0, "instant-beyond-calendar"),
        4 => (r.range(0, 4_000_000_000), *r.pick(&[26 * 3600, -26 * 3600, 99 * 3600 + 59 * 60, -(99 * 3600 + 59 * 60)]), "offset-beyond-calendar"),
        5 => (r.range(0, 4_000_000_000), *r.pick(&[100 * 3600, -100 * 3600, i32::MAX, i32::MIN + 1]), "offset-beyond-calendar"),
        _ => (r.range(-377_705_023_201, MIN_0001 - 1), 0, "instant-year-below-0001"),
    };
    let t = Time { seconds, offset, sign: Sign::from(offset) };
    let &(fname, fid) = r.pick(FORMATS);
    ctx.eval();
    ctx.distinct(("oor", fid, class));
    ctx.count("out_of_range_cases");
    match guard(|| t.format(fmt_of(fid))) {
        Ok(text) => {
            ctx.count("out_of_range_formatted");
            if let Err(p) = guard(|| gix_date::parse(&text, None)) {
                ctx.panic_violation("gix_date::parse", &p, class, json!({"text": text}));
            }
        }
        Err(p) => {
            let kind = if fid == 6 { "RAW" } else if fid == 5 { "UNIX" } else { "calendar-format" };
            ctx.panic_violation(
                "Time::format",
                &p,
                &format!("{kind}|{class}"),
                json!({"format": fname, "time": {"seconds": seconds, "offset": offset}}),
            );
        }
    }
}

// ---------------------------------------------------------------- (b) git differential

struct DateText {
    text: String,
    grammar: &'static str,
    variation: &'static str,
    off_class: &'static str,
}

fn off_text(off_min: i32, colon: bool) -> String {
    let a = off_min.unsigned_abs();
    format!("{}{:02}{}{:02}", if off_min < 0 { '-' } else { '+' }, a / 60, if colon { ":" } else { "" }, a % 60)
}

fn gen_date_text(r: &mut Rng) -> DateText {
    // wall clock between 1970-01-03 and 2099-12-29 so that every offset keeps the instant inside git's range
    let lo = days_from_civil(1970, 1, 3);
    let hi = days_from_civil(2099, 12, 29);
    let days = match r.below(4) {
        0 => {
            let y = r.range(1970, 2099);
            let m = r.range(1, 12);
            days_from_civil(y, m, if r.bool() { 1 } else { days_in_month(y, m) }).clamp(lo, hi)
        }
        1 => days_from_civil(*r.pick(&[1972, 2000, 2024, 2096, 2038]), 2, r.range(28, 29)).clamp(lo, hi),
        _ => r.range(lo, hi),
    };
    let (y, m, d) = civil_from_days(days);
    let (hh, mm, ss) = match r.below(4) {
        0 => (0, 0, 0),
        1 => (23, 59, 59),
        2 => (r.range(0, 9), r.range(0, 9), r.range(0, 9)),
        _ => (r.range(0, 23), r.range(0, 59), r.range(0, 59)),
    };
    let (mut off_min, off_class) = gen_offset_minutes(r);
    if off_min == -1 {
        // git's parse_date_basic uses offset == -1 (minutes) as its "no zone seen" marker, so the text "-0001" is read
        // as "local time zone" by git 2.39: the oracle is not usable for exactly this offset
        off_min = -2;
    }
    let wd_true = weekday(days);
    let (wd, wd_var) = if r.chance(1, 5) { ((wd_true + 1 + r.usize(6)) % 7, "wrong-weekday") } else { (wd_true, "weekday") };
    let mon = MON[(m - 1) as usize];
    let z = off_text(off_min, false);
    let zc = off_text(off_min, true);
    let instant = days * 86400 + hh * 3600 + mm * 60 + ss - off_min as i64 * 60;
    // rare classes: second 60 and two-digit years (git's strict parser refuses the latter) cost one extra git call each
    let pick = match r.below(300) {
        0 | 1 => 23,
        2 | 3 => 5,
        _ => {
            let p = r.below(22);
            if p >= 5 {
                p + 1
            } else {
                p
            }
        }
    };
    let (text, grammar, variation): (String, &'static str, &'static str) = match pick {
        0 => (format!("{}, {d:02} {mon} {y} {hh:02}:{mm:02}:{ss:02} {z}", WD[wd]), "rfc2822", wd_var),
        1 => (format!("{}, {d} {mon} {y} {hh:02}:{mm:02}:{ss:02} {z}", WD[wd]), "rfc2822", if d < 10 { "day-1-digit" } else { wd_var }),
        2 => (format!("{d} {mon} {y} {hh:02}:{mm:02}:{ss:02} {z}"), "rfc2822", "no-weekday"),
        3 => (format!("{}, {d:02} {mon} {y} {hh:02}:{mm:02} {z}", WD[wd]), "rfc2822", "no-seconds"),
        4 => {
            let zone = *r.pick(&["GMT", "UT", "EST", "EDT", "CST", "CDT", "MST", "MDT", "PST", "PDT"]);
            (format!("{}, {d:02} {mon} {y} {hh:02}:{mm:02}:{ss:02} {zone}", WD[wd]), "rfc2822", "zone-name")
        }
        5 => (format!("{}, {d:02} {mon} {:02} {hh:02}:{mm:02}:{ss:02} {z}", WD[wd_true], y % 100), "rfc2822", "two-digit-year"),
        6 => (format!("{},  {d:02}  {mon}  {y}  {hh:02}:{mm:02}:{ss:02}  {z}", WD[wd]), "rfc2822", "extra-spaces"),
        7 => (format!("{y}-{m:02}-{d:02} {hh:02}:{mm:02}:{ss:02} {z}"), "iso8601", "plain"),
        8 => (format!("{y}-{m}-{d} {hh}:{mm}:{ss} {z}"), "iso8601", "unpadded"),
        9 => (format!("{y}-{m:02}-{d:02} {hh:02}:{mm:02}:{ss:02}{z}"), "iso8601", "no-space-before-zone"),
        10 => (format!("{y}-{m:02}-{d:02} {hh:02}:{mm:02}:{ss:02} {zc}"), "iso8601", "colon-zone"),
        11 => (format!("{y}-{m:02}-{d:02}T{hh:02}:{mm:02}:{ss:02}{zc}"), "iso8601-strict", "plain"),
        12 => (format!("{y}-{m:02}-{d:02}T{hh:02}:{mm:02}:{ss:02}{z}"), "iso8601-strict", "no-colon-zone"),
        13 => (format!("{y}-{m:02}-{d:02}T{hh:02}:{mm:02}:{ss:02}Z"), "iso8601-strict", "zulu"),
        14 => (format!("{} {mon} {d} {hh:02}:{mm:02}:{ss:02} {y} {z}", WD[wd]), "default", wd_var),
        15 => (format!("{} {mon} {d:02} {hh:02}:{mm:02}:{ss:02} {y} {z}", WD[wd]), "default", "day-padded"),
        16 => (format!("{} {} {d} {hh:02}:{mm:02}:{ss:02} {y} {z}", WD_FULL[wd], MON_FULL[(m - 1) as usize]), "default", "full-names"),
        17 => (format!("{} {mon} {d} {hh:02}:{mm:02}:{ss:02} {y} {z}", WD[wd].to_lowercase()), "default", "lowercase-weekday"),
        18 => (format!("{} {mon} {d:02} {y} {hh:02}:{mm:02}:{ss:02} {z}", WD[wd]), "gitoxide", wd_var),
        19 => (format!("{} {mon} {d} {y} {hh:02}:{mm:02}:{ss:02} {z}", WD[wd]), "gitoxide", "day-unpadded"),
        20 => (format!("{instant} {z}"), "raw", "from-date"),
        21 => {
            let secs = match r.below(3) {
                0 => r.range(0, 99_999_999),
                1 => r.range(100_000_000, 4_102_444_799),
                _ => *r.pick(&[0, 1, 99_999_999, 100_000_000, 2_147_483_647, 2_147_483_648, 4_102_444_799]),
            };
            (format!("{secs} {z}"), "raw", if secs < 100_000_000 { "below-1e8" } else { "from-1e8" })
        }
        22 => {
            let secs = match r.below(3) {
                0 => r.range(100_000_000, 4_102_444_799),
                1 => *r.pick(&[100_000_000, 999_999_999, 1_000_000_000, 2_147_483_647, 2_147_483_648, 4_102_444_799]),
                _ => instant.max(100_000_000),
            };
            (format!("{secs}"), "unix", "from-1e8")
        }
        _ => (format!("{}, {d:02} {mon} {y} {hh:02}:{mm:02}:60 {z}", WD[wd]), "rfc2822", "second-60"),
    };
    DateText { text, grammar, variation, off_class }
}

fn git_since(ctx: &mut Ctx, dir: &std::path::Path, texts: &[String], now: &str) -> Option<Vec<Option<i64>>> {
    let mut args: Vec<String> = vec!["rev-parse".into()];
    for t in texts {
        args.push(format!("--since={t}"));
    }
    let out = match git::run_env(dir, &args, &[("GIT_TEST_DATE_NOW", now), ("TZ", "UTC")]) {
        Ok(o) if o.ok => o,
        Ok(o) => {
            ctx.inconclusive(&format!("git rev-parse --since failed: {}", o.err_text().chars().take(200).collect::<String>()));
            return None;
        }
        Err(e) => {
            ctx.inconclusive(&format!("git spawn failed: {e}"));
            return None;
        }
    };
    ctx.count("git_calls");
    let text = String::from_utf8_lossy(&out.stdout).to_string();
    let vals: Vec<Option<i64>> = text.lines().map(|l| l.strip_prefix("--max-age=").and_then(|v| v.parse::<i64>().ok())).collect();
    if vals.len() != texts.len() {
        ctx.inconclusive(&format!("git rev-parse printed {} lines for {} dates", vals.len(), texts.len()));
        return None;
    }
    Some(vals)
}

/// git's strict parser (parse_date, no approxidate guessing): Some((seconds, "+hhmm")) or None when git refuses the text
fn git_strict(ctx: &mut Ctx, dir: &std::path::Path, text: &str) -> Option<Option<(i64, String)>> {
    ctx.count("git_strict_calls");
    match git::run_env(dir, &["var", "GIT_AUTHOR_IDENT"], &[("GIT_AUTHOR_DATE", text), ("TZ", "UTC")]) {
        Ok(o) if o.ok => {
            let t = o.text();
            let mut it = t.rsplitn(3, ' ');
            let zone = it.next().unwrap_or("").to_string();
            let secs = it.next().and_then(|v| v.parse::<i64>().ok());
            match secs {
                Some(s) => Some(Some((s, zone))),
                None => {
                    ctx.inconclusive(&format!("cannot read git var GIT_AUTHOR_IDENT output: {t}"));
                    None
                }
            }
        }
        Ok(_) => Some(None),
        Err(e) => {
            ctx.inconclusive(&format!("git spawn failed: {e}"));
            None
        }
    }
}

fn git_batch(ctx: &mut Ctx, r: &mut Rng, dir: &std::path::Path, n: usize, fixed: &[&str]) {
    let mut cases: Vec<(DateText, Time)> = Vec::new();
    let mut push = |ctx: &mut Ctx, dt: DateText| {
        ctx.count("date_texts_generated");
        match guard(|| gix_date::parse(&dt.text, None)) {
            Err(p) => ctx.panic_violation("gix_date::parse", &p, dt.grammar, json!({"text": dt.text})),
            Ok(Err(_)) => ctx.count(&format!("gix_rejects_{}_{}", dt.grammar, dt.variation)),
            Ok(Ok(t)) => cases.push((dt, t)),
        }
    };
    for f in fixed {
        push(ctx, DateText { text: f.to_string(), grammar: "fixed", variation: "fixed", off_class: "-" });
    }
    for _ in 0..n {
        let dt = gen_date_text(r);
        push(ctx, dt);
    }
    if cases.is_empty() {
        return;
    }
    let texts: Vec<String> = cases.iter().map(|c| c.0.text.clone()).collect();
    let Some(a) = git_since(ctx, dir, &texts, "1234567890") else { return };
    let Some(b) = git_since(ctx, dir, &texts, "1711111111") else { return };
    let mut strict_budget = 6;
    for (i, (dt, t)) in cases.iter().enumerate() {
        let (ga, gb) = (a[i], b[i]);
        match (ga, gb) {
            (Some(x), Some(y)) if x == y => {
                ctx.eval();
                ctx.count("git_compared");
                ctx.count(&format!("cmp_{}", dt.grammar));
                ctx.distinct(("git", dt.grammar, dt.variation, dt.off_class, t.seconds / (86400 * 3653)));
                if x != t.seconds {
                    // confirm with git's strict parser: approxidate may have guessed a now-independent value
                    if strict_budget == 0 {
                        ctx.count("since_mismatch_not_confirmed_strict_budget");
                        continue;
                    }
                    strict_budget -= 1;
                    let strict = match git_strict(ctx, dir, &dt.text) {
                        None => continue,
                        Some(None) => {
                            ctx.count(&format!("git_strict_rejects_{}_{}", dt.grammar, dt.variation));
                            continue;
                        }
                        Some(Some(v)) => v,
                    };
                    if strict.0 == t.seconds {
                        ctx.count("git_strict_agrees_after_since_mismatch");
                        continue;
                    }
                    let x = strict.0;
                    let sig = if dt.grammar == "fixed" {
                        format!("git-diff|fixed|{}", dt.text)
                    } else {
                        format!("git-diff|{}|{}", dt.grammar, dt.variation)
                    };
                    ctx.violation(
                        &sig,
                        "gitoxide and git parse the same absolute date text to different instants",
                        json!({"text": dt.text, "gix": {"seconds": t.seconds, "offset": t.offset}, "git": {"seconds": x, "zone": strict.1}, "diff_seconds": t.seconds - x}),
                    );
                }
                if ctx.want_sample() {
                    ctx.sample(json!({"part": "git", "text": dt.text, "grammar": dt.grammar, "variation": dt.variation, "seconds": t.seconds}));
                }
            }
            _ => {
                // git's answer depends on the current time (it did not read an absolute date) or is not a number
                ctx.count(&format!("git_not_absolute_{}_{}", dt.grammar, dt.variation));
            }
        }
    }
}

pub fn run(ctx: &mut Ctx) {
    ctx.rule(
        "(a) case = (time with wall clock in 0001-01-01..9999-12-30T22:00 (the calendar backend's range) near year/month/leap-day boundaries or uniform, minute-granular offset \
         in ±14h/±23:59, one of the 9 output formats) -> format -> parse; plus out-of-range times where only panic-freedom is \
         demanded; (b) case = date text in a grammar gitoxide accepts (RFC2822, ISO8601, strict ISO8601, DEFAULT, GITOXIDE, raw, \
         unix) with field variations, years 1970..2099, compared with git rev-parse --since under two different GIT_TEST_DATE_NOW; \
         distinct = (format, year class, offset class, instant class) / (grammar, variation, offset class, decade)",
    );
    ctx.assume("offsets are whole minutes (git's +hhmm); SHORT carries only the date, UNIX carries no offset; the sign of a zero offset (-0000) is not compared");
    ctx.assume("git is treated as having parsed an absolute date iff its --max-age is the same for two different values of GIT_TEST_DATE_NOW and, on mismatch, its strict parser (git var GIT_AUTHOR_IDENT) accepts the text");
    ctx.assume("the offset text -0001 is excluded from (b): git 2.39 uses -1 minute as its internal 'no zone' marker and reads that text in the local zone");

    let n = ctx.n(2_500, 100_000);
    ctx.cases("roundtrip", n, |ctx, r| {
        for _ in 0..40 {
            roundtrip_one(ctx, r);
        }
        out_of_range_one(ctx, r);
    });

    let dir = ctx.dir("repo");
    if let Err(e) = git::init(&dir, true) {
        ctx.inconclusive(&format!("git init failed: {e}"));
        return;
    }
    // the hard-coded placeholder in gix_date::parse and a few literal examples from the format docs
    const FIXED: &[&str] = &[
        "1979-02-26 18:30:00",
        "Thu, 18 Aug 2022 12:45:06 +0800",
        "Thu, 8 Aug 2022 12:45:06 +0800",
        "2022-08-17 22:04:58 +0200",
        "2022-08-17T21:43:13+08:00",
        "1660874655 +0800",
        "Thu Sep 04 2022 10:45:06 -0400",
        "Thu Sep 4 10:45:06 2022 -0400",
        "123456789",
    ];
    let batches = ctx.n(15, 250);
    ctx.cases("git-fixed", 1, |ctx, r| git_batch(ctx, r, &dir, 0, FIXED));
    ctx.cases("git", batches, |ctx, r| git_batch(ctx, r, &dir, 400, &[]));
}
