//! C31 Fetching and cloning reproduce the server's objects and references.
//!
//! One case = one scenario: a random server history (fast-import), twin client repositories A (gitoxide) and
//! B (git 2.39.5) set up identically (clone, or init + identical remote configuration), then 1..4 update
//! rounds on the server (fast-forward, release = push + tag, rewind, rewrite, merge, new/deleted branches, new/moved/deleted light
//! and annotated tags) each followed by a fetch on both twins through the `file://` transport and the real
//! `git-upload-pack` with the same protocol version, negotiation algorithm, refspecs, tagOpt and shallow
//! operation.
//!
//! Oracles after every step:
//!  * `git fsck` on A reports nothing missing/corrupt (exit 0, no error lines),
//!  * `git for-each-ref` of A equals that of B (name set and the object id each ref resolves to); after a clone
//!    additionally HEAD (resolved id and symbolic target, when born).
//!  * a depth-limited clone/fetch into an empty repository ends with git's shallow boundary (it is a function of depth and
//!    wanted tips alone).
//! Not compared: reflogs, FETCH_HEAD, pack layout, whether a tracking ref is symbolic or direct (counted as
//! `symref_materialised`), how a rejection is reported, shallow boundaries after later rounds (git re-requests only changed
//! tips, gitoxide all of them: both boundaries are what the server computed; counted as `shallow_boundary_differs_from_git`).
//!
//! Second scenario class `shallow-evolve` (directed, runs first with a share of the budget): a tiny server history (trunk of 4..9
//! commits with old side branches/merges), the client starts as a depth-limited clone/fetch (depth 1..3, protocol 0|1|2), then 4..6
//! rounds in which the server gains history that reaches BELOW the client's shallow boundary without passing through it: new
//! branches forked off old commits (root included) with or without own commits, old side branches merged into tracked branches,
//! tags on old commits, besides fast-forwards and the generic update rounds; every round is fetched by both twins WITHOUT depth
//! arguments most of the time (the server must be told the boundary through `shallow <id>` lines, else it omits history it
//! believes to be present), else with depth/deepen/unshallow. Oracles after every step are those above (in this class a
//! connectivity failure reported by fsck gets the signature `connectivity|missing-objects-after-<op>-into-<shallow|complete|empty>`),
//! plus rules on `$GIT_DIR/shallow` that hold independently of which tips a client re-requests (all scenario classes):
//!  * a fetch without depth arguments from a complete server never changes the boundary (server sends no shallow-info): if git's
//!    twin kept its shallow file, gitoxide's must be unchanged too,
//!  * every entry of the shallow file names a commit that is present,
//!  * after `--unshallow`, no entry remains that is reachable from a server branch the refspecs fetch (unless git's twin keeps it too).
//! In this class depth/deepen requests are made only with tagOpt --no-tags/--tags, and a scenario with default tag following ends
//! as soon as the two boundaries differ (auto-following depends on which old commits happen to be present).
//! Domain restrictions (git quirks): later depth/deepen requests only with all-forced refspecs (boundaries may differ and git
//! decides fast-forwards on truncated history); no auto-following together with negative refspecs; a detached server HEAD is never at a
//! branch tip; no negative glob refspecs (gix-refspec rejects them when parsing).
//! Aids: GXV_C31_MUTANT=force-nonff|drop-tag|drop-pack|stale-ref (calibration: damages gitoxide's twin after a fetch),
//! GXV_C31_KEEP=<dir> (copies server and twins of failing steps), GXV_C31_STRICT_SHALLOW=1 (reports every boundary difference).
use crate::fw::{git, guard, repogen, Ctx, Rng};
use serde_json::{json, Value};
use std::collections::{BTreeMap, BTreeSet, HashMap};
use std::fmt::Write as _;
use std::path::{Path, PathBuf};
use std::sync::atomic::AtomicBool;

pub fn child(_mode: &str) {}

fn hermetic_env() {
    // gitoxide spawns `git-upload-pack` with the environment of this process.
    let drop: Vec<String> = std::env::vars_os()
        .filter_map(|(k, _)| k.into_string().ok())
        .filter(|k| k.starts_with("GIT_") || k.starts_with("GIX_") || k == "XDG_CONFIG_HOME")
        .filter(|k| !(k.starts_with("GIT_TRACE") && std::env::var_os("GXV_C31_KEEP").is_some()))
        .collect();
    for k in drop {
        std::env::remove_var(k);
    }
    let _ = std::fs::create_dir_all("/dev/shm/gxv-home");
    std::env::set_var("HOME", "/dev/shm/gxv-home");
    std::env::set_var("PATH", "/usr/bin:/bin");
    std::env::set_var("GIT_CONFIG_NOSYSTEM", "1");
    std::env::set_var("GIT_CONFIG_GLOBAL", "/dev/null");
    std::env::set_var("GIT_TERMINAL_PROMPT", "0");
    std::env::set_var("LC_ALL", "C");
    std::env::set_var("TZ", "UTC");
}

// ------------------------------------------------------------------ server

#[derive(Clone, Debug)]
#[allow(dead_code)]
struct TagInfo {
    /// value of the ref (tag object id if annotated)
    value: String,
    annotated: bool,
    /// the commit finally pointed to
    commit: String,
}

struct Srv {
    path: PathBuf,
    parents: HashMap<String, Vec<String>>,
    commits: Vec<String>,
    branches: BTreeMap<String, String>,
    tags: BTreeMap<String, TagInfo>,
    next: u64,
    time: i64,
    skewed: bool,
    log: Vec<String>,
}

const BRANCH_NAMES: &[&str] = &["dev", "feat/x", "feat/y", "rel/1.0", "a-b", "topic", "fix/é", "wip"];
const TAG_NAMES: &[&str] = &["v1", "v1.1", "v2", "rel/a", "rel/b", "t-é", "snap", "rc"];

const K_FF: u32 = 1;
const K_REWIND: u32 = 2;
const K_REWRITE: u32 = 4;
const K_NEW_BRANCH: u32 = 8;
const K_DEL_BRANCH: u32 = 16;
const K_NEW_LIGHT: u32 = 32;
const K_NEW_ANNOT: u32 = 64;
const K_MOVE_TAG: u32 = 128;
const K_DEL_TAG: u32 = 256;
const K_MERGE: u32 = 512;
const K_RELEASE: u32 = 1024;
const K_FORK_OLD: u32 = 2048;
const K_MERGE_OLD: u32 = 4096;
const K_TAG_OLD: u32 = 8192;

enum P {
    Id(String),
    Mark(usize),
}

struct NewCommit {
    parents: Vec<P>,
}

enum RefTarget {
    Id(String),
    Mark(usize),
}

enum RefOp {
    SetBranch(String, RefTarget),
    DelBranch(String),
    SetTag { name: String, target: RefTarget, annotated: bool },
    DelTag(String),
}

impl Srv {
    fn build(dir: &Path, r: &mut Rng, quick: bool) -> Result<Srv, String> {
        let time_mode = *r.pick(&[repogen::TimeMode::Increasing, repogen::TimeMode::Increasing, repogen::TimeMode::Colliding, repogen::TimeMode::Skewed]);
        let spec = repogen::DagSpec {
            commits: 3 + r.usize(if quick { 14 } else { 40 }),
            max_parents: 2 + r.usize(2),
            merge_pct: 25,
            root_pct: 4,
            time_mode,
            max_changes: 3,
            rich_trees: true,
            delta_fodder: r.chance(1, 3),
        };
        let repo = repogen::build_dag(dir, r, &spec)?;
        let mut parents = HashMap::new();
        let mut commits = Vec::new();
        for c in &repo.commits {
            parents.insert(c.id.clone(), c.parents.iter().map(|p| repo.commits[*p].id.clone()).collect::<Vec<_>>());
            commits.push(c.id.clone());
        }
        let mut srv = Srv {
            path: dir.to_path_buf(),
            parents,
            commits,
            branches: BTreeMap::new(),
            tags: BTreeMap::new(),
            next: 0,
            time: 1_500_000_000 + 10_000,
            skewed: time_mode == repogen::TimeMode::Skewed,
            log: Vec::new(),
        };
        let n = srv.commits.len();
        if r.chance(1, 3) {
            // while refs/keep/* still protect every commit (later rounds may refer to any of them)
            git::ok(dir, &["repack", "-a", "-d", "-q"])?;
        }
        let mut batch = String::new();
        for i in 0..n {
            let _ = writeln!(batch, "delete refs/keep/{i}");
        }
        git::ok_in(dir, &["update-ref", "--stdin"], batch.as_bytes())?;
        // initial refs through the same machinery as later rounds
        let mut ops = vec![RefOp::SetBranch("main".into(), RefTarget::Id(srv.commits[n - 1].clone()))];
        let mut names: Vec<&str> = BRANCH_NAMES.to_vec();
        r.shuffle(&mut names);
        for name in names.iter().take(r.usize(4)) {
            ops.push(RefOp::SetBranch(name.to_string(), RefTarget::Id(r.pick(&srv.commits).clone())));
        }
        let mut tnames: Vec<&str> = TAG_NAMES.to_vec();
        r.shuffle(&mut tnames);
        // ancestors of main: tags on them are the ones `include-tag` is about
        let mut reach: Vec<String> = Vec::new();
        {
            let mut todo = vec![srv.commits[n - 1].clone()];
            let mut seen = BTreeSet::new();
            while let Some(c) = todo.pop() {
                if seen.insert(c.clone()) {
                    todo.extend(srv.parents.get(&c).cloned().unwrap_or_default());
                    reach.push(c);
                }
            }
        }
        for name in tnames.iter().take(r.usize(4)) {
            let target = if r.chance(2, 3) { r.pick(&reach).clone() } else { r.pick(&srv.commits).clone() };
            ops.push(RefOp::SetTag { name: name.to_string(), target: RefTarget::Id(target), annotated: r.chance(2, 3) });
        }
        srv.apply(&[], ops)?;
        Ok(srv)
    }

    /// create the new commits with fast-import, then tag objects, then one ref transaction
    fn apply(&mut self, new_commits: &[NewCommit], ops: Vec<RefOp>) -> Result<(), String> {
        let mut ids: Vec<String> = Vec::new();
        if !new_commits.is_empty() {
            let mut stream: Vec<u8> = Vec::new();
            let mut r = Rng::new(self.next ^ 0xfeed);
            for (i, c) in new_commits.iter().enumerate() {
                self.next += 1;
                self.time += 100;
                let t = if self.skewed { 1_500_000_000 + r.range(0, 20_000) } else { self.time };
                let msg = format!("update {}\n", self.next);
                let mut s = String::new();
                let _ = writeln!(s, "commit refs/gxv-tmp/{i}");
                let _ = writeln!(s, "mark :{}", i + 1);
                let _ = writeln!(s, "author A U Thor <author@example.com> {t} +0000");
                let _ = writeln!(s, "committer C O Mitter <committer@example.com> {t} +0000");
                let _ = writeln!(s, "data {}", msg.len());
                s.push_str(&msg);
                for (k, p) in c.parents.iter().enumerate() {
                    let what = if k == 0 { "from" } else { "merge" };
                    match p {
                        P::Id(id) => {
                            let _ = writeln!(s, "{what} {id}");
                        }
                        P::Mark(m) => {
                            let _ = writeln!(s, "{what} :{}", m + 1);
                        }
                    }
                }
                let content = format!("content of update {} {}\n", self.next, "z".repeat((self.next % 50) as usize));
                let _ = writeln!(s, "M 100644 inline upd/f{}", self.next % 7);
                let _ = writeln!(s, "data {}", content.len());
                s.push_str(&content);
                s.push('\n');
                stream.extend_from_slice(s.as_bytes());
            }
            let marks = self.path.join("gxv-marks");
            let marks_arg = format!("--export-marks={}", marks.display());
            let o = git::run_in(&self.path, &["fast-import", "--quiet", "--force", &marks_arg], &stream).map_err(|e| e.to_string())?;
            if !o.ok {
                return Err(format!("fast-import failed: {}", o.err_text()));
            }
            ids = vec![String::new(); new_commits.len()];
            let text = std::fs::read_to_string(&marks).map_err(|e| e.to_string())?;
            for line in text.lines() {
                let mut it = line.split_whitespace();
                let (Some(m), Some(id)) = (it.next(), it.next()) else { continue };
                let idx: usize = m.trim_start_matches(':').parse::<usize>().map_err(|e| e.to_string())? - 1;
                if idx < ids.len() {
                    ids[idx] = id.to_string();
                }
            }
            let _ = std::fs::remove_file(&marks);
            if ids.iter().any(|i| i.is_empty()) {
                return Err("fast-import did not export all marks".into());
            }
            for (i, c) in new_commits.iter().enumerate() {
                let ps: Vec<String> = c
                    .parents
                    .iter()
                    .map(|p| match p {
                        P::Id(id) => id.clone(),
                        P::Mark(m) => ids[*m].clone(),
                    })
                    .collect();
                self.parents.insert(ids[i].clone(), ps);
                self.commits.push(ids[i].clone());
            }
        }
        let resolve = |t: &RefTarget| -> String {
            match t {
                RefTarget::Id(id) => id.clone(),
                RefTarget::Mark(m) => ids[*m].clone(),
            }
        };
        let mut batch = String::new();
        for i in 0..new_commits.len() {
            let _ = writeln!(batch, "delete refs/gxv-tmp/{i}");
        }
        for op in ops {
            match op {
                RefOp::SetBranch(name, t) => {
                    let id = resolve(&t);
                    let _ = writeln!(batch, "update refs/heads/{name} {id}");
                    self.log.push(format!("branch {name} = {}", &id[..8]));
                    self.branches.insert(name, id);
                }
                RefOp::DelBranch(name) => {
                    let _ = writeln!(batch, "delete refs/heads/{name}");
                    self.log.push(format!("delete branch {name}"));
                    self.branches.remove(&name);
                }
                RefOp::SetTag { name, target, annotated } => {
                    let commit = resolve(&target);
                    let value = if annotated {
                        self.next += 1;
                        let body = format!(
                            "object {commit}\ntype commit\ntag {name}\ntagger T Agger <t@example.com> {} +0000\n\nannotated {name} #{}\n",
                            1_600_000_000 + self.next,
                            self.next
                        );
                        write_loose(&self.path, "tag", body.as_bytes())?
                    } else {
                        commit.clone()
                    };
                    let _ = writeln!(batch, "update refs/tags/{name} {value}");
                    self.log.push(format!("tag {name} = {} ({}) -> {}", &value[..8], if annotated { "annotated" } else { "light" }, &commit[..8]));
                    self.tags.insert(name, TagInfo { value, annotated, commit });
                }
                RefOp::DelTag(name) => {
                    let _ = writeln!(batch, "delete refs/tags/{name}");
                    self.log.push(format!("delete tag {name}"));
                    self.tags.remove(&name);
                }
            }
        }
        git::ok_in(&self.path, &["update-ref", "--stdin"], batch.as_bytes())?;
        Ok(())
    }

    /// Tiny history for the `shallow-evolve` class: a trunk of 4..9 commits on `main` with side branches forked off and merged
    /// back along the way, optionally more branches (at or behind the tip of main, or an unmerged side branch) and tags on old commits.
    fn build_small(dir: &Path, r: &mut Rng) -> Result<Srv, String> {
        git::init(dir, true)?;
        let mut srv = Srv {
            path: dir.to_path_buf(),
            parents: HashMap::new(),
            commits: Vec::new(),
            branches: BTreeMap::new(),
            tags: BTreeMap::new(),
            next: 0,
            time: 1_500_000_000,
            skewed: false,
            log: Vec::new(),
        };
        let n = 4 + r.usize(6);
        let mut commits: Vec<NewCommit> = vec![NewCommit { parents: vec![] }];
        let mut trunk: Vec<usize> = vec![0];
        let mut side: Option<usize> = None;
        for i in 1..n {
            let prev = *trunk.last().expect("non-empty");
            if side.is_none() && i + 1 < n && r.chance(1, 4) {
                let mut p = prev;
                for _ in 0..1 + r.usize(2) {
                    commits.push(NewCommit { parents: vec![P::Mark(p)] });
                    p = commits.len() - 1;
                }
                side = Some(p);
            }
            let mut parents = vec![P::Mark(prev)];
            if let Some(s) = side {
                if r.chance(1, 2) {
                    parents.push(P::Mark(s));
                    side = None;
                }
            }
            commits.push(NewCommit { parents });
            trunk.push(commits.len() - 1);
        }
        let tip = *trunk.last().expect("non-empty");
        let mut ops = vec![RefOp::SetBranch("main".into(), RefTarget::Mark(tip))];
        if r.chance(1, 2) {
            // behind (or at) the tip of main: its history is shared with main's
            let k = r.usize(4).min(trunk.len() - 1);
            ops.push(RefOp::SetBranch("dev".into(), RefTarget::Mark(trunk[trunk.len() - 1 - k])));
        }
        if let Some(s) = side {
            if r.chance(2, 3) {
                ops.push(RefOp::SetBranch("topic".into(), RefTarget::Mark(s)));
            }
        }
        if r.chance(1, 2) {
            let at = trunk[r.usize(trunk.len())];
            ops.push(RefOp::SetTag { name: "v1".into(), target: RefTarget::Mark(at), annotated: r.bool() });
        }
        if r.chance(1, 3) {
            ops.push(RefOp::SetTag { name: "v2".into(), target: RefTarget::Mark(tip), annotated: r.bool() });
        }
        srv.apply(&commits, ops)?;
        if r.chance(1, 4) {
            git::ok(dir, &["repack", "-a", "-d", "-q"])?;
        }
        Ok(srv)
    }

    /// an old commit: the root, one of the older two thirds (creation order), or any
    fn old_commit(&self, r: &mut Rng) -> String {
        let n = self.commits.len();
        match r.below(4) {
            0 => self.commits[0].clone(),
            1 | 2 => self.commits[r.usize((n * 2 / 3).max(1))].clone(),
            _ => r.pick(&self.commits).clone(),
        }
    }

    /// One update round of the `shallow-evolve` class: mostly history that attaches to OLD commits (new branches forked off them,
    /// side branches grown from them and merged into tracked branches, tags on them), besides plain fast-forwards and merges of
    /// existing branches. Returns the bitmask of update kinds.
    fn evolve(&mut self, r: &mut Rng) -> Result<u32, String> {
        let mut kinds = 0u32;
        let mut commits: Vec<NewCommit> = Vec::new();
        let mut ops: Vec<RefOp> = Vec::new();
        let mut touched: BTreeSet<String> = BTreeSet::new();
        self.log.push("-- round (evolve)".into());
        let nops = 1 + r.usize(3);
        for _ in 0..nops {
            let bnames: Vec<String> = self.branches.keys().filter(|b| !touched.contains(&format!("b/{b}"))).cloned().collect();
            match r.below(12) {
                0..=2 if !bnames.is_empty() => {
                    let b = r.pick(&bnames).clone();
                    let mut parent = P::Id(self.branches[&b].clone());
                    for _ in 0..1 + r.usize(3) {
                        commits.push(NewCommit { parents: vec![parent] });
                        parent = P::Mark(commits.len() - 1);
                    }
                    ops.push(RefOp::SetBranch(b.clone(), RefTarget::Mark(commits.len() - 1)));
                    touched.insert(format!("b/{b}"));
                    kinds |= K_FF;
                }
                3..=5 => {
                    let free: Vec<&&str> = BRANCH_NAMES.iter().filter(|n| !self.branches.contains_key(**n) && !touched.contains(&format!("b/{n}"))).collect();
                    if !free.is_empty() {
                        let name = **r.pick(&free);
                        let base = self.old_commit(r);
                        let mut target = RefTarget::Id(base.clone());
                        let mut parent = P::Id(base);
                        for _ in 0..r.usize(3) {
                            commits.push(NewCommit { parents: vec![parent] });
                            parent = P::Mark(commits.len() - 1);
                            target = RefTarget::Mark(commits.len() - 1);
                        }
                        ops.push(RefOp::SetBranch(name.to_string(), target));
                        touched.insert(format!("b/{name}"));
                        kinds |= K_NEW_BRANCH | K_FORK_OLD;
                    }
                }
                6..=8 if !bnames.is_empty() => {
                    // a side branch that never was a ref: grown from an old commit and merged into a tracked branch
                    let b = r.pick(&bnames).clone();
                    let mut parent = P::Id(self.old_commit(r));
                    for _ in 0..1 + r.usize(2) {
                        commits.push(NewCommit { parents: vec![parent] });
                        parent = P::Mark(commits.len() - 1);
                    }
                    commits.push(NewCommit { parents: vec![P::Id(self.branches[&b].clone()), parent] });
                    if r.chance(1, 3) {
                        commits.push(NewCommit { parents: vec![P::Mark(commits.len() - 1)] });
                    }
                    ops.push(RefOp::SetBranch(b.clone(), RefTarget::Mark(commits.len() - 1)));
                    touched.insert(format!("b/{b}"));
                    kinds |= K_MERGE | K_MERGE_OLD;
                }
                9 | 10 => {
                    let free: Vec<&&str> = TAG_NAMES.iter().filter(|n| !self.tags.contains_key(**n) && !touched.contains(&format!("t/{n}"))).collect();
                    if !free.is_empty() {
                        let name = **r.pick(&free);
                        let annotated = r.bool();
                        ops.push(RefOp::SetTag { name: name.to_string(), target: RefTarget::Id(self.old_commit(r)), annotated });
                        touched.insert(format!("t/{name}"));
                        kinds |= K_TAG_OLD | if annotated { K_NEW_ANNOT } else { K_NEW_LIGHT };
                    }
                }
                11 if bnames.len() >= 2 => {
                    let b = r.pick(&bnames).clone();
                    let o = r.pick(&bnames).clone();
                    if b != o && self.branches[&b] != self.branches[&o] {
                        commits.push(NewCommit { parents: vec![P::Id(self.branches[&b].clone()), P::Id(self.branches[&o].clone())] });
                        ops.push(RefOp::SetBranch(b.clone(), RefTarget::Mark(commits.len() - 1)));
                        touched.insert(format!("b/{b}"));
                        kinds |= K_MERGE;
                    }
                }
                _ => {}
            }
        }
        if ops.is_empty() {
            let b = "main".to_string();
            commits.push(NewCommit { parents: vec![P::Id(self.branches[&b].clone())] });
            ops.push(RefOp::SetBranch(b, RefTarget::Mark(commits.len() - 1)));
            kinds |= K_FF;
        }
        self.apply(&commits, ops)?;
        Ok(kinds)
    }

    /// one random update round; returns the bitmask of update kinds
    fn mutate(&mut self, r: &mut Rng) -> Result<u32, String> {
        let mut kinds = 0u32;
        let mut commits: Vec<NewCommit> = Vec::new();
        let mut ops: Vec<RefOp> = Vec::new();
        let mut touched: BTreeSet<String> = BTreeSet::new();
        self.log.push("-- round".into());
        let nops = 1 + r.usize(4);
        for _ in 0..nops {
            let bnames: Vec<String> = self.branches.keys().filter(|b| !touched.contains(&format!("b/{b}"))).cloned().collect();
            let tnames: Vec<String> = self.tags.keys().filter(|t| !touched.contains(&format!("t/{t}"))).cloned().collect();
            match r.below(14) {
                0..=2 if !bnames.is_empty() => {
                    let b = r.pick(&bnames).clone();
                    let mut parent = P::Id(self.branches[&b].clone());
                    for _ in 0..1 + r.usize(3) {
                        commits.push(NewCommit { parents: vec![parent] });
                        parent = P::Mark(commits.len() - 1);
                    }
                    ops.push(RefOp::SetBranch(b.clone(), RefTarget::Mark(commits.len() - 1)));
                    touched.insert(format!("b/{b}"));
                    kinds |= K_FF;
                    // the release pattern: tag the commit that was just pushed
                    if r.chance(2, 5) {
                        let free: Vec<&&str> = TAG_NAMES.iter().filter(|n| !self.tags.contains_key(**n) && !touched.contains(&format!("t/{n}"))).collect();
                        if let Some(name) = free.first() {
                            let annotated = r.chance(3, 4);
                            ops.push(RefOp::SetTag { name: name.to_string(), target: RefTarget::Mark(commits.len() - 1), annotated });
                            touched.insert(format!("t/{name}"));
                            kinds |= K_RELEASE;
                        }
                    }
                }
                3 if !bnames.is_empty() => {
                    let b = r.pick(&bnames).clone();
                    let tip = self.branches[&b].clone();
                    if let Some(p) = self.parents.get(&tip).and_then(|p| p.first()).cloned() {
                        ops.push(RefOp::SetBranch(b.clone(), RefTarget::Id(p)));
                        touched.insert(format!("b/{b}"));
                        kinds |= K_REWIND;
                    }
                }
                4 if !bnames.is_empty() => {
                    let b = r.pick(&bnames).clone();
                    let tip = self.branches[&b].clone();
                    let ps: Vec<P> = self.parents.get(&tip).cloned().unwrap_or_default().into_iter().map(P::Id).collect();
                    commits.push(NewCommit { parents: ps });
                    ops.push(RefOp::SetBranch(b.clone(), RefTarget::Mark(commits.len() - 1)));
                    touched.insert(format!("b/{b}"));
                    kinds |= K_REWRITE;
                }
                5 | 6 => {
                    let free: Vec<&&str> = BRANCH_NAMES.iter().filter(|n| !self.branches.contains_key(**n) && !touched.contains(&format!("b/{n}"))).collect();
                    if let Some(name) = free.first() {
                        let base = r.pick(&self.commits).clone();
                        let target = if r.bool() {
                            commits.push(NewCommit { parents: vec![P::Id(base)] });
                            RefTarget::Mark(commits.len() - 1)
                        } else {
                            RefTarget::Id(base)
                        };
                        ops.push(RefOp::SetBranch(name.to_string(), target));
                        touched.insert(format!("b/{name}"));
                        kinds |= K_NEW_BRANCH;
                    }
                }
                7 => {
                    let cands: Vec<&String> = bnames.iter().filter(|b| *b != "main").collect();
                    if !cands.is_empty() {
                        let b = (*r.pick(&cands)).clone();
                        ops.push(RefOp::DelBranch(b.clone()));
                        touched.insert(format!("b/{b}"));
                        kinds |= K_DEL_BRANCH;
                    }
                }
                8 | 9 | 10 => {
                    let free: Vec<&&str> = TAG_NAMES.iter().filter(|n| !self.tags.contains_key(**n) && !touched.contains(&format!("t/{n}"))).collect();
                    if let Some(name) = free.first() {
                        let annotated = r.chance(3, 5);
                        // tag an old commit, a branch tip, or a brand-new commit that is on no branch
                        let target = match r.below(4) {
                            0 => {
                                let base = r.pick(&self.commits).clone();
                                commits.push(NewCommit { parents: vec![P::Id(base)] });
                                RefTarget::Mark(commits.len() - 1)
                            }
                            1 if !self.branches.is_empty() => {
                                let names: Vec<&String> = self.branches.keys().collect();
                                RefTarget::Id(self.branches[*r.pick(&names)].clone())
                            }
                            _ => RefTarget::Id(r.pick(&self.commits).clone()),
                        };
                        ops.push(RefOp::SetTag { name: name.to_string(), target, annotated });
                        touched.insert(format!("t/{name}"));
                        kinds |= if annotated { K_NEW_ANNOT } else { K_NEW_LIGHT };
                    }
                }
                11 if !tnames.is_empty() => {
                    let t = r.pick(&tnames).clone();
                    let annotated = self.tags[&t].annotated;
                    ops.push(RefOp::SetTag { name: t.clone(), target: RefTarget::Id(r.pick(&self.commits).clone()), annotated });
                    touched.insert(format!("t/{t}"));
                    kinds |= K_MOVE_TAG;
                }
                12 if !tnames.is_empty() => {
                    let t = r.pick(&tnames).clone();
                    ops.push(RefOp::DelTag(t.clone()));
                    touched.insert(format!("t/{t}"));
                    kinds |= K_DEL_TAG;
                }
                13 if bnames.len() >= 2 => {
                    let b = r.pick(&bnames).clone();
                    let o = r.pick(&bnames).clone();
                    if b != o && self.branches[&b] != self.branches[&o] {
                        commits.push(NewCommit { parents: vec![P::Id(self.branches[&b].clone()), P::Id(self.branches[&o].clone())] });
                        ops.push(RefOp::SetBranch(b.clone(), RefTarget::Mark(commits.len() - 1)));
                        touched.insert(format!("b/{b}"));
                        kinds |= K_MERGE;
                    }
                }
                _ => {}
            }
        }
        if ops.is_empty() {
            // always change something
            let b = "main".to_string();
            commits.push(NewCommit { parents: vec![P::Id(self.branches[&b].clone())] });
            ops.push(RefOp::SetBranch(b, RefTarget::Mark(commits.len() - 1)));
            kinds |= K_FF;
        }
        self.apply(&commits, ops)?;
        Ok(kinds)
    }
}

/// write a loose object directly (bare repository layout), returns its id
fn write_loose(gitdir: &Path, kind: &str, body: &[u8]) -> Result<String, String> {
    use std::io::Write;
    let id = crate::fw::hex(&crate::fw::git_oid(kind, body));
    let dir = gitdir.join("objects").join(&id[..2]);
    std::fs::create_dir_all(&dir).map_err(|e| e.to_string())?;
    let mut enc = flate2::write::ZlibEncoder::new(Vec::new(), flate2::Compression::default());
    enc.write_all(format!("{} {}\0", kind, body.len()).as_bytes()).map_err(|e| e.to_string())?;
    enc.write_all(body).map_err(|e| e.to_string())?;
    let data = enc.finish().map_err(|e| e.to_string())?;
    std::fs::write(dir.join(&id[2..]), data).map_err(|e| e.to_string())?;
    Ok(id)
}

fn append_config(gitdir: &Path, text: &str) -> Result<(), String> {
    use std::io::Write;
    let mut f = std::fs::OpenOptions::new().append(true).open(gitdir.join("config")).map_err(|e| format!("open config: {e}"))?;
    f.write_all(text.as_bytes()).map_err(|e| e.to_string())
}

/// values of `fetch = ` lines in a config file (only used on files written by git/gix clone)
fn fetch_lines(gitdir: &Path) -> BTreeSet<String> {
    std::fs::read_to_string(gitdir.join("config"))
        .map(|t| t.lines().filter_map(|l| l.trim().strip_prefix("fetch = ").map(|v| v.trim().to_string())).collect())
        .unwrap_or_default()
}

// ------------------------------------------------------------------ twins

#[derive(Clone, Copy, Debug, PartialEq, Eq, Hash)]
enum Setup {
    CloneWorktree,
    CloneBare,
    InitBare,
    InitWorktree,
}

#[derive(Clone, Copy, Debug, PartialEq, Eq, Hash)]
enum TagOpt {
    Default,
    NoTags,
    AllTags,
}

#[derive(Clone, Copy, Debug, PartialEq, Eq, Hash)]
enum ShallowOp {
    NoChange,
    Depth(u32),
    Deepen(u32),
    Unshallow,
}

impl ShallowOp {
    fn class(&self) -> &'static str {
        match self {
            ShallowOp::NoChange => "nochange",
            ShallowOp::Depth(_) => "depth",
            ShallowOp::Deepen(_) => "deepen",
            ShallowOp::Unshallow => "unshallow",
        }
    }
    fn to_gix(self) -> gix::remote::fetch::Shallow {
        use gix::remote::fetch::Shallow;
        match self {
            ShallowOp::NoChange => Shallow::NoChange,
            ShallowOp::Depth(n) => Shallow::DepthAtRemote(std::num::NonZeroU32::new(n.max(1)).expect("non-zero")),
            ShallowOp::Deepen(n) => Shallow::Deepen(n),
            ShallowOp::Unshallow => Shallow::undo(),
        }
    }
    fn git_args(self) -> Vec<String> {
        match self {
            ShallowOp::NoChange => vec![],
            ShallowOp::Depth(n) => vec![format!("--depth={n}")],
            ShallowOp::Deepen(n) => vec![format!("--deepen={n}")],
            ShallowOp::Unshallow => vec!["--unshallow".into()],
        }
    }
}

/// (class name, refspecs, bare only)
const SPEC_CLASSES: &[(&str, &[&str], bool)] = &[
    ("default", &["+refs/heads/*:refs/remotes/origin/*"], false),
    ("default", &["+refs/heads/*:refs/remotes/origin/*"], false),
    ("nonforced-glob", &["refs/heads/*:refs/remotes/origin/*"], false),
    ("explicit+glob", &["refs/heads/main:refs/remotes/origin/main", "+refs/heads/feat/*:refs/remotes/origin/feat/*"], false),
    // note: git also accepts negative globs (`^refs/heads/feat/*`); gix-refspec rejects those at parse time (not C31's subject)
    ("negative", &["+refs/heads/*:refs/remotes/origin/*", "^refs/heads/dev", "^refs/heads/feat/x", "^refs/heads/topic"], false),
    ("tags-explicit", &["+refs/heads/*:refs/remotes/origin/*", "refs/tags/*:refs/tags/*"], false),
    ("tags-explicit-forced", &["+refs/heads/*:refs/remotes/origin/*", "+refs/tags/*:refs/tags/*"], false),
    ("tags-elsewhere", &["+refs/heads/*:refs/remotes/origin/*", "refs/tags/*:refs/rtags/*"], false),
    ("two-globs", &["refs/heads/*:refs/remotes/origin/*", "+refs/heads/feat/*:refs/remotes/feat/*"], false),
    ("mirror", &["+refs/*:refs/*"], true),
    ("heads-to-heads", &["+refs/heads/*:refs/heads/*"], true),
    ("heads-to-heads-nonforced", &["refs/heads/*:refs/heads/*"], true),
];

struct Plan {
    proto: u8,
    algo: Option<&'static str>,
    setup: Setup,
    tagopt: TagOpt,
    spec_class: &'static str,
    specs: Vec<String>,
    shallow0: Option<u32>,
}

impl Plan {
    fn describe(&self) -> Value {
        json!({"protocol": self.proto, "negotiation": self.algo, "setup": format!("{:?}", self.setup), "tagopt": format!("{:?}", self.tagopt),
               "refspecs": self.specs, "initial_depth": self.shallow0})
    }
    fn overrides(&self) -> Vec<String> {
        let mut v = vec![format!("protocol.version={}", self.proto), "pack.threads=2".to_string(), "gc.auto=0".to_string()];
        if let Some(a) = self.algo {
            v.push(format!("fetch.negotiationAlgorithm={a}"));
        }
        v
    }
}

fn git_dir(path: &Path, bare: bool) -> PathBuf {
    if bare {
        path.to_path_buf()
    } else {
        path.join(".git")
    }
}

fn common_config_text(plan: &Plan) -> String {
    let mut t = String::new();
    let _ = write!(t, "[protocol]\n\tversion = {}\n[pack]\n\tthreads = 2\n[gc]\n\tauto = 0\n", plan.proto);
    if let Some(a) = plan.algo {
        let _ = write!(t, "[fetch]\n\tnegotiationAlgorithm = {a}\n");
    }
    t.push_str("[user]\n\tname = Twin\n\temail = twin@example.com\n");
    t
}

fn init_twin(path: &Path, url: &str, plan: &Plan, bare: bool) -> Result<(), String> {
    git::init(path, bare)?;
    let mut t = common_config_text(plan);
    let _ = write!(t, "[remote \"origin\"]\n\turl = {url}\n");
    for s in &plan.specs {
        let _ = write!(t, "\tfetch = {s}\n");
    }
    match plan.tagopt {
        TagOpt::Default => {}
        TagOpt::NoTags => t.push_str("\ttagOpt = --no-tags\n"),
        TagOpt::AllTags => t.push_str("\ttagOpt = --tags\n"),
    }
    append_config(&git_dir(path, bare), &t)
}

#[derive(Default, Debug)]
struct GixOutcome {
    modes: Vec<String>,
    pack_received: bool,
    rounds: usize,
}

fn collect_outcome(out: &gix::remote::fetch::Outcome) -> GixOutcome {
    use gix::remote::fetch::Status;
    let mut o = GixOutcome::default();
    let upd = match &out.status {
        Status::NoPackReceived { update_refs, negotiate, .. } => {
            o.rounds = negotiate.as_ref().map_or(0, |n| n.rounds.len());
            update_refs
        }
        Status::Change { update_refs, negotiate, .. } => {
            o.pack_received = true;
            o.rounds = negotiate.rounds.len();
            update_refs
        }
    };
    for u in &upd.updates {
        let d = format!("{:?}", u.mode);
        let name: String = d.chars().take_while(|c| c.is_ascii_alphanumeric()).collect();
        o.modes.push(name);
    }
    o
}

/// Calibration hook: `GXV_C31_MUTANT=force-nonff|drop-tag|drop-pack|stale-ref` damages the gitoxide twin after a successful fetch the
/// way a broken implementation would (non-fast-forward accepted without `+`, a followed tag not created, objects of the received
/// pack lost, a ref update not applied). Unset in normal operation.
fn mutate_after_fetch(path: &Path) {
    let Ok(m) = std::env::var("GXV_C31_MUTANT") else { return };
    let bare = !path.join(".git").is_dir();
    let gd = git_dir(path, bare);
    match m.as_str() {
        "force-nonff" => {
            // make every tracking branch equal to the server's value, rejected or not
            if let (Ok(url), Ok(refs)) = (git::ok(path, &["config", "remote.origin.url"]), refs_of(path)) {
                if let Ok(remote) = git::ok(path, &["ls-remote", &url]) {
                    for l in remote.lines() {
                        let mut it = l.split('\t');
                        let (Some(id), Some(name)) = (it.next(), it.next()) else { continue };
                        let Some(short) = name.strip_prefix("refs/heads/") else { continue };
                        for local in [format!("refs/remotes/origin/{short}"), format!("refs/heads/{short}")] {
                            if refs.get(&local).map_or(false, |v| v.0 != id) && git::run(path, &["cat-file", "-e", id]).map(|o| o.ok).unwrap_or(false) {
                                let _ = git::run(path, &["update-ref", &local, id]);
                            }
                        }
                    }
                }
            }
        }
        "drop-tag" => {
            if let Ok(refs) = refs_of(path) {
                if let Some(name) = refs.keys().filter(|n| n.starts_with("refs/tags/")).last() {
                    let _ = git::run(path, &["update-ref", "-d", name]);
                }
            }
        }
        "drop-pack" => {
            if let Ok(rd) = std::fs::read_dir(gd.join("objects/pack")) {
                let mut packs: Vec<PathBuf> = rd.filter_map(|e| e.ok()).map(|e| e.path()).filter(|p| p.extension().map_or(false, |e| e == "pack")).collect();
                packs.sort_by_key(|p| std::fs::metadata(p).and_then(|m| m.modified()).ok());
                if let Some(p) = packs.last() {
                    let _ = std::fs::remove_file(p.with_extension("idx"));
                    let _ = std::fs::remove_file(p);
                }
            }
        }
        "stale-ref" => {
            if let Ok(refs) = refs_of(path) {
                if let Some((name, (id, _))) = refs.iter().find(|(n, _)| n.starts_with("refs/remotes/") || n.starts_with("refs/heads/")) {
                    if let Ok(parent) = git::ok(path, &["rev-parse", "-q", "--verify", &format!("{id}^")]) {
                        let _ = git::run(path, &["update-ref", "--no-deref", name, &parent]);
                    }
                }
            }
        }
        _ => {}
    }
}

fn gix_fetch(path: &Path, shallow: ShallowOp) -> Result<GixOutcome, String> {
    let repo = gix::open_opts(path, gix::open::Options::isolated()).map_err(|e| format!("Open({e:?})"))?;
    let remote = repo.find_remote("origin").map_err(|e| format!("FindRemote({e:?})"))?;
    let con = remote.connect(gix::remote::Direction::Fetch).map_err(|e| format!("Connect({e:?})"))?;
    let prep = con.prepare_fetch(gix::progress::Discard, Default::default()).map_err(|e| format!("PrepareFetch({e:?})"))?;
    let out = prep
        .with_shallow(shallow.to_gix())
        .receive(gix::progress::Discard, &AtomicBool::new(false))
        .map_err(|e| format!("Receive({e:?})"))?;
    let o = collect_outcome(&out);
    drop(out);
    mutate_after_fetch(path);
    Ok(o)
}

fn gix_clone(url: &str, path: &Path, plan: &Plan) -> Result<GixOutcome, String> {
    let bare = plan.setup == Setup::CloneBare;
    let kind = if bare { gix::create::Kind::Bare } else { gix::create::Kind::WithWorktree };
    let mut prep = gix::clone::PrepareFetch::new(
        url,
        path,
        kind,
        gix::create::Options::default(),
        gix::open::Options::isolated().config_overrides(plan.overrides()),
    )
    .map_err(|e| format!("PrepareClone({e:?})"))?;
    if let Some(d) = plan.shallow0 {
        prep = prep.with_shallow(ShallowOp::Depth(d).to_gix());
    }
    let tagopt = plan.tagopt;
    let specs = plan.specs.clone();
    if bare || tagopt != TagOpt::Default {
        prep = prep.configure_remote(move |remote| {
            let mut remote = remote;
            if bare {
                remote.replace_refspecs(specs.iter().map(String::as_str), gix::remote::Direction::Fetch)?;
            }
            Ok(remote.with_fetch_tags(match tagopt {
                TagOpt::NoTags => gix::remote::fetch::Tags::None,
                _ => gix::remote::fetch::Tags::All,
            }))
        });
    }
    let (repo, out) = prep
        .fetch_only(gix::progress::Discard, &AtomicBool::new(false))
        .map_err(|e| format!("CloneFetch({e:?})"))?;
    drop(repo);
    mutate_after_fetch(path);
    Ok(collect_outcome(&out))
}

/// stable class of an error: the CamelCase variant names of its Debug rendering
fn err_class(dbg: &str) -> String {
    let mut out: Vec<String> = Vec::new();
    let b = dbg.as_bytes();
    let mut i = 0;
    let mut in_str = false;
    while i < b.len() && out.len() < 5 {
        if b[i] == b'"' {
            in_str = !in_str;
            i += 1;
            continue;
        }
        if !in_str && b[i].is_ascii_uppercase() && (i == 0 || !(b[i - 1].is_ascii_alphanumeric() || b[i - 1] == b'_')) {
            let s = i;
            while i < b.len() && (b[i].is_ascii_alphanumeric() || b[i] == b'_') {
                i += 1;
            }
            let w = &dbg[s..i];
            if !matches!(w, "Some" | "None" | "Os" | "Custom" | "Sha1") {
                out.push(w.to_string());
            }
            continue;
        }
        i += 1;
    }
    out.join("/")
}

// ------------------------------------------------------------------ comparison

type RefMapT = BTreeMap<String, (String, String)>;

fn refs_of(path: &Path) -> Result<RefMapT, String> {
    let out = git::ok(path, &["for-each-ref", "--format=%(refname)%09%(objectname)%09%(symref)"])?;
    let mut m = BTreeMap::new();
    for l in out.lines() {
        let mut f: Vec<&str> = l.split('\t').collect();
        if f.len() == 2 {
            f.push(""); // trailing empty %(symref) trimmed away
        }
        if f.len() != 3 {
            return Err(format!("for-each-ref line {l:?}"));
        }
        m.insert(f[0].to_string(), (f[1].to_string(), f[2].to_string()));
    }
    Ok(m)
}

fn head_of(path: &Path) -> Result<(Option<String>, Option<String>), String> {
    let sym = git::run(path, &["symbolic-ref", "-q", "HEAD"]).map_err(|e| e.to_string())?;
    let rp = git::run(path, &["rev-parse", "-q", "--verify", "HEAD"]).map_err(|e| e.to_string())?;
    Ok((if rp.ok { Some(rp.text()) } else { None }, if sym.ok { Some(sym.text()) } else { None }))
}

fn shallow_of(gitdir: &Path) -> BTreeSet<String> {
    std::fs::read_to_string(gitdir.join("shallow")).map(|s| s.lines().map(|l| l.trim().to_string()).filter(|l| !l.is_empty()).collect()).unwrap_or_default()
}

fn namespace_of(name: &str) -> &'static str {
    if name.starts_with("refs/tags/") {
        "tag"
    } else if name.starts_with("refs/remotes/") {
        "tracking"
    } else if name.starts_with("refs/heads/") {
        "head"
    } else {
        "other"
    }
}

/// Post-mortem aid: with `GXV_C31_KEEP=<dir>` the server and both twins are copied there when a step fails or the shallow
/// boundaries differ.
fn keep(s: &StepCtx, tag: &str) {
    let Ok(dir) = std::env::var("GXV_C31_KEEP") else { return };
    let n = std::fs::read_dir(&dir).map(|d| d.count()).unwrap_or(0);
    let dst = PathBuf::from(dir).join(format!("{n:03}-{tag}"));
    let _ = std::fs::create_dir_all(&dst);
    for (name, p) in [("srv", s.srv.path.as_path()), ("a", s.a), ("b", s.b)] {
        let _ = std::process::Command::new("/bin/cp").arg("-r").arg(p).arg(dst.join(name)).status();
    }
    let _ = std::fs::write(dst.join("info.json"), serde_json::to_vec_pretty(&json!({"plan": s.plan.describe(), "step": s.step, "server_log": s.srv.log, "gix_modes": s.gix.modes, "git_stderr": s.git_stderr})).unwrap_or_default());
}

struct StepCtx<'a> {
    plan: &'a Plan,
    step: String,
    op_class: &'static str,
    srv: &'a Srv,
    a: &'a Path,
    b: &'a Path,
    bare: bool,
    gix: &'a GixOutcome,
    git_stderr: String,
    /// step 0 with a depth
    initial_with_depth: bool,
    /// commits pointed to by server tags that the gitoxide twin had before this step
    pre_present: &'a BTreeSet<String>,
    /// scenario of the `shallow-evolve` class
    evolve: bool,
    /// the shallow operation of this step
    op: ShallowOp,
    /// contents of the shallow files (gitoxide's twin, git's twin) before this step; None for the initial step
    pre_shallow: Option<(BTreeSet<String>, BTreeSet<String>)>,
}

impl StepCtx<'_> {
    /// `<op>-into-<state of gitoxide's twin before the step>`
    fn op_into(&self) -> String {
        let what = if self.op_class == "clone" {
            "clone"
        } else {
            match self.op {
                ShallowOp::NoChange => "plain-fetch",
                ShallowOp::Depth(_) => "depth-fetch",
                ShallowOp::Deepen(_) => "deepen-fetch",
                ShallowOp::Unshallow => "unshallow-fetch",
            }
        };
        let into = match &self.pre_shallow {
            None => "empty",
            Some((a, _)) if a.is_empty() => "complete",
            Some(_) => "shallow",
        };
        format!("{what}-into-{into}")
    }
}

/// which of `ids` exist in the repository at `path` (one `cat-file --batch-check`)
fn present_objects(path: &Path, ids: &BTreeSet<String>) -> BTreeSet<String> {
    if ids.is_empty() {
        return BTreeSet::new();
    }
    let input: String = ids.iter().map(|i| format!("{i}\n")).collect();
    match git::run_in(path, &["cat-file", "--batch-check=%(objectname) %(objecttype)"], input.as_bytes()) {
        Ok(o) if o.ok => o.text().lines().filter(|l| !l.ends_with(" missing")).filter_map(|l| l.split(' ').next().map(|s| s.to_string())).collect(),
        _ => BTreeSet::new(),
    }
}

/// returns true if everything held
fn compare(ctx: &mut Ctx, s: &StepCtx, check_head: bool) -> bool {
    let mut ok = true;
    let witness = |detail: Value| {
        json!({
            "plan": s.plan.describe(), "step": s.step, "detail": detail, "server_log": s.srv.log, "server_commit_times_skewed": s.srv.skewed,
            "gix_update_modes": s.gix.modes, "git_fetch_stderr": s.git_stderr.chars().take(1500).collect::<String>(),
        })
    };
    // ---- objects
    match git::run(s.a, &["fsck", "--no-dangling", "--no-progress"]) {
        Ok(o) => {
            ctx.count("git_fsck_runs");
            let text = format!("{}\n{}", o.text(), o.err_text());
            let bad: Vec<&str> = text
                .lines()
                .filter(|l| {
                    let l = l.to_ascii_lowercase();
                    l.contains("missing") || l.contains("broken") || l.contains("corrupt") || l.starts_with("error") || l.starts_with("fatal")
                })
                .collect();
            if !o.ok || !bad.is_empty() {
                // make sure fsck is usable at all on the git twin, else it is our setup
                let ob = git::run(s.b, &["fsck", "--no-dangling", "--no-progress"]);
                if matches!(ob, Ok(ref x) if x.ok) {
                    let class = bad
                        .first()
                        .map(|l| {
                            let l = l.to_ascii_lowercase();
                            if l.contains("missing") {
                                "missing"
                            } else if l.contains("broken") {
                                "broken-link"
                            } else if l.contains("corrupt") {
                                "corrupt"
                            } else {
                                "error"
                            }
                        })
                        .unwrap_or("nonzero-exit");
                    if s.evolve && matches!(class, "missing" | "broken-link") {
                        ctx.violation(
                            &format!("connectivity|missing-objects-after-{}", s.op_into()),
                            "objects reachable from the refs are missing after the step performed by gitoxide (git fsck: broken link/missing), while the twin \
                             driven by git with the same commands is connected",
                            witness(json!({"fsck": text.lines().take(20).collect::<Vec<_>>(), "shallow_before": s.pre_shallow.as_ref().map(|p| &p.0),
                                           "shallow_after": shallow_of(&git_dir(s.a, s.bare))})),
                        );
                    } else {
                        ctx.violation(
                            &format!("fsck|{}|{}|shallow-{}", s.op_class, class, if shallow_of(&git_dir(s.a, s.bare)).is_empty() { "no" } else { "yes" }),
                            "git fsck reports problems in the repository fetched by gitoxide (and none in the git twin)",
                            witness(json!({"fsck": text.lines().take(20).collect::<Vec<_>>()})),
                        );
                    }
                    ok = false;
                } else {
                    ctx.count("fsck_fails_on_git_twin_too");
                    ctx.inconclusive("git fsck fails on the twin fetched by git as well; scenario skipped");
                    return false;
                }
            }
        }
        Err(e) => {
            ctx.inconclusive(&format!("git fsck spawn failed: {e}"));
            return false;
        }
    }
    // ---- refs
    let (ra, rb) = match (refs_of(s.a), refs_of(s.b)) {
        (Ok(a), Ok(b)) => (a, b),
        _ => {
            ctx.inconclusive("for-each-ref failed");
            return false;
        }
    };
    ctx.count_n("refs_compared", rb.len() as u64);
    let names: BTreeSet<&String> = ra.keys().chain(rb.keys()).collect();
    for name in names {
        // implicit clone-only extra of gitoxide when cloning bare (git does not create it for --bare)
        if s.plan.setup == Setup::CloneBare && name == "refs/remotes/origin/HEAD" {
            ctx.count("bare_clone_origin_head_ignored");
            continue;
        }
        let ns = namespace_of(name);
        let tag_kind = |srv: &Srv| -> &'static str {
            name.strip_prefix("refs/tags/").and_then(|t| srv.tags.get(t)).map_or("", |t| if t.annotated { "-annotated" } else { "-light" })
        };
        match (ra.get(name), rb.get(name)) {
            (Some(a), Some(b)) => {
                if a.0 != b.0 {
                    let anc = |x: &str, y: &str| git::run(s.b, &["merge-base", "--is-ancestor", x, y]).map(|o| o.ok).unwrap_or(false);
                    let relation = if ns == "tag" {
                        "tag"
                    } else if anc(&a.0, &b.0) {
                        // git moved the ref forward, gitoxide kept an ancestor
                        if s.srv.skewed { "fast-forward-not-applied|commit-times-skewed" } else { "fast-forward-not-applied" }
                    } else if anc(&b.0, &a.0) {
                        "gitoxide-ahead-of-git"
                    } else {
                        "diverged"
                    };
                    ctx.violation(
                        &if relation.starts_with("fast-forward-not-applied") {
                            format!("refs|{}|{}-differs|{}", s.op_class, ns, relation)
                        } else {
                            format!("refs|{}|{}-differs{}|{}|{}", s.op_class, ns, tag_kind(s.srv), relation, s.plan.spec_class)
                        },
                        "a local ref points to a different object than after the same fetch by git",
                        witness(json!({"ref": name, "gitoxide": a, "git": b})),
                    );
                    ok = false;
                } else if a.1 != b.1 {
                    ctx.count("symref_materialised");
                }
            }
            (None, Some(b)) => {
                // classify: is the object the ref should point to present in A?
                let present = git::run(s.a, &["cat-file", "-e", &b.0]).map(|o| o.ok).unwrap_or(false);
                let tag_target = name.strip_prefix("refs/tags/").and_then(|t| s.srv.tags.get(t)).map(|t| t.commit.clone());
                let tag_target_class = match &tag_target {
                    Some(c) if s.pre_present.contains(c) => "present-before",
                    Some(c) if git::run(s.a, &["cat-file", "-e", c]).map(|o| o.ok).unwrap_or(false) => "received-now",
                    _ => "absent",
                };
                let sig = if ns == "tag" {
                    format!(
                        "refs|{}|tag-missing{}|object-{}|target-{}|tagopt-{:?}",
                        s.op_class,
                        tag_kind(s.srv),
                        if present { "present" } else { "absent" },
                        tag_target_class,
                        s.plan.tagopt
                    )
                } else {
                    format!("refs|{}|{}-missing|object-{}|{}", s.op_class, ns, if present { "present" } else { "absent" }, s.plan.spec_class)
                };
                ctx.violation(
                    &sig,
                    "git fetch creates/keeps a ref that is absent after the same fetch by gitoxide",
                    witness(json!({"ref": name, "git": b, "object_present_in_gitoxide_twin": present})),
                );
                ok = false;
            }
            (Some(a), None) => {
                let sig = if name == "refs/remotes/origin/HEAD" {
                    format!("refs|{}|origin-HEAD-extra|remote-head-{}", s.op_class, if a.1.is_empty() { "direct" } else { "symbolic" })
                } else {
                    format!("refs|{}|{}-extra{}|{}", s.op_class, ns, tag_kind(s.srv), s.plan.spec_class)
                };
                ctx.violation(
                    &sig,
                    "gitoxide creates/keeps a ref that is absent after the same fetch by git",
                    witness(json!({"ref": name, "gitoxide": a})),
                );
                ok = false;
            }
            (None, None) => {}
        }
    }
    if check_head {
        match (head_of(s.a), head_of(s.b)) {
            (Ok(ha), Ok(hb)) => {
                ctx.count("clone_heads_compared");
                if ha.0.is_none() && hb.0.is_none() {
                    ctx.count("clone_head_unborn_both");
                } else if ha != hb {
                    let class = match (&ha.0, &hb.0) {
                        (Some(x), Some(y)) if x == y => "same-id-different-attachment",
                        (Some(_), Some(_)) => "different-id",
                        (None, Some(_)) => "unborn-in-gitoxide",
                        _ => "unborn-in-git",
                    };
                    ctx.violation(
                        &format!("clone-head|{}|{}", class, if s.plan.proto == 2 { "v2" } else { "v0v1" }),
                        "HEAD after clone differs from git clone",
                        witness(json!({"gitoxide": format!("{ha:?}"), "git": format!("{hb:?}")})),
                    );
                    ok = false;
                }
            }
            _ => ctx.inconclusive("reading HEAD failed"),
        }
    }
    // ---- shallow boundary: diagnostic only
    let (sa, sb) = (shallow_of(&git_dir(s.a, s.bare)), shallow_of(&git_dir(s.b, s.bare)));
    if !sa.is_empty() || !sb.is_empty() {
        ctx.count("shallow_states_seen");
        if sa != sb {
            ctx.count("shallow_boundary_differs_from_git");
            let key = format!("shallow_diff_example_{}", ctx.counter("shallow_boundary_differs_from_git").min(4));
            ctx.note(&key, json!({"plan": s.plan.describe(), "step": s.step, "gitoxide": sa, "git": sb, "server_log": s.srv.log}));
            keep(s, "shallow");
            if s.initial_with_depth {
                // nothing local yet: the boundary is a function of the requested depth and the wanted tips alone
                let class = match (sa.is_empty(), sb.is_empty()) {
                    (true, false) => "not-shallow-at-all",
                    (false, true) => "shallow-but-git-complete",
                    _ => "different-boundary",
                };
                ctx.violation(
                    &format!("shallow|initial-depth|{}|{}", class, if s.plan.proto == 2 { "v2" } else { "v0v1" }),
                    "a depth-limited clone/fetch into an empty repository does not end with the shallow boundary git ends with",
                    witness(json!({"gitoxide_shallow": sa, "git_shallow": sb})),
                );
                ok = false;
            } else if std::env::var("GXV_C31_STRICT_SHALLOW").is_ok() {
                // investigation aid only: not part of the property statement
                ctx.violation(&format!("diagnostic-shallow-boundary|{}", s.op_class), "shallow boundary differs from git's twin", witness(json!({"gitoxide": sa, "git": sb})));
            }
        }
    }
    // ---- shallow file: rules that do not depend on which tips a client re-requests
    if let Some((pa, pb)) = &s.pre_shallow {
        if s.op == ShallowOp::NoChange && (!pa.is_empty() || !pb.is_empty()) {
            ctx.count("shallow_plain_fetch_boundary_checks");
            if *pb == sb && *pa != sa {
                // without deepen arguments a complete server sends no shallow-info: nothing may be written
                let class = if sa.is_empty() {
                    "emptied"
                } else if sa.is_superset(pa) {
                    "grew"
                } else if sa.is_subset(pa) {
                    "shrank"
                } else {
                    "changed"
                };
                ctx.violation(
                    &format!("shallow|plain-fetch-changed-boundary|{class}"),
                    "a fetch without depth arguments changed gitoxide's shallow file (git's twin keeps it: the server sends no shallow updates for such a fetch)",
                    witness(json!({"gitoxide_before": pa, "gitoxide_after": sa, "git_before_and_after": sb})),
                );
                ok = false;
            }
        }
        if s.op == ShallowOp::Unshallow && !sa.is_empty() && matches!(s.plan.spec_class, "default" | "mirror" | "heads-to-heads" | "tags-explicit" | "tags-explicit-forced") {
            ctx.count("shallow_unshallow_leftover_checks");
            for x in sa.iter().filter(|x| !sb.contains(*x)) {
                // every server branch is wanted with infinite depth: a boundary commit within their history must have been reported as `unshallow`
                match git::run(&s.srv.path, &["for-each-ref", "--format=%(refname)", "--contains", x, "refs/heads"]) {
                    Ok(o) if o.ok && !o.text().trim().is_empty() => {
                        ctx.violation(
                            &format!("shallow|unshallow-left-reachable-boundary|{}", if s.plan.proto == 2 { "v2" } else { "v0v1" }),
                            "after an unshallow fetch gitoxide's shallow file still lists a commit in the history of a fetched server branch (git's twin does not)",
                            witness(json!({"entry": x, "server_branches_containing_it": o.text().lines().take(5).collect::<Vec<_>>(), "gitoxide_shallow": sa, "git_shallow": sb})),
                        );
                        ok = false;
                        break;
                    }
                    _ => {}
                }
            }
        }
    }
    if !sa.is_empty() {
        // every boundary entry must name a commit that is present (also tells whether history below the boundary has arrived: root)
        let root = s.srv.commits.first().cloned().unwrap_or_default();
        let input: String = sa.iter().chain(std::iter::once(&root)).map(|i| format!("{i}\n")).collect();
        if let Ok(o) = git::run_in(s.a, &["cat-file", "--batch-check=%(objectname) %(objecttype)"], input.as_bytes()) {
            if o.ok {
                ctx.count("shallow_entry_checks");
                let text = o.text();
                let types: HashMap<&str, &str> = text.lines().filter_map(|l| l.split_once(' ')).collect();
                if s.evolve && types.get(root.as_str()) == Some(&"commit") && !sa.contains(&root) {
                    ctx.count("evolve_shallow_twin_holds_root_commit");
                }
                if let Some(bad) = sa.iter().find(|x| types.get(x.as_str()) != Some(&"commit")) {
                    let b_ok = sb.iter().all(|x| git::run(s.b, &["cat-file", "-e", &format!("{x}^{{commit}}")]).map(|o| o.ok).unwrap_or(false));
                    if b_ok {
                        ctx.violation(
                            &format!("shallow|entry-not-a-present-commit|{}", s.op_into()),
                            "gitoxide's shallow file lists an id that is not a commit present in the repository",
                            witness(json!({"entry": bad, "cat_file": types.get(bad.as_str()), "gitoxide_shallow": sa, "git_shallow": sb})),
                        );
                        ok = false;
                    } else {
                        ctx.count("shallow_entry_absent_in_git_twin_too");
                    }
                }
            }
        }
    }
    if !ok {
        keep(s, "violation");
    }
    ok
}

fn git_fetch(ctx: &mut Ctx, b: &Path, op: ShallowOp) -> Option<String> {
    let mut args: Vec<String> = vec!["fetch".into(), "--no-write-fetch-head".into(), "--no-auto-maintenance".into()];
    args.extend(op.git_args());
    args.push("origin".into());
    match git::run(b, &args) {
        Ok(o) => {
            ctx.count("git_fetch_runs");
            let err = o.err_text();
            if o.ok {
                Some(err)
            } else if o.code == Some(1) && (err.contains("[rejected]") || err.contains("! ")) {
                ctx.count("git_fetch_with_rejections");
                Some(err)
            } else {
                ctx.count("git_fetch_fatal");
                ctx.note("last_git_fetch_fatal", json!(err.chars().take(300).collect::<String>()));
                None
            }
        }
        Err(_) => None,
    }
}

pub fn run(ctx: &mut Ctx) {
    hermetic_env();
    ctx.rule(
        "case = scenario (server DAG; setup clone-worktree|clone-bare|init-bare|init-worktree; protocol 0|1|2; negotiation default|consecutive|skipping|noop; \
         refspec class; tagOpt default|--no-tags|--tags; initial depth) followed by 1..4 server update rounds each fetched by both twins with a shallow \
         operation (nochange|depth|deepen|unshallow); one evaluation = one fsck + ref comparison after a clone/fetch step; \
         distinct = (protocol, setup, refspec class, tagOpt, shallow op, shallow state, update-kind bitmask of the round). \
         Class shallow-evolve (first, 45% of the budget): tiny trunk history, client starts depth-limited (1..3), 4..6 rounds in which the server gains \
         history attached to OLD commits (branches forked off them, side branches merged into tracked branches, tags) fetched mostly without depth \
         arguments; distinct additionally carries the class and the initial depth",
    );
    ctx.assume("git 2.39.5 fetch/clone with identical configuration is the reference; rounds after which git itself fails fatally are skipped");
    let quick = ctx.quick();
    // directed class first, with a share of the soft budget (workload bound only; a replayed case always runs)
    let budget_s: f64 = std::env::var("GXV_BUDGET_S").ok().and_then(|s| s.parse().ok()).unwrap_or(if quick { 60.0 } else { 600.0 });
    let share = budget_s * 0.45;
    let n_evolve = ctx.n(16, 250);
    ctx.cases("shallow-evolve", n_evolve, |ctx, r| {
        if ctx.elapsed() > share {
            ctx.count("evolve_scenarios_not_started_budget_share_used");
            return;
        }
        ctx.count("evolve_scenarios");
        scenario(ctx, r, quick, true);
    });
    let n = ctx.n(22, 400);
    ctx.cases("scenario", n, |ctx, r| scenario(ctx, r, quick, false));
}

/// one scenario; `evolve`: the directed class (tiny history, depth-limited start, server history attaching to old commits)
fn scenario(ctx: &mut Ctx, r: &mut Rng, quick: bool, evolve: bool) {
    {
        let srv_dir = ctx.dir("srv");
        let a = ctx.dir("a");
        let b = ctx.dir("b");
        // clone wants non-existing destinations
        let _ = std::fs::remove_dir_all(&a);
        let _ = std::fs::remove_dir_all(&b);
        let built = if evolve { Srv::build_small(&srv_dir, r) } else { Srv::build(&srv_dir, r, quick) };
        let mut srv = match built {
            Ok(s) => s,
            Err(e) => {
                ctx.count("setup_failed");
                ctx.inconclusive(&format!("server setup failed: {}", e.chars().take(200).collect::<String>()));
                return;
            }
        };
        let url = format!("file://{}", srv_dir.display());
        // ---- plan
        let setup = *r.pick(&[Setup::CloneWorktree, Setup::CloneWorktree, Setup::CloneBare, Setup::InitBare, Setup::InitBare, Setup::InitWorktree]);
        let bare = matches!(setup, Setup::CloneBare | Setup::InitBare);
        let (spec_class, specs): (&'static str, Vec<String>) = match setup {
            Setup::CloneWorktree => ("default", vec!["+refs/heads/*:refs/remotes/origin/*".into()]),
            Setup::CloneBare => ("heads-to-heads", vec!["+refs/heads/*:refs/heads/*".into()]),
            _ => loop {
                let c = r.pick(SPEC_CLASSES);
                // evolve: all-forced refspecs only (later depth/deepen requests are part of the class)
                if (!c.2 || bare) && (!evolve || c.1.iter().all(|s| s.starts_with('+') || s.starts_with('^'))) {
                    break (c.0, c.1.iter().map(|s| s.to_string()).collect());
                }
            },
        };
        let mut tagopt = *r.pick(&[TagOpt::Default, TagOpt::Default, TagOpt::Default, TagOpt::NoTags, TagOpt::AllTags]);
        if spec_class == "negative" && tagopt == TagOpt::Default {
            // git quirk kept out of the domain: auto-following looks at the tips *before* negative refspecs are applied, so git 2.39
            // follows (and downloads the history of) a tag that points at the tip of an excluded branch.
            ctx.count("negative_refspec_autofollow_quirk_avoided");
            tagopt = if r.bool() { TagOpt::NoTags } else { TagOpt::AllTags };
        }
        let plan = Plan {
            proto: if evolve { *r.pick(&[0u8, 1, 1, 2, 2, 2]) } else { *r.pick(&[0u8, 1, 2, 2, 2]) },
            algo: if evolve {
                *r.pick(&[None, None, None, Some("consecutive"), Some("skipping"), Some("noop")])
            } else {
                *r.pick(&[None, None, Some("consecutive"), Some("skipping"), Some("noop")])
            },
            setup,
            tagopt,
            spec_class,
            specs,
            shallow0: if evolve || r.chance(1, 4) { Some(1 + r.below(3) as u32) } else { None },
        };
        // server HEAD variety matters for clones only
        if !evolve && matches!(setup, Setup::CloneWorktree | Setup::CloneBare) {
            match r.below(8) {
                0 => {
                    // not at a branch tip: without the symref capability git guesses a branch with the same id and attaches HEAD to it
                    let c = r.pick(&srv.commits).clone();
                    if srv.branches.values().any(|t| *t == c) {
                        ctx.count("detached_head_at_branch_tip_avoided");
                    } else if std::fs::write(srv.path.join("HEAD"), format!("{c}\n")).is_ok() {
                        srv.log.push(format!("HEAD detached at {}", &c[..8]));
                    }
                }
                1 => {
                    if let Some(bn) = srv.branches.keys().last().cloned() {
                        if std::fs::write(srv.path.join("HEAD"), format!("ref: refs/heads/{bn}\n")).is_ok() {
                            srv.log.push(format!("HEAD -> refs/heads/{bn}"));
                        }
                    }
                }
                _ => {}
            }
        }
        if !evolve && r.chance(1, 6) && std::fs::write(srv.path.join("refs/heads/sym"), "ref: refs/heads/main\n").is_ok() {
            srv.log.push("symbolic-ref refs/heads/sym refs/heads/main".into());
        }
        if evolve {
            ctx.count(&format!("evolve_setup_{setup:?}"));
            ctx.count(&format!("evolve_protocol_v{}", plan.proto));
            ctx.count(&format!("evolve_initial_depth_{}", plan.shallow0.unwrap_or(0)));
        }
        ctx.count(&format!("setup_{setup:?}"));
        ctx.count(&format!("protocol_v{}", plan.proto));
        ctx.count(&format!("negotiation_{}", plan.algo.unwrap_or("default")));
        ctx.count(&format!("refspec_class_{}", plan.spec_class));

        // ---- step 0
        let step0_op = plan.shallow0.map_or(ShallowOp::NoChange, ShallowOp::Depth);
        let (gix_res, git_err): (Result<GixOutcome, crate::fw::PanicInfo>, Option<String>);
        let gix_inner: Result<GixOutcome, String>;
        match setup {
            Setup::CloneWorktree | Setup::CloneBare => {
                let mut args: Vec<String> = vec!["clone".into(), "-q".into()];
                for kv in plan.overrides() {
                    args.push("-c".into());
                    args.push(kv);
                }
                if bare {
                    args.push("--bare".into());
                } else {
                    args.push("--no-checkout".into());
                }
                if let Some(d) = plan.shallow0 {
                    args.push(format!("--depth={d}"));
                    args.push("--no-single-branch".into());
                }
                if plan.tagopt == TagOpt::NoTags {
                    args.push("--no-tags".into());
                }
                args.push(url.clone());
                args.push(b.display().to_string());
                git_err = match git::run(&srv_dir, &args) {
                    Ok(o) if o.ok => Some(o.err_text()),
                    Ok(o) => {
                        ctx.note("last_git_clone_failure", json!(o.err_text().chars().take(300).collect::<String>()));
                        None
                    }
                    Err(_) => None,
                };
                ctx.count("git_clone_runs");
                let r0 = guard(|| gix_clone(&url, &a, &plan));
                match r0 {
                    Ok(inner) => {
                        gix_inner = inner;
                        gix_res = Ok(GixOutcome::default());
                    }
                    Err(p) => {
                        gix_inner = Err("panic".into());
                        gix_res = Err(p);
                    }
                }
                if git_err.is_some() && gix_inner.is_ok() {
                    // `configure_remote()` persists the tag mode we had to set for the clone itself; git clone persists nothing for the default
                    if bare && plan.tagopt == TagOpt::Default {
                        let cfg = git_dir(&a, bare).join("config");
                        if let Ok(t) = std::fs::read_to_string(&cfg) {
                            let filtered: String = t.lines().filter(|l| l.trim() != "tagOpt = --tags").map(|l| format!("{l}\n")).collect();
                            if filtered.len() != t.len() {
                                ctx.count("bare_clone_persisted_tagopt_removed");
                            }
                            let _ = std::fs::write(&cfg, filtered);
                        }
                    }
                    // later rounds: identical explicit configuration on both twins
                    let want: BTreeSet<String> = plan.specs.iter().cloned().collect();
                    for p in [&a, &b] {
                        let gd = git_dir(p, bare);
                        let mut t = common_config_text(&plan);
                        let have = fetch_lines(&gd);
                        if have != want {
                            if have.is_empty() {
                                // git clone --bare writes no fetch refspec
                                ctx.count("clone_wrote_no_refspec_added");
                                t.push_str("[remote \"origin\"]\n");
                                for s in &plan.specs {
                                    let _ = write!(t, "\tfetch = {s}\n");
                                }
                            } else {
                                ctx.count("clone_config_refspecs_unexpected");
                                ctx.note("unexpected_clone_refspecs", json!(have));
                            }
                        }
                        if plan.tagopt == TagOpt::AllTags {
                            t.push_str("[remote \"origin\"]\n\ttagOpt = --tags\n");
                        }
                        let _ = append_config(&gd, &t);
                    }
                }
            }
            Setup::InitBare | Setup::InitWorktree => {
                if let Err(e) = init_twin(&a, &url, &plan, bare).and_then(|_| init_twin(&b, &url, &plan, bare)) {
                    ctx.inconclusive(&format!("twin init failed: {e}"));
                    return;
                }
                git_err = git_fetch(ctx, &b, step0_op);
                let r0 = guard(|| gix_fetch(&a, step0_op));
                match r0 {
                    Ok(inner) => {
                        gix_inner = inner;
                        gix_res = Ok(GixOutcome::default());
                    }
                    Err(p) => {
                        gix_inner = Err("panic".into());
                        gix_res = Err(p);
                    }
                }
            }
        }
        let is_clone = matches!(setup, Setup::CloneWorktree | Setup::CloneBare);
        let op_class0: &'static str = if is_clone { "clone" } else { "fetch" };
        let Some(git_err0) = git_err else {
            ctx.count("git_step0_failed_scenario_skipped");
            return;
        };
        if let Err(p) = gix_res {
            ctx.panic_violation(if is_clone { "clone::PrepareFetch::fetch_only" } else { "fetch::Prepare::receive" }, &p, op_class0, json!({"plan": plan.describe(), "server_log": srv.log}));
            return;
        }
        ctx.eval();
        let shape0 = (plan.proto, setup, plan.spec_class, plan.tagopt, step0_op.class(), plan.algo);
        if evolve {
            ctx.distinct((shape0, "step0-evolve", plan.shallow0));
        } else {
            ctx.distinct((shape0, "step0"));
        }
        let out0 = match gix_inner {
            Ok(o) => o,
            Err(e) => {
                ctx.violation(
                    &format!("{}-error|{}|{}|{}", op_class0, err_class(&e), plan.spec_class, step0_op.class()),
                    "gitoxide fails where git succeeds with the same configuration",
                    json!({"plan": plan.describe(), "step": "initial", "error": e.chars().take(600).collect::<String>(), "server_log": srv.log}),
                );
                return;
            }
        };
        for m in &out0.modes {
            ctx.count(&format!("gix_update_{m}"));
        }
        if out0.pack_received {
            ctx.count("gix_packs_received");
        }
        ctx.count_n("gix_negotiation_rounds", out0.rounds as u64);
        {
            let s = StepCtx { plan: &plan, step: format!("initial {op_class0} ({})", step0_op.class()), op_class: op_class0, srv: &srv, a: &a, b: &b, bare, gix: &out0, git_stderr: git_err0, initial_with_depth: plan.shallow0.is_some(), pre_present: &BTreeSet::new(), evolve, op: step0_op, pre_shallow: None };
            if !compare(ctx, &s, is_clone) {
                return;
            }
            if ctx.want_sample() {
                ctx.sample(json!({"plan": plan.describe(), "step": s.step, "refs": refs_of(&a).map(|m| m.len()).unwrap_or(0), "gix_modes": out0.modes}));
            }
        }

        // ---- update rounds
        let rounds = if evolve { 4 + r.usize(3) } else { 1 + r.usize(4) };
        for round in 1..=rounds {
            let updated = if evolve && !r.chance(1, 5) { srv.evolve(r) } else { srv.mutate(r) };
            let kinds = match updated {
                Ok(k) => k,
                Err(e) => {
                    ctx.inconclusive(&format!("server update failed: {}", e.chars().take(200).collect::<String>()));
                    return;
                }
            };
            let pre_shallow = (shallow_of(&git_dir(&a, bare)), shallow_of(&git_dir(&b, bare)));
            let b_shallow = !pre_shallow.1.is_empty();
            let a_shallow = !pre_shallow.0.is_empty();
            if evolve && plan.tagopt == TagOpt::Default && pre_shallow.0 != pre_shallow.1 {
                // which tags are followed depends on which old commits are present: not comparable any more
                ctx.count("evolve_stopped_boundaries_differ_with_tag_following");
                return;
            }
            if a_shallow != b_shallow {
                // would make --unshallow fatal on one side only; reported through the diagnostics counter, stop here
                ctx.count("twins_disagree_on_being_shallow");
                ctx.note("twins_disagree_on_being_shallow_example", json!({"plan": plan.describe(), "before_round": round, "gitoxide_shallow": a_shallow, "git_shallow": b_shallow, "server_log": srv.log}));
                return;
            }
            // git re-requests only changed tips, gitoxide all of them, so after a depth/deepen request the two (correct) boundaries may
            // differ, and with them git's fast-forward decisions on truncated history: such requests only with all-forced refspecs.
            let all_forced = plan.specs.iter().all(|s| s.starts_with('+') || s.starts_with('^'));
            let op = if evolve {
                // mostly ordinary fetches: the server learns the boundary from `shallow` lines alone
                let boundary_ops = plan.tagopt != TagOpt::Default;
                if !b_shallow {
                    if boundary_ops && r.chance(1, 5) {
                        ShallowOp::Depth(1 + r.below(3) as u32)
                    } else {
                        ShallowOp::NoChange
                    }
                } else {
                    match r.below(10) {
                        0..=5 => ShallowOp::NoChange,
                        6 if boundary_ops => ShallowOp::Deepen(1 + r.below(2) as u32),
                        7 if boundary_ops => ShallowOp::Depth(1 + r.below(4) as u32),
                        8 if round >= 3 => ShallowOp::Unshallow,
                        _ => ShallowOp::NoChange,
                    }
                }
            } else if !all_forced {
                if b_shallow && r.chance(1, 6) {
                    ShallowOp::Unshallow
                } else {
                    ShallowOp::NoChange
                }
            } else if b_shallow {
                match r.below(8) {
                    0..=3 => ShallowOp::NoChange,
                    4 => ShallowOp::Deepen(1 + r.below(2) as u32),
                    5 | 6 => ShallowOp::Depth(1 + r.below(4) as u32),
                    _ => ShallowOp::Unshallow,
                }
            } else if r.chance(1, 8) {
                ShallowOp::Depth(1 + r.below(3) as u32)
            } else {
                ShallowOp::NoChange
            };
            ctx.count(&format!("fetch_op_{}", op.class()));
            if evolve {
                ctx.count(&format!("evolve_fetch_{}_into_{}", op.class(), if a_shallow { "shallow" } else { "complete" }));
                if a_shallow && op == ShallowOp::NoChange && kinds & (K_FORK_OLD | K_MERGE_OLD | K_TAG_OLD) != 0 {
                    ctx.count("evolve_plain_fetch_into_shallow_after_old_history_update");
                }
            }
            let Some(git_stderr) = git_fetch(ctx, &b, op) else {
                ctx.count("git_fetch_failed_round_skipped");
                return;
            };
            let tag_commits: BTreeSet<String> = srv.tags.values().map(|t| t.commit.clone()).collect();
            let pre_present = present_objects(&a, &tag_commits);
            let res = guard(|| gix_fetch(&a, op));
            ctx.eval();
            if evolve {
                ctx.distinct((plan.proto, setup, plan.spec_class, plan.tagopt, op.class(), b_shallow, kinds, "evolve", plan.shallow0));
            } else {
                ctx.distinct((plan.proto, setup, plan.spec_class, plan.tagopt, op.class(), b_shallow, kinds));
            }
            let out = match res {
                Err(p) => {
                    ctx.panic_violation(
                        "fetch::Prepare::receive",
                        &p,
                        &format!("fetch-{}-{}", if a_shallow { "shallow-repo" } else { "complete-repo" }, plan.algo.unwrap_or("default")),
                        json!({"plan": plan.describe(), "server_log": srv.log, "round": round, "op": format!("{op:?}"), "twin_shallow_before": a_shallow,
                               "shallow_file": shallow_of(&git_dir(&a, bare)), "panic": p.message}),
                    );
                    return;
                }
                Ok(Err(e)) => {
                    ctx.violation(
                        &format!("fetch-error|{}|{}|{}", err_class(&e), plan.spec_class, op.class()),
                        "gitoxide fails where git succeeds with the same configuration",
                        json!({"plan": plan.describe(), "step": format!("round {round}"), "error": e.chars().take(600).collect::<String>(), "server_log": srv.log, "git_fetch_stderr": git_stderr}),
                    );
                    return;
                }
                Ok(Ok(o)) => o,
            };
            for m in &out.modes {
                ctx.count(&format!("gix_update_{m}"));
            }
            if out.pack_received {
                ctx.count("gix_packs_received");
            }
            ctx.count_n("gix_negotiation_rounds", out.rounds as u64);
            let s = StepCtx {
                plan: &plan,
                step: format!("round {round} fetch ({op:?}), kinds {kinds:#x}"),
                op_class: "fetch",
                srv: &srv,
                a: &a,
                b: &b,
                bare,
                gix: &out,
                git_stderr,
                initial_with_depth: false,
                pre_present: &pre_present,
                evolve,
                op,
                pre_shallow: Some(pre_shallow),
            };
            if !compare(ctx, &s, false) {
                return;
            }
            if ctx.want_sample() {
                ctx.sample(json!({"plan": plan.describe(), "step": s.step, "gix_modes": out.modes, "server_log_tail": srv.log.iter().rev().take(6).collect::<Vec<_>>() }));
            }
        }
        ctx.count("scenarios_completed");
        if evolve {
            ctx.count("evolve_scenarios_completed");
        }
    }
}
