//! C42 The worktree path stack stays consistent across failures.
//!
//! Oracle A (call-log model): a logging `gix_fs::stack::Delegate` that rejects callbacks
//! according to a seeded plan maintains, from its own call log only, the set of possible
//! "pushed and not yet popped" directory list (this delegate registers a directory only when it
//! accepts `push_directory`, so a rejected call is exactly "not pushed"). After every call to
//! `make_relative_path_current` the public accessors are compared with the request and the
//! model; then *probe* continuations (unwind to an unrelated path, descend below the current
//! path, repeat it, go to a sibling) are run on a clone of the stack with a never-rejecting
//! delegate so that latent corruption is found right after the call that caused it.
//!
//! Oracle B (history independence, one level up): `gix_worktree::Stack::at_path` with real
//! attribute/ignore state read from a scratch worktree where some pushes are rejected
//! (invalid component names, file/dir collisions, unreadable `.gitattributes`/`.gitignore`).
//! Every successful answer must equal the answer of a fresh stack without that history.
use crate::fw::{guard, Ctx, Rng};
use gix_fs::Stack;
use serde_json::{json, Value};
use std::path::{Component, Path, PathBuf};

pub fn child(_mode: &str) {}

// ------------------------------------------------------------------ model

#[derive(Clone, Default)]
struct Model {
    /// every possible list of pushed-not-popped directories ("" is the root)
    states: Vec<Vec<String>>,
    /// why the most recent state was discarded
    last_death: Option<&'static str>,
    /// prefixes of the current path whose `push` was accepted and which were not left since
    valid: Vec<String>,
    /// too many possibilities: stop judging this sequence
    abandoned: bool,
}

impl Model {
    fn new() -> Self {
        Model { states: vec![Vec::new()], ..Default::default() }
    }
    fn dead(&self) -> bool {
        self.states.is_empty()
    }
    fn push_dir(&mut self, d: &str, accepted: bool) {
        let mut next: Vec<Vec<String>> = Vec::new();
        for s in std::mem::take(&mut self.states) {
            let has = s.iter().any(|x| x == d);
            if accepted {
                if has {
                    self.last_death = Some(if d.is_empty() { "root-pushed-twice" } else { "dir-pushed-twice" });
                    continue;
                }
                let mut t = s;
                t.push(d.to_string());
                next.push(t);
            } else {
                // our delegate registers nothing when it rejects: the directory is exactly "not pushed"
                next.push(s);
            }
        }
        next.sort();
        next.dedup();
        if next.len() > 64 {
            self.abandoned = true;
            next.truncate(64);
        }
        self.states = next;
    }
    fn pop_dir(&mut self) {
        let mut next = Vec::new();
        for mut s in std::mem::take(&mut self.states) {
            if s.pop().is_none() {
                self.last_death = Some("pop-without-push");
                continue;
            }
            next.push(s);
        }
        next.sort();
        next.dedup();
        self.states = next;
    }
    fn push_comp(&mut self, p: &str, accepted: bool) {
        self.valid.retain(|x| x != p);
        if accepted {
            self.valid.push(p.to_string());
        }
    }
    /// the chain `["", c1, c1/c2, ...]` for a relative path
    fn chain(rel: &Path) -> Vec<String> {
        let mut out = vec![String::new()];
        let mut cur = String::new();
        for c in rel.components() {
            if !cur.is_empty() {
                cur.push('/');
            }
            cur.push_str(&c.as_os_str().to_string_lossy());
            out.push(cur.clone());
        }
        out
    }
    /// quiescent point: pushed dirs must be root + ancestors of the current path (+ optionally the path itself)
    fn quiescent(&mut self, rel: &Path) -> Option<&'static str> {
        let chain = Self::chain(rel);
        let k = chain.len() - 1;
        // a component whose push was rejected must not be part of the current path
        self.valid.retain(|v| chain.iter().any(|c| c == v));
        for c in &chain[1..] {
            if !self.valid.iter().any(|v| v == c) {
                return Some("rejected-component-kept");
            }
        }
        let mut next = Vec::new();
        for s in std::mem::take(&mut self.states) {
            let is_prefix = s.len() <= chain.len() && s.iter().zip(chain.iter()).all(|(a, b)| a == b);
            if !is_prefix {
                self.last_death = Some("stale-dir");
                continue;
            }
            // an empty list is only possible while the root push itself was rejected (k == 0)
            if s.len() < k || (s.is_empty() && k > 0) {
                self.last_death = Some("missing-dir");
                continue;
            }
            next.push(s);
        }
        self.states = next;
        if self.dead() {
            return self.last_death;
        }
        None
    }
}

// ------------------------------------------------------------------ delegate

#[derive(Clone, Copy, PartialEq, Eq, Hash, Debug)]
enum Site {
    PushNonLast,
    PushLast,
    DirRoot,
    DirComp,
    DirLeaf,
}
impl Site {
    fn name(self) -> &'static str {
        match self {
            Site::PushNonLast => "push-nonlast",
            Site::PushLast => "push-last",
            Site::DirRoot => "pushdir-root",
            Site::DirComp => "pushdir-comp",
            Site::DirLeaf => "pushdir-leaf",
        }
    }
}

#[derive(Clone)]
enum Plan {
    Never,
    /// reject exactly the callbacks (counted over the whole sequence, pops excluded) with these indices
    At(Vec<usize>),
    /// reject `push` with probability pp/100 and `push_directory` with pd/100
    Prob { pp: u64, pd: u64, rng: Rng },
}

struct LogDelegate<'a> {
    model: &'a mut Model,
    plan: &'a mut Plan,
    cb_index: &'a mut usize,
    pushes_in_call: usize,
    faults: Vec<Site>,
    log: Vec<String>,
    incoherent: Option<String>,
}

impl<'a> LogDelegate<'a> {
    fn new(model: &'a mut Model, plan: &'a mut Plan, cb_index: &'a mut usize) -> Self {
        LogDelegate { model, plan, cb_index, pushes_in_call: 0, faults: Vec::new(), log: Vec::new(), incoherent: None }
    }
    fn reject(&mut self, is_dir_cb: bool) -> bool {
        let i = *self.cb_index;
        *self.cb_index += 1;
        match self.plan {
            Plan::Never => false,
            Plan::At(v) => v.contains(&i),
            Plan::Prob { pp, pd, rng } => {
                let p = if is_dir_cb { *pd } else { *pp };
                rng.below(100) < p
            }
        }
    }
    fn observe(&mut self, stack: &Stack) -> String {
        if stack.current() != stack.root().join(stack.current_relative()) && self.incoherent.is_none() {
            self.incoherent = Some(format!(
                "in callback: current={:?} root={:?} relative={:?}",
                stack.current(),
                stack.root(),
                stack.current_relative()
            ));
        }
        rel_str(stack.current_relative())
    }
}

fn rel_str(p: &Path) -> String {
    p.components().map(|c| c.as_os_str().to_string_lossy().to_string()).collect::<Vec<_>>().join("/")
}

fn rejected() -> std::io::Error {
    std::io::Error::new(std::io::ErrorKind::Other, "rejected by plan")
}

impl gix_fs::stack::Delegate for LogDelegate<'_> {
    fn push_directory(&mut self, stack: &Stack) -> std::io::Result<()> {
        let d = self.observe(stack);
        let site = if d.is_empty() {
            Site::DirRoot
        } else if self.pushes_in_call == 0 {
            Site::DirLeaf
        } else {
            Site::DirComp
        };
        let rej = self.reject(true);
        self.model.push_dir(&d, !rej);
        self.log.push(format!("push_directory({d:?}) -> {}", if rej { "Err" } else { "Ok" }));
        if rej {
            self.faults.push(site);
            return Err(rejected());
        }
        Ok(())
    }
    fn push(&mut self, is_last_component: bool, stack: &Stack) -> std::io::Result<()> {
        let p = self.observe(stack);
        self.pushes_in_call += 1;
        let rej = self.reject(false);
        self.model.push_comp(&p, !rej);
        self.log.push(format!("push(last={is_last_component}, {p:?}) -> {}", if rej { "Err" } else { "Ok" }));
        if rej {
            self.faults.push(if is_last_component { Site::PushLast } else { Site::PushNonLast });
            return Err(rejected());
        }
        Ok(())
    }
    fn pop_directory(&mut self) {
        self.model.pop_dir();
        self.log.push("pop_directory()".into());
    }
}

// ------------------------------------------------------------------ one judged call

#[derive(Clone, Copy, PartialEq, Eq, Hash, Debug)]
enum PathClass {
    Normal,
    Empty,
    Adversarial,
}
impl PathClass {
    fn name(self) -> &'static str {
        match self {
            PathClass::Normal => "normal",
            PathClass::Empty => "empty",
            PathClass::Adversarial => "adversarial",
        }
    }
}

fn classify(p: &str) -> PathClass {
    if p.is_empty() {
        return PathClass::Empty;
    }
    let path = Path::new(p);
    let normal = path.components().all(|c| matches!(c, Component::Normal(_)))
        && !p.ends_with('/')
        && !p.contains("//")
        && !p.contains("/./");
    if normal {
        PathClass::Normal
    } else {
        PathClass::Adversarial
    }
}

struct CallOutcome {
    ok: bool,
    faults: Vec<Site>,
    log: Vec<String>,
    /// (kind, detail)
    problem: Option<(&'static str, String)>,
}

/// Run one call with the given plan and judge everything observable right after it.
fn judged_call(stack: &mut Stack, model: &mut Model, plan: &mut Plan, cb_index: &mut usize, path: &str) -> CallOutcome {
    let mut d = LogDelegate::new(model, plan, cb_index);
    let res = stack.make_relative_path_current(Path::new(path), &mut d);
    let (faults, log, incoherent) = (d.faults, d.log, d.incoherent);
    let ok = res.is_ok();
    let mut problem: Option<(&'static str, String)> = None;
    let rel = stack.current_relative().to_owned();
    if let Some(i) = incoherent {
        problem = Some(("current-incoherent", i));
    } else if stack.current() != stack.root().join(&rel) {
        problem = Some((
            "current-incoherent",
            format!("current={:?} but root.join(current_relative)={:?}", stack.current(), stack.root().join(&rel)),
        ));
    } else if !rel.components().all(|c| matches!(c, Component::Normal(_))) {
        problem = Some(("non-normal-component-in-current", format!("current_relative={rel:?}")));
    } else if ok && rel != Path::new(path) {
        problem = Some(("current-not-requested", format!("requested {path:?}, current_relative={rel:?}")));
    } else if !ok && faults.is_empty() && classify(path) == PathClass::Normal {
        problem = Some(("valid-path-rejected", format!("no callback rejected anything, yet {path:?} failed: {}", res.as_ref().unwrap_err())));
    } else if ok && !faults.is_empty() {
        problem = Some(("rejection-swallowed", format!("delegate rejected {:?} but the call returned Ok", faults)));
    } else if model.dead() {
        problem = Some((model.last_death.unwrap_or("model-dead"), "no possible pushed-directory list explains the call log".into()));
    } else if let Some(kind) = model.quiescent(&rel) {
        problem = Some((kind, format!("at quiescent point current_relative={rel:?}")));
    }
    CallOutcome { ok, faults, log, problem }
}

const PROBES: &[&str] = &["unwind", "descend", "same", "sibling"];

fn probe_path(kind: &str, rel: &str) -> Option<String> {
    match kind {
        "unwind" => Some("zz".into()),
        "descend" if !rel.is_empty() => Some(format!("{rel}/zz/zy")),
        "same" if !rel.is_empty() => Some(rel.to_string()),
        "sibling" if rel.contains('/') => Some(format!("{}/zz", &rel[..rel.rfind('/').unwrap()])),
        _ => None,
    }
}

/// Run continuations on clones with a never-rejecting delegate. Returns (probe, path, kind, detail, log).
fn run_probes(stack: &Stack, model: &Model) -> Option<(&'static str, String, &'static str, String, Vec<String>)> {
    let rel = rel_str(stack.current_relative());
    for probe in PROBES {
        let Some(p) = probe_path(probe, &rel) else { continue };
        let mut s = stack.clone();
        let mut m = model.clone();
        let mut plan = Plan::Never;
        let mut cb = 0usize;
        let out = judged_call(&mut s, &mut m, &mut plan, &mut cb, &p);
        if let Some((kind, detail)) = out.problem {
            return Some((probe, p, kind, detail, out.log));
        }
        if !out.ok {
            return Some((probe, p, "valid-path-rejected", "accepting delegate, normal path, yet Err".into(), out.log));
        }
    }
    None
}

fn fault_label(f: &[Site]) -> String {
    if f.is_empty() {
        "none".into()
    } else {
        f.iter().map(|s| s.name()).collect::<Vec<_>>().join("+")
    }
}

/// Drive a whole sequence; returns number of calls made. Stops at the first violation.
fn run_sequence(ctx: &mut Ctx, label: &str, paths: &[String], mut plan: Plan, plan_desc: Value) {
    let root = PathBuf::from("/gxv-c42-root");
    let mut stack = Stack::new(root);
    let mut model = Model::new();
    let mut cb_index = 0usize;
    let mut history: Vec<Value> = Vec::new();
    let mut prev_rel = String::new();
    for path in paths {
        let class = classify(path);
        ctx.eval();
        let p2 = path.clone();
        let res = guard(|| judged_call(&mut stack, &mut model, &mut plan, &mut cb_index, &p2));
        let out = match res {
            Ok(o) => o,
            Err(p) => {
                ctx.panic_violation(
                    "Stack::make_relative_path_current",
                    &p,
                    class.name(),
                    json!({"history": history, "path": path, "plan": plan_desc}),
                );
                return;
            }
        };
        ctx.count(if out.ok { "calls_ok" } else { "calls_err" });
        for f in &out.faults {
            ctx.count(&format!("fault_{}", f.name()));
        }
        if class != PathClass::Normal {
            ctx.count(&format!("path_{}_{}", class.name(), if out.ok { "ok" } else { "err" }));
        }
        // shape: common prefix with previous path, failure site(s), depth change
        let new_rel = rel_str(stack.current_relative());
        let common = prev_rel.split('/').zip(path.split('/')).take_while(|(a, b)| a == b && !a.is_empty()).count();
        let depth_prev = if prev_rel.is_empty() { 0 } else { prev_rel.split('/').count() as i64 };
        let depth_req = if path.is_empty() { 0 } else { path.split('/').count() as i64 };
        ctx.distinct((label.len() > 0, common, fault_label(&out.faults), (depth_req - depth_prev).clamp(-3, 3), class, out.ok));
        if ctx.want_sample() && out.log.len() >= 3 && (!out.faults.is_empty() || ctx.evals() % 7 == 0) {
            ctx.sample(json!({"before": prev_rel, "call": path, "ok": out.ok, "after": new_rel, "callbacks": out.log}));
        }
        history.push(json!({"path": path, "ok": out.ok, "after": new_rel}));
        if history.len() > 12 {
            history.remove(0);
        }
        // the stack itself refuses non-normal components and non-initial empty paths
        let faults = if !out.ok && out.faults.is_empty() && class != PathClass::Normal {
            "invalid-component".to_string()
        } else {
            fault_label(&out.faults)
        };
        if let Some((kind, detail)) = out.problem {
            ctx.violation(
                &format!("log-model|{kind}|call|fault={faults}"),
                &format!("after make_relative_path_current({path:?}) from {prev_rel:?} with rejections [{faults}]: {kind} ({detail})"),
                json!({"plan": plan_desc, "state_before": prev_rel, "call": path, "returned_ok": out.ok, "callbacks": out.log,
                       "current_relative_after": new_rel, "detail": detail, "recent_history": history}),
            );
            return;
        }
        if model.abandoned {
            ctx.count("sequences_abandoned_model_too_wide");
            return;
        }
        match guard(|| run_probes(&stack, &model)) {
            Ok(None) => {}
            Ok(Some((probe, ppath, kind, detail, plog))) => {
                ctx.violation(
                    &format!("log-model|{kind}|probe-{probe}|fault={faults}"),
                    &format!("make_relative_path_current({path:?}) from {prev_rel:?} with rejections [{faults}] returned {}, then a follow-up call {ppath:?} with an accepting delegate shows {kind} ({detail})",
                        if out.ok { "Ok" } else { "Err" }),
                    json!({"plan": plan_desc, "state_before": prev_rel, "call": path, "returned_ok": out.ok, "callbacks": out.log,
                           "current_relative_after": new_rel, "follow_up": ppath, "follow_up_callbacks": plog, "detail": detail,
                           "recent_history": history}),
                );
                return;
            }
            Err(p) => {
                ctx.panic_violation("Stack::make_relative_path_current", &p, "probe", json!({"history": history, "plan": plan_desc}));
                return;
            }
        }
        ctx.count("probe_rounds");
        prev_rel = new_rel;
    }
}

// ------------------------------------------------------------------ generators

fn all_paths(alpha: &[&str], max_depth: usize) -> Vec<String> {
    let mut out: Vec<String> = Vec::new();
    let mut level: Vec<String> = alpha.iter().map(|s| s.to_string()).collect();
    for _ in 0..max_depth {
        out.extend(level.iter().cloned());
        let mut next = Vec::new();
        for p in &level {
            for a in alpha {
                next.push(format!("{p}/{a}"));
            }
        }
        level = next;
    }
    out
}

const ADVERSARIAL: &[&str] = &["", "..", "a/../b", "/a", "a/", "a//b", "./a", "a/./b", ".", "../a", "a/..", "a/b/../../..", "/", "a/b/"];

fn rand_path(r: &mut Rng, prev: &str, alpha: &[&str], max_depth: usize) -> String {
    let prev_comps: Vec<&str> = if prev.is_empty() { vec![] } else { prev.split('/').collect() };
    let mut comps: Vec<String> = Vec::new();
    if !prev_comps.is_empty() && r.chance(3, 4) {
        let keep = r.usize(prev_comps.len() + 1);
        comps.extend(prev_comps[..keep].iter().map(|s| s.to_string()));
    }
    let extra = match r.below(4) {
        0 => 0,
        1 => 1,
        _ => r.usize(max_depth) + 1,
    };
    for _ in 0..extra {
        if comps.len() >= max_depth {
            break;
        }
        comps.push(r.pick(alpha).to_string());
    }
    if comps.is_empty() {
        comps.push(r.pick(alpha).to_string());
    }
    comps.join("/")
}

pub fn run(ctx: &mut Ctx) {
    ctx.rule(
        "A: sequences of make_relative_path_current over components {a,b,c,d} (depth<=4, biased to share a prefix with the \
         previous path; ~4% adversarial/empty paths), delegate rejecting per plan (exhaustive: <=3 calls over {a,b} depth<=3 with \
         every single and double rejection position in the last call; directed: leaf P then P/x with exactly push_directory(P) rejected at \
         depth 1..5 and six continuations; random: one fault, p=0.15 on push, p=0.15 on all callbacks); \
         after every call accessors + call-log model + 4 probe continuations on a clone. distinct = (common prefix with previous \
         path, rejected callback sites, depth change, path class, result). B: gix_worktree::Stack::at_path sequences on a scratch \
         worktree with real .gitattributes/.gitignore, rejected pushes, answers compared with a fresh stack; distinct = (state kind, \
         rejection kind, relation of next path).",
    );
    ctx.assume("the model delegate registers a directory only when it accepts push_directory; a rejected call leaves it unregistered, so the stack must neither pop it later nor treat it as entered");
    exhaustive(ctx);
    directed_leaf_descent(ctx);
    random_sequences(ctx);
    worktree_level(ctx);
}

/// Bounded-exhaustive: up to two fault-free set-up calls, then one call with every single/double rejection position.
fn exhaustive(ctx: &mut Ctx) {
    let paths = all_paths(&["a", "b"], 3);
    let mut setups: Vec<Vec<String>> = vec![vec![]];
    for p in &paths {
        setups.push(vec![p.clone()]);
    }
    // two-call setups that leave "current is a directory" (ancestor after descendant) and a few more
    for p in &paths {
        for q in &paths {
            if p != q && (p.starts_with(&format!("{q}/")) || ctx.tier == crate::fw::Tier::Thorough) {
                setups.push(vec![p.clone(), q.clone()]);
            }
        }
    }
    let mut finals: Vec<String> = paths.clone();
    finals.extend(ADVERSARIAL.iter().map(|s| s.to_string()));
    let mut n = 0u64;
    'outer: for setup in &setups {
        for last in &finals {
            // callbacks in the final call are numbered from `base`; find base by a dry run
            let base = {
                let mut stack = Stack::new(PathBuf::from("/gxv-c42-root"));
                let mut model = Model::new();
                let mut plan = Plan::Never;
                let mut cb = 0usize;
                for p in setup {
                    let _ = judged_call(&mut stack, &mut model, &mut plan, &mut cb, p);
                }
                let before = cb;
                let _ = judged_call(&mut stack, &mut model, &mut plan, &mut cb, last);
                (before, cb - before)
            };
            let (start, len) = base;
            let mut plans: Vec<Vec<usize>> = vec![vec![]];
            // a rejection may add callbacks (none here) or cut the call short; positions beyond the cut are harmless
            for i in 0..len + 1 {
                plans.push(vec![start + i]);
                for j in i + 1..len + 1 {
                    plans.push(vec![start + i, start + j]);
                }
            }
            for at in plans {
                if !ctx.time_left() {
                    ctx.count("budget_stops");
                    break 'outer;
                }
                let mut seq = setup.clone();
                seq.push(last.clone());
                let desc = json!({"kind": "exhaustive", "sequence": seq, "reject_callback_indices": at});
                let before = ctx.violations();
                run_sequence(ctx, "exhaustive", &seq, Plan::At(at), desc);
                n += 1;
                let _ = before;
            }
        }
    }
    ctx.count_n("exhaustive_scenarios", n);
}

/// P becomes current as a leaf, the next path extends it: the stack calls push_directory(P) without a preceding push().
/// Reject exactly that call, at every depth 1..=5, then continue outside of P, inside of P, and with P itself.
fn directed_leaf_descent(ctx: &mut Ctx) {
    let comps = ["a", "b", "a", "b", "c"];
    let mut n = 0u64;
    for depth in 1..=comps.len() {
        let p = comps[..depth].join("/");
        for below in ["x", "x/y"] {
            for after in [vec![], vec!["zz".to_string()], vec![format!("{p}/x")], vec![format!("{p}/w"), "zz".to_string()], vec![p.clone(), "zz".to_string()], vec![comps[..depth - 1].join("/") + if depth > 1 { "/s" } else { "s" }]] {
                for setup_first in [false, true] {
                    let mut seq: Vec<String> = Vec::new();
                    if setup_first {
                        seq.push("b/q".into());
                    }
                    seq.push(p.clone());
                    // callbacks are counted over the whole sequence: find the index of the first callback of the descent call
                    let start = {
                        let mut stack = Stack::new(PathBuf::from("/gxv-c42-root"));
                        let mut model = Model::new();
                        let mut plan = Plan::Never;
                        let mut cb = 0usize;
                        for q in &seq {
                            let _ = judged_call(&mut stack, &mut model, &mut plan, &mut cb, q);
                        }
                        cb
                    };
                    seq.push(format!("{p}/{below}"));
                    seq.extend(after.iter().cloned());
                    let desc = json!({"kind": "directed-leaf-descent", "sequence": seq, "reject_callback_indices": [start]});
                    run_sequence(ctx, "directed", &seq, Plan::At(vec![start]), desc);
                    n += 1;
                }
            }
        }
    }
    ctx.count_n("directed_leaf_descent_scenarios", n);
}

fn random_sequences(ctx: &mut Ctx) {
    let n = ctx.n(3_000, 400_000);
    ctx.cases("random", n, |ctx, r| {
        let alpha: &[&str] = if r.bool() { &["a", "b", "c", "d"] } else { &["a", "b"] };
        let max_depth = r.range(2, 4) as usize;
        let len = r.range(10, 200) as usize;
        let mut paths = Vec::with_capacity(len);
        let mut prev = String::new();
        let adversarial = r.chance(1, 3);
        for _ in 0..len {
            let p = if adversarial && r.chance(1, 25) { r.pick(ADVERSARIAL).to_string() } else { rand_path(r, &prev, alpha, max_depth) };
            if classify(&p) == PathClass::Normal {
                prev = p.clone();
            }
            paths.push(p);
        }
        let (plan, desc) = match r.below(4) {
            0 => {
                let at = r.usize(len * 3);
                (Plan::At(vec![at]), json!({"kind": "single-fault", "reject_callback_indices": [at]}))
            }
            1 => (Plan::Prob { pp: 15, pd: 0, rng: r.fork() }, json!({"kind": "p=0.15 on push"})),
            2 => (Plan::Prob { pp: 15, pd: 15, rng: r.fork() }, json!({"kind": "p=0.15 on push and push_directory"})),
            _ => (Plan::Prob { pp: 0, pd: 15, rng: r.fork() }, json!({"kind": "p=0.15 on push_directory"})),
        };
        let desc = json!({"plan": desc, "sequence_len": len});
        run_sequence(ctx, "random", &paths, plan, desc);
        ctx.count("random_sequences");
    });
}

// ------------------------------------------------------------------ oracle B: gix_worktree::Stack with real state

use gix_index::entry::Mode;
use gix_worktree::stack::state as wstate;

#[derive(Clone, Copy, PartialEq, Eq, Hash, Debug)]
enum Kind {
    Attributes,
    CheckoutAttributes,
    AttributesAndIgnore,
    Ignore,
}
impl Kind {
    fn name(self) -> &'static str {
        match self {
            Kind::Attributes => "attributes-stack",
            Kind::CheckoutAttributes => "checkout-stack",
            Kind::AttributesAndIgnore => "attributes+ignore-stack",
            Kind::Ignore => "ignore-stack",
        }
    }
    fn has_attrs(self) -> bool {
        self != Kind::Ignore
    }
    fn has_ignore(self) -> bool {
        matches!(self, Kind::AttributesAndIgnore | Kind::Ignore)
    }
}

fn new_attrs() -> std::io::Result<wstate::Attributes> {
    let mut buf = Vec::new();
    let mut collection = gix_attributes::search::MetadataCollection::default();
    let globals = gix_attributes::Search::new_globals(Vec::<PathBuf>::new(), &mut buf, &mut collection)?;
    Ok(wstate::Attributes::new(globals, None, wstate::attributes::Source::WorktreeThenIdMapping, collection))
}
fn new_ignore() -> wstate::Ignore {
    wstate::Ignore::new(Default::default(), Default::default(), None, wstate::ignore::Source::WorktreeThenIdMappingIfNotSkipped)
}
fn new_stack(root: &Path, kind: Kind) -> std::io::Result<gix_worktree::Stack> {
    let state = match kind {
        Kind::Attributes => gix_worktree::stack::State::AttributesStack(new_attrs()?),
        Kind::CheckoutAttributes => gix_worktree::stack::State::for_checkout(
            false,
            gix_worktree::validate::path::component::Options { protect_windows: false, protect_hfs: false, protect_ntfs: true },
            new_attrs()?,
        ),
        Kind::AttributesAndIgnore => gix_worktree::stack::State::for_add(new_attrs()?, new_ignore()),
        Kind::Ignore => gix_worktree::stack::State::IgnoreStack(new_ignore()),
    };
    Ok(gix_worktree::Stack::new(root, state, gix_glob::pattern::Case::Sensitive, Vec::new(), Vec::new()))
}

/// What the stack says about a path: attribute assignments and the deciding exclude pattern.
type Answer = (Vec<String>, Option<String>);

fn query(stack: &mut gix_worktree::Stack, kind: Kind, rel: &str, mode: Option<Mode>) -> std::io::Result<Answer> {
    let mut out = if kind.has_attrs() { Some(stack.attribute_matches()) } else { None };
    let platform = stack.at_path(rel, mode, &gix_object::find::Never)?;
    let mut attrs = Vec::new();
    if let Some(out) = out.as_mut() {
        platform.matching_attributes(out);
        for m in out.iter() {
            if !m.assignment.state.is_unspecified() {
                attrs.push(format!("{}:{:?}", m.assignment.name.as_str(), m.assignment.state));
            }
        }
        attrs.sort();
    }
    let excl = if kind.has_ignore() {
        platform.matching_exclude_pattern().map(|m| {
            format!("{}{} @{}:{}", if m.pattern.is_negative() { "!" } else { "" }, m.pattern, m.source.map(|p| p.display().to_string()).unwrap_or_default(), m.sequence_number)
        })
    } else {
        None
    };
    Ok((attrs, excl))
}

struct Tree {
    /// all directories (relative, "" = root) that exist and whose chain has no poison
    clean_dirs: Vec<String>,
    /// directories whose .gitattributes / .gitignore cannot be read
    poison_attr: Vec<String>,
    poison_ignore: Vec<String>,
    /// regular files that sit where a path wants a directory
    blockers: Vec<String>,
}

fn build_tree(r: &mut Rng, root: &Path) -> std::io::Result<Tree> {
    let mut dirs: Vec<String> = vec![String::new()];
    for a in ["a", "b", "c"] {
        dirs.push(a.to_string());
        for b in ["a", "b"] {
            if r.chance(2, 3) {
                dirs.push(format!("{a}/{b}"));
                if r.chance(1, 3) {
                    dirs.push(format!("{a}/{b}/c"));
                }
            }
        }
    }
    let mut t = Tree { clean_dirs: vec![], poison_attr: vec![], poison_ignore: vec![], blockers: vec![] };
    for d in &dirs {
        let p = root.join(d);
        std::fs::create_dir_all(&p)?;
        let tag = if d.is_empty() { "root".to_string() } else { d.replace('/', "_") };
        let poison = !d.is_empty() && r.chance(1, 5);
        if poison && r.bool() {
            match r.below(2) {
                0 => std::fs::create_dir(p.join(".gitattributes"))?,
                _ => std::os::unix::fs::symlink("nowhere", p.join(".gitattributes"))?,
            }
            t.poison_attr.push(d.clone());
        } else if r.chance(4, 5) {
            let mut s = format!("* in_{tag} at={tag}\n*.x x_{tag}\n");
            if r.bool() {
                s.push_str("probe.x -in_root\n");
            }
            if r.bool() {
                s.push_str(&format!("b/* below_{tag}\n"));
            }
            std::fs::write(p.join(".gitattributes"), s)?;
        }
        if poison && !t.poison_attr.contains(d) || (poison && r.chance(1, 3)) {
            std::fs::create_dir(p.join(".gitignore"))?;
            t.poison_ignore.push(d.clone());
        } else if r.chance(4, 5) {
            let mut s = format!("*.o\n!keep_{tag}.o\n");
            if r.bool() {
                s.push_str("b/\n");
            }
            if r.bool() {
                s.push_str("!probe.o\n");
            }
            if r.bool() {
                s.push_str("/a\n");
            }
            std::fs::write(p.join(".gitignore"), s)?;
        }
        if r.chance(1, 4) {
            std::fs::write(p.join("blk"), "regular file\n")?;
            t.blockers.push(if d.is_empty() { "blk".into() } else { format!("{d}/blk") });
        }
    }
    for d in &dirs {
        let poisoned = |set: &Vec<String>| set.iter().any(|q| d == q || d.starts_with(&format!("{q}/")));
        if !poisoned(&t.poison_attr) && !poisoned(&t.poison_ignore) {
            t.clean_dirs.push(d.clone());
        }
    }
    Ok(t)
}

fn join(d: &str, leaf: &str) -> String {
    if d.is_empty() {
        leaf.to_string()
    } else {
        format!("{d}/{leaf}")
    }
}

/// Classify why `at_path` failed from the error itself (the generator's intent may be pre-empted by an earlier component).
fn failure_category(e: &std::io::Error, intended: &'static str) -> &'static str {
    let msg = e.to_string();
    if matches!(e.raw_os_error(), Some(20) | Some(21) | Some(40)) {
        // ENOTDIR / EISDIR / ELOOP while reading .gitattributes or .gitignore: push_directory failed
        if intended == "below-previous-leaf" || intended == "retry-below-previous-leaf" {
            // ... for the leaf of the previous path, which is pushed as directory without a preceding push()
            "unreadable-attr-or-ignore-file-of-previous-leaf"
        } else {
            "unreadable-attr-or-ignore-file"
        }
    } else if msg.contains(".git name") || msg.contains(".gitmodules") {
        if intended == "invalid-last" {
            "invalid-component-last"
        } else {
            "invalid-component-nonlast"
        }
    } else if e.kind() == std::io::ErrorKind::AlreadyExists {
        if intended == "collision-last" {
            "mkdir-collision-last"
        } else {
            "mkdir-collision-nonlast"
        }
    } else {
        "other-error"
    }
}

fn worktree_level(ctx: &mut Ctx) {
    let n = ctx.n(400, 12_000);
    ctx.cases("worktree", n, |ctx, r| {
        let root = ctx.dir("w");
        let tree = match build_tree(r, &root) {
            Ok(t) => t,
            Err(e) => {
                ctx.inconclusive(&format!("could not build scratch worktree: {e}"));
                return;
            }
        };
        let kind = *r.pick(&[Kind::Attributes, Kind::CheckoutAttributes, Kind::CheckoutAttributes, Kind::AttributesAndIgnore, Kind::Ignore]);
        // the history-free reference never creates directories
        let ref_kind = if kind == Kind::CheckoutAttributes { Kind::Attributes } else { kind };
        let Ok(mut stack) = new_stack(&root, kind) else {
            ctx.inconclusive("could not create stack");
            return;
        };
        // names that are directories are always asked about as directories, everything else as file/unknown
        let probes: Vec<(String, Option<Mode>)> = tree
            .clean_dirs
            .iter()
            .flat_map(|d| {
                let mut v = vec![(join(d, "probe.x"), Some(Mode::FILE)), (join(d, "probe.o"), None)];
                if !d.is_empty() {
                    v.push((d.clone(), Some(Mode::DIR)));
                }
                v
            })
            .collect();
        let mut fresh_cache: std::collections::HashMap<(String, Option<u32>), Option<Answer>> = Default::default();
        let mut fresh = |rel: &str, mode: Option<Mode>| -> Option<Answer> {
            fresh_cache
                .entry((rel.to_string(), mode.map(|m| m.bits())))
                .or_insert_with(|| {
                    let mut s = new_stack(&root, ref_kind).ok()?;
                    query(&mut s, ref_kind, rel, mode).ok()
                })
                .clone()
        };
        let calls = r.range(6, 40);
        let mut history: Vec<Value> = Vec::new();
        let mut last_failure: &'static str = "no-failure";
        // follow-up calls that must come right after the current one (leaf first, then a path below that leaf)
        let mut pending: Vec<(String, Option<Mode>, &'static str)> = Vec::new();
        for _ in 0..calls {
            // pick a path: mostly clean, sometimes one that the delegate rejects
            let (rel, mode, class): (String, Option<Mode>, &'static str) = if !pending.is_empty() {
                pending.remove(0)
            } else {
              match r.below(12) {
                10 | 11 if !tree.poison_attr.is_empty() || !tree.poison_ignore.is_empty() || !tree.blockers.is_empty() => {
                    // P is made current as a leaf; the next path extends it, so the stack turns P into a directory without a
                    // preceding push() and the delegate fails to read P/.gitattributes or P/.gitignore; then a retry inside P
                    // or (through the probes and the following calls) a path outside of it.
                    let mut cands: Vec<(String, Option<Mode>)> = tree.poison_attr.iter().chain(tree.poison_ignore.iter()).map(|d| (d.clone(), Some(Mode::DIR))).collect();
                    cands.extend(tree.blockers.iter().map(|b| (b.clone(), Some(Mode::FILE))));
                    let (p, m) = r.pick(&cands).clone();
                    pending.push((join(&p, *r.pick(&["f.x", "probe.o", "n/f.x"])), Some(Mode::FILE), "below-previous-leaf"));
                    if r.bool() {
                        pending.push((join(&p, *r.pick(&["g.x", "g.o"])), Some(Mode::FILE), "retry-below-previous-leaf"));
                    }
                    (p, m, "leaf-before-descent")
                }
                0 if !tree.poison_attr.is_empty() || !tree.poison_ignore.is_empty() => {
                    let all: Vec<&String> = tree.poison_attr.iter().chain(tree.poison_ignore.iter()).collect();
                    let d = (*r.pick(&all)).clone();
                    (join(&d, *r.pick(&["f.x", "n/f.o", "probe.x"])), Some(Mode::FILE), "poisoned-dir")
                }
                1 => {
                    let d = r.pick(&tree.clean_dirs).clone();
                    (join(&d, *r.pick(&[".git/x", ".git/hooks/y", ".GIT/z.x"])), Some(Mode::FILE), "invalid-nonlast")
                }
                2 => {
                    let d = r.pick(&tree.clean_dirs).clone();
                    (join(&d, *r.pick(&[".git", ".gitmodules"])), Some(*r.pick(&[Mode::FILE, Mode::SYMLINK])), "invalid-last")
                }
                3 if !tree.blockers.is_empty() => {
                    let b = r.pick(&tree.blockers).clone();
                    if r.bool() {
                        (format!("{b}/below.x"), Some(Mode::FILE), "collision-nonlast")
                    } else {
                        (b, Some(Mode::DIR), "collision-last")
                    }
                }
                4 => (r.pick(&tree.clean_dirs).clone(), Some(Mode::DIR), "dir-terminal"),
                _ => {
                    let d = r.pick(&tree.clean_dirs).clone();
                    let leaf = *r.pick(&["f.x", "f.o", "keep_root.o", "probe.x", "n.x", "new/deeper/f.x", "new/f.o"]);
                    (join(&d, leaf), *r.pick(&[Some(Mode::FILE), None, Some(Mode::FILE_EXECUTABLE)]), "clean")
                }
              }
            };
            if rel.is_empty() {
                continue;
            }
            ctx.eval();
            let (rel2, st) = (rel.clone(), &mut stack);
            let res = match guard(move || query(st, kind, &rel2, mode)) {
                Ok(x) => x,
                Err(p) => {
                    ctx.panic_violation("gix_worktree::Stack::at_path", &p, &format!("after-{last_failure}"), json!({"recent_calls": history, "call": rel, "kind": kind.name()}));
                    return;
                }
            };
            let failed = res.is_err();
            if let Err(e) = &res {
                last_failure = failure_category(e, class);
                ctx.count(&format!("wt_failure_{last_failure}"));
            }
            ctx.count(&format!("wt_{}_{}", class, if failed { "err" } else { "ok" }));
            history.push(json!({"path": rel, "mode": mode.map(|m| format!("{m:?}")), "class": class, "ok": !failed,
                "err": res.as_ref().err().map(|e| e.to_string())}));
            if history.len() > 10 {
                history.remove(0);
            }
            ctx.distinct(("wt", kind, class, failed, last_failure));
            // the answer itself
            let mut to_check: Vec<(String, Option<Mode>, Answer, &'static str)> = Vec::new();
            if let Ok(ans) = res {
                to_check.push((rel.clone(), mode, ans, "answer"));
            }
            // probes, each on its own clone: every clean directory must still answer as a fresh stack would
            for (p, m) in &probes {
                let mut clone = stack.clone();
                let (p2, m2, c) = (p.clone(), *m, &mut clone);
                match guard(move || query(c, kind, &p2, m2)) {
                    Ok(Ok(ans)) => to_check.push((p.clone(), *m, ans, "probe")),
                    Ok(Err(_)) => ctx.count("wt_probe_err"),
                    Err(pn) => {
                        ctx.panic_violation("gix_worktree::Stack::at_path", &pn, &format!("after-{last_failure}"), json!({"recent_calls": history, "follow_up": p, "kind": kind.name()}));
                        return;
                    }
                }
            }
            for (p, m, ans, phase) in to_check {
                let Some(want) = fresh(&p, m) else {
                    ctx.count("wt_fresh_err_skipped");
                    continue;
                };
                ctx.count("wt_answers_compared");
                // A directory the stack itself currently holds as pushed directory may report a different (inner) deciding
                // exclude pattern than a stack that sees it as leaf; that is exclude semantics (C38), not stack balance.
                let (ans, want) = if m == Some(Mode::DIR) { ((ans.0, None), (want.0, None)) } else { (ans, want) };
                if ans != want {
                    let what = if ans.0 != want.0 { "attributes" } else { "exclude" };
                    ctx.violation(
                        &format!("history|{what}-differ|after-{last_failure}"),
                        &format!("{}: after at_path({rel:?}) [{}] the {what} answer for {p:?} differs from a fresh stack's answer (most recent failure: {last_failure})", kind.name(), if failed { "Err" } else { "Ok" }),
                        json!({"kind": kind.name(), "recent_calls": history, "asked": p, "asked_as": phase, "mode": m.map(|m| format!("{m:?}")),
                               "stack_with_history": {"attributes": ans.0, "exclude": ans.1}, "fresh_stack": {"attributes": want.0, "exclude": want.1},
                               "poisoned_attr_dirs": tree.poison_attr, "poisoned_ignore_dirs": tree.poison_ignore, "blockers": tree.blockers}),
                    );
                    return;
                }
            }
            if ctx.want_sample() && failed {
                ctx.sample(json!({"kind": kind.name(), "call": rel, "class": class, "err": history.last().map(|h| h["err"].clone())}));
            }
        }
        ctx.count("wt_sequences");
    });
}
