//! C10 Indexing a received pack matches git index-pack.
//!
//! One scenario = a random repository (fw::repogen with delta fodder + a single-file edit chain); git
//! pack-objects produces a pack stream from it: full (all refs or a random object list), thin against a
//! base repository (`--thin --revs ^have`), with OFS deltas (--delta-base-offset, what gitoxide negotiates)
//! or REF deltas, or the empty pack. `Bundle::write_to_directory` (iteration_mode=Verify) stores the stream
//! for several thread limits, without and with a base-object lookup (gix_odb handle on the base repository).
//! Oracles:
//!   G  non-thin: written pack == stream, written .idx == `git index-pack` .idx of the stream (bytes);
//!      thin: the completed pack must index under `git index-pack` (in an EMPTY repository, so it must be
//!      self-contained) to exactly the .idx gitoxide wrote, and contain the same object ids as git's
//!      `index-pack --fix-thin` result;
//!   R  pack and idx bytes are identical for every thread limit;
//!   S  every id listed by the new index is decodable through the new bundle, hashes to its id and equals
//!      the source repository's object.
//!   Faults: truncations and single-byte flips (header, entry headers, zlib data, trailer) of the stream must
//!   yield Err and leave no pack/idx pair in the target directory.
//! Every gitoxide call runs in an isolated child process (flipped size headers can ask for absurd allocations).
use crate::fw::{self, git, guard, isolate, repogen, Ctx, Rng};
use serde_json::{json, Value};
use std::collections::{BTreeSet, HashMap};
use std::path::{Path, PathBuf};
use std::sync::atomic::AtomicBool;
use std::time::Duration;

// ---------------------------------------------------------------- child side

pub fn child(_mode: &str) {
    isolate::serve(|payload| {
        let v: Value = serde_json::from_slice(payload).unwrap_or(Value::Null);
        let resp = child_run(&v);
        serde_json::to_vec(&resp).unwrap_or_default()
    });
}

fn child_run(v: &Value) -> Value {
    let pack_path = v["pack"].as_str().unwrap_or("");
    let out_dir = PathBuf::from(v["out"].as_str().unwrap_or(""));
    let mut data = match std::fs::read(pack_path) {
        Ok(d) => d,
        Err(e) => return json!({"harness_error": format!("read pack: {e}")}),
    };
    if let Some(l) = v["truncate"].as_u64() {
        data.truncate(l as usize);
    }
    if let (Some(p), Some(x)) = (v["flip_pos"].as_u64(), v["flip_xor"].as_u64()) {
        if (p as usize) < data.len() {
            data[p as usize] ^= x as u8;
        }
    }
    let lookup = match v["lookup"].as_str() {
        Some(dir) if !dir.is_empty() => match gix_odb::at(PathBuf::from(dir)) {
            Ok(h) => Some(h),
            Err(e) => return json!({"harness_error": format!("open lookup odb: {e}")}),
        },
        _ => None,
    };
    let opts = gix_pack::bundle::write::Options {
        thread_limit: v["threads"].as_u64().map(|t| t as usize),
        iteration_mode: gix_pack::data::input::Mode::Verify,
        index_version: gix_pack::index::Version::V2,
        object_hash: gix_hash::Kind::Sha1,
    };
    let interrupt = AtomicBool::new(false);
    let mut rd = std::io::BufReader::with_capacity(v["bufsize"].as_u64().unwrap_or(8192) as usize, std::io::Cursor::new(data));
    let res = gix_pack::Bundle::write_to_directory(
        &mut rd,
        Some(&out_dir),
        &mut gix_features::progress::Discard,
        &interrupt,
        lookup,
        opts,
    );
    match res {
        Ok(o) => json!({
            "ok": true,
            "num_objects": o.index.num_objects,
            "data_hash": o.index.data_hash.to_string(),
            "index_hash": o.index.index_hash.to_string(),
            "index_path": o.index_path.map(|p| p.display().to_string()),
            "data_path": o.data_path.map(|p| p.display().to_string()),
            "keep_path": o.keep_path.map(|p| p.display().to_string()),
        }),
        Err(e) => {
            let dbg = format!("{e:?}");
            let class: String = dbg.chars().take_while(|c| c.is_ascii_alphanumeric() || *c == '_').collect();
            // one level of source for classification (e.g. PackIter(NotFound{..}))
            let inner: String = dbg[class.len()..].trim_start_matches(['(', '{', ' ']).chars().take_while(|c| c.is_ascii_alphanumeric() || *c == '_').collect();
            json!({"ok": false, "error": e.to_string(), "class": class, "inner": inner, "debug": dbg.chars().take(300).collect::<String>()})
        }
    }
}

// ---------------------------------------------------------------- parent side

#[derive(Clone, Copy, Debug, PartialEq, Eq, Hash)]
enum PackKind {
    FullOfs,
    FullRef,
    ThinOfs,
    ThinRef,
    Empty,
}

impl PackKind {
    fn name(&self) -> &'static str {
        match self {
            PackKind::FullOfs => "full-ofs",
            PackKind::FullRef => "full-ref",
            PackKind::ThinOfs => "thin-ofs",
            PackKind::ThinRef => "thin-ref",
            PackKind::Empty => "empty",
        }
    }
    fn thin(&self) -> bool {
        matches!(self, PackKind::ThinOfs | PackKind::ThinRef)
    }
    fn ofs(&self) -> bool {
        matches!(self, PackKind::FullOfs | PackKind::ThinOfs)
    }
}

struct Run<'a> {
    child: &'a mut isolate::Child,
    pack_file: &'a Path,
    lookup: Option<&'a Path>,
}

enum GixOutcome {
    Ok(Value),
    Err(Value),
    Panic(fw::PanicInfo),
    Died(String),
    Unusable(String),
}

impl Run<'_> {
    fn call(&mut self, out: &Path, threads: u64, fault: &Value, bufsize: u64) -> GixOutcome {
        let mut p = json!({"pack": self.pack_file.display().to_string(), "out": out.display().to_string(),
            "lookup": self.lookup.map(|l| l.display().to_string()).unwrap_or_default(), "threads": threads, "bufsize": bufsize});
        if let Some(o) = fault.as_object() {
            for (k, v) in o {
                p[k] = v.clone();
            }
        }
        match self.child.call(&serde_json::to_vec(&p).unwrap(), Duration::from_secs(240)) {
            isolate::Outcome::Ok(b) => {
                let v: Value = serde_json::from_slice(&b).unwrap_or(Value::Null);
                if let Some(h) = v["harness_error"].as_str() {
                    GixOutcome::Unusable(h.to_string())
                } else if v["ok"].as_bool() == Some(true) {
                    GixOutcome::Ok(v)
                } else if v["ok"].as_bool() == Some(false) {
                    GixOutcome::Err(v)
                } else {
                    GixOutcome::Unusable("unparsable child response".into())
                }
            }
            isolate::Outcome::Panic(p) => GixOutcome::Panic(p),
            isolate::Outcome::Died(d) => GixOutcome::Died(d),
            isolate::Outcome::Timeout => GixOutcome::Unusable("timeout".into()),
        }
    }
}

fn list_dir(d: &Path) -> Vec<String> {
    let mut v: Vec<String> = std::fs::read_dir(d)
        .map(|rd| rd.flatten().map(|e| e.file_name().to_string_lossy().to_string()).collect())
        .unwrap_or_default();
    v.sort();
    v
}

fn fresh(d: &Path) {
    let _ = std::fs::remove_dir_all(d);
    let _ = std::fs::create_dir_all(d);
}

fn lines_first(s: &str) -> Vec<String> {
    s.lines().map(|l| l.split(' ').next().unwrap_or("").to_string()).filter(|l| !l.is_empty()).collect()
}

/// (offset, id, crc) triples of an .idx as git sees it
fn show_index(repo: &Path, idx: &Path) -> Result<Vec<(u64, String, String)>, String> {
    let data = std::fs::read(idx).map_err(|e| e.to_string())?;
    let o = git::run_in(repo, &["show-index"], &data).map_err(|e| e.to_string())?;
    if !o.ok {
        return Err(format!("git show-index failed: {}", o.err_text()));
    }
    Ok(o.text()
        .lines()
        .filter_map(|l| {
            let f: Vec<&str> = l.split_whitespace().collect();
            Some((f.first()?.parse().ok()?, f.get(1)?.to_string(), f.get(2).map(|s| s.to_string()).unwrap_or_default()))
        })
        .collect())
}

/// parse `git cat-file --batch` output into id -> (kind, bytes)
fn parse_batch(mut b: &[u8]) -> Result<HashMap<String, (String, Vec<u8>)>, String> {
    let mut out = HashMap::new();
    while !b.is_empty() {
        let nl = b.iter().position(|c| *c == b'\n').ok_or("batch: header")?;
        let head = std::str::from_utf8(&b[..nl]).map_err(|e| e.to_string())?;
        let f: Vec<&str> = head.split(' ').collect();
        if f.len() != 3 {
            return Err(format!("batch: bad header {head:?}"));
        }
        let size: usize = f[2].parse().map_err(|_| "batch: size")?;
        if b.len() < nl + 1 + size + 1 {
            return Err("batch: truncated".into());
        }
        out.insert(f[0].to_string(), (f[1].to_string(), b[nl + 1..nl + 1 + size].to_vec()));
        b = &b[nl + 1 + size + 1..];
    }
    Ok(out)
}

fn mutate_text(r: &mut Rng, v: &mut Vec<u8>) {
    for _ in 0..1 + r.usize(3) {
        if v.is_empty() {
            v.extend_from_slice(b"seed\n");
        }
        let i = r.usize(v.len());
        match r.below(3) {
            0 => v[i] = b'a' + r.below(26) as u8,
            1 => {
                let ins = format!("inserted {}\n", r.below(100_000));
                let tail = v.split_off(i);
                v.extend_from_slice(ins.as_bytes());
                v.extend_from_slice(&tail);
            }
            _ => {
                let l = (1 + r.usize(50)).min(v.len() - i);
                v.drain(i..i + l);
            }
        }
    }
}

fn add_chain(src: &Path, r: &mut Rng, versions: usize, small: bool) -> Result<(), String> {
    let mut content: Vec<u8> = Vec::new();
    let target = 300 + r.usize(if small { 1500 } else { 8000 });
    while content.len() < target {
        content.extend_from_slice(format!("chain line {} {}\n", r.below(500), r.below(100_000)).as_bytes());
    }
    let mut stream: Vec<u8> = Vec::new();
    for i in 0..versions {
        mutate_text(r, &mut content);
        let msg = format!("chain {i}\n");
        stream.extend_from_slice(
            format!("commit refs/keep/chain\nmark :{}\ncommitter C O Mitter <committer@example.com> {} +0000\ndata {}\n{}", i + 1, 1_600_000_000 + i, msg.len(), msg).as_bytes(),
        );
        if i > 0 {
            stream.extend_from_slice(format!("from :{}\n", i).as_bytes());
        }
        stream.extend_from_slice(format!("M 100644 inline chain/file.txt\ndata {}\n", content.len()).as_bytes());
        stream.extend_from_slice(&content);
        stream.extend_from_slice(b"\n\n");
    }
    let o = git::run_in(src, &["fast-import", "--quiet", "--force"], &stream).map_err(|e| e.to_string())?;
    if !o.ok {
        return Err(format!("fast-import(chain) failed: {}", o.err_text()));
    }
    Ok(())
}

struct Scenario {
    kind: PackKind,
    stream: Vec<u8>,
    /// objects dir holding the bases of a thin pack (also used as "some lookup" for full packs)
    base_objects: PathBuf,
    /// empty bare repository (for index-pack of self-contained packs, show-index)
    empty_repo: PathBuf,
    base_repo: PathBuf,
    source: HashMap<String, (String, Vec<u8>)>,
    desc: String,
}

fn build_scenario(ctx: &mut Ctx, r: &mut Rng, root: &Path, forced: Option<PackKind>) -> Result<Scenario, String> {
    let src = root.join("src.git");
    let base = root.join("base.git");
    let empty = root.join("empty.git");
    let mut spec = repogen::DagSpec::small(r);
    spec.delta_fodder = true;
    spec.commits = 3 + r.usize(if ctx.quick() { 25 } else { 60 });
    let small = forced == Some(PackKind::ThinOfs);
    if small {
        // a pack of a few KiB: every entry is within reach of a one-byte change of an OFS distance
        spec.commits = 2 + r.usize(5);
        spec.delta_fodder = false;
    }
    spec.max_changes = 1 + r.usize(4);
    let repo = repogen::build_dag(&src, r, &spec)?;
    let mut versions = if r.chance(1, 4) { 0 } else { 4 + r.usize(if ctx.quick() { 60 } else { 250 }) };
    if small {
        // make sure there are deltas against an external base followed by in-pack OFS deltas
        versions = 12 + r.usize(20);
    }
    if versions > 0 {
        add_chain(&src, r, versions, small)?;
    }
    git::init(&base, true)?;
    git::init(&empty, true)?;
    let kind = match r.below(20) {
        0..=8 => PackKind::FullOfs,
        9..=16 => PackKind::ThinOfs,
        17 => PackKind::FullRef,
        _ => PackKind::ThinRef,
    };
    let kind = forced.unwrap_or(kind);
    let depth = *r.pick(&[1u32, 5, 50, 250]);
    let window = *r.pick(&[10u32, 10, 50, 250]);
    let mut args: Vec<String> = vec!["-c".into(), "pack.threads=1".into()];
    let z = r.range(-1, 9);
    if z >= 0 {
        args.push("-c".into());
        args.push(format!("pack.compression={z}"));
    }
    args.extend(["pack-objects", "-q", "--stdout"].iter().map(|s| s.to_string()));
    args.push(format!("--depth={depth}"));
    args.push(format!("--window={window}"));
    if kind.ofs() {
        args.push("--delta-base-offset".into());
    }
    if r.chance(2, 3) {
        args.push("--no-reuse-delta".into());
    }
    let tips = lines_first(&git::ok(&src, &["for-each-ref", "--format=%(objectname)"])?);
    let mut desc = format!("{} depth={depth} window={window} z={z}", kind.name());
    let input: String;
    if kind == PackKind::Empty {
        input = String::new();
    } else if kind.thin() {
        let mut haves = vec![r.pick(&repo.commits).id.clone()];
        if r.bool() {
            haves.push(r.pick(&repo.commits).id.clone());
        }
        if versions > 1 {
            let back = 1 + r.usize(versions - 1);
            if let Ok(id) = git::ok(&src, &["rev-parse", &format!("refs/keep/chain~{back}")]) {
                haves.push(id);
            }
        }
        // the base repository holds everything reachable from the haves
        let mut a = vec!["rev-list".to_string(), "--objects".to_string()];
        a.extend(haves.iter().cloned());
        let base_ids = lines_first(&git::ok(&src, &a)?);
        let mut list = base_ids.join("\n");
        list.push('\n');
        let prefix = base.join("objects/pack/pack");
        git::ok_in(&src, &["-c", "pack.threads=1", "pack-objects", "-q", "--delta-base-offset", &prefix.display().to_string()], list.as_bytes())?;
        let mut s = String::new();
        for t in &tips {
            s.push_str(t);
            s.push('\n');
        }
        for h in &haves {
            s.push('^');
            s.push_str(h);
            s.push('\n');
        }
        input = s;
        args.push("--thin".into());
        args.push("--revs".into());
        desc.push_str(&format!(" haves={}", haves.len()));
    } else if r.bool() {
        input = tips.join("\n") + "\n";
        args.push("--revs".into());
    } else {
        // a random subset of all objects (no closure required for a pack)
        let mut ids: Vec<String> = repo.all_objects()?.into_iter().map(|t| t.0).collect();
        r.shuffle(&mut ids);
        let keep = 1 + r.usize(ids.len());
        ids.truncate(keep);
        input = ids.join("\n") + "\n";
        desc.push_str(" object-list");
    }
    let o = git::run_in(&src, &args, input.as_bytes()).map_err(|e| e.to_string())?;
    if !o.ok {
        return Err(format!("pack-objects failed: {}", o.err_text()));
    }
    ctx.count("git_calls_pack_objects");
    let b = git::run(&src, &["cat-file", "--batch-all-objects", "--batch"]).map_err(|e| e.to_string())?;
    if !b.ok {
        return Err("cat-file --batch failed".into());
    }
    let source = parse_batch(&b.stdout)?;
    Ok(Scenario { kind, stream: o.stdout, base_objects: base.join("objects"), empty_repo: empty, base_repo: base, source, desc })
}

fn count_class(n: usize) -> u8 {
    match n {
        0 => 0,
        1..=9 => 1,
        10..=99 => 2,
        100..=499 => 3,
        _ => 4,
    }
}

/// max delta chain depth in a self-contained pack, via git verify-pack -v on (pack, idx)
fn max_depth(repo: &Path, idx: &Path) -> u32 {
    git::ok(repo, &["verify-pack", "-v", &idx.display().to_string()])
        .map(|t| {
            t.lines()
                .filter_map(|l| {
                    let f: Vec<&str> = l.split_whitespace().collect();
                    if f.len() >= 7 && f[0].len() == 40 {
                        f[5].parse::<u32>().ok()
                    } else {
                        None
                    }
                })
                .max()
                .unwrap_or(0)
        })
        .unwrap_or(0)
}

fn depth_class(d: u32) -> u8 {
    match d {
        0 => 0,
        1..=4 => 1,
        5..=20 => 2,
        21..=60 => 3,
        _ => 4,
    }
}

#[allow(clippy::too_many_arguments)]
fn valid_runs(ctx: &mut Ctx, r: &mut Rng, sc: &Scenario, root: &Path, child: &mut isolate::Child, pack_file: &Path, with_lookup: bool, limits: &[u64]) -> Option<Vec<u64>> {
    let mode = if with_lookup { "with-lookup" } else { "no-lookup" };
    let wit_base = json!({"pack": sc.desc, "pack_bytes": sc.stream.len(), "mode": mode});
    let mut run = Run { child, pack_file, lookup: with_lookup.then_some(sc.base_objects.as_path()) };
    let mut reference: Option<(u64, Vec<u8>, Vec<u8>)> = None;
    let mut entry_offsets: Option<Vec<u64>> = None;
    for &t in limits {
        let out = root.join(format!("out-{mode}-{t}"));
        fresh(&out);
        ctx.eval();
        ctx.count(&format!("valid_runs_threads_{t}"));
        let bufsize = *r.pick(&[8192u64, 1, 17, 4096, 65536]);
        let res = run.call(&out, t, &Value::Null, bufsize);
        let mut wit = wit_base.clone();
        wit["threads"] = json!(t);
        let v = match res {
            GixOutcome::Unusable(e) => {
                ctx.inconclusive(&format!("child unusable: {e}"));
                return None;
            }
            GixOutcome::Panic(p) => {
                ctx.panic_violation("Bundle::write_to_directory", &p, &format!("valid-{}", sc.kind.name()), wit);
                return None;
            }
            GixOutcome::Died(d) => {
                ctx.violation(&format!("died|valid|{}|{d}", sc.kind.name()), &format!("process died ({d}) while indexing a valid pack"), wit);
                return None;
            }
            GixOutcome::Err(e) => {
                wit["error"] = e.clone();
                let inner = e["inner"].as_str().unwrap_or("");
                let class = e["class"].as_str().unwrap_or("?");
                let dbg = e["debug"].as_str().unwrap_or("");
                // a base that is not in the base repository must be inside the pack itself (git made the pack)
                let missing_is_in_pack = dbg.split("Sha1(").nth(1).and_then(|t| t.get(..40)).map(|id| {
                    !git::run(&sc.base_repo, &["cat-file", "-e", id]).map(|o| o.ok).unwrap_or(true)
                });
                if !sc.kind.ofs() && (dbg.contains("IteratorInvariantNoRefDelta") || (dbg.contains("NotFound") && missing_is_in_pack == Some(true))) {
                    // REF_DELTA whose base lives in the same pack
                    ctx.count("ref_delta_pack_rejected");
                    ctx.violation(
                        &format!("valid-rejected|ref-delta-with-in-pack-base|{mode}"),
                        &format!("a valid git pack using REF_DELTA entries with bases inside the pack is rejected: {}", e["error"].as_str().unwrap_or("?")),
                        wit,
                    );
                } else {
                    ctx.violation(
                        &format!("valid-rejected|{}|{class}/{inner}|{mode}", if sc.kind.thin() { "thin" } else { "full" }),
                        &format!("a valid git pack is rejected: {}", e["error"].as_str().unwrap_or("?")),
                        wit,
                    );
                }
                return None;
            }
            GixOutcome::Ok(v) => v,
        };
        let files = list_dir(&out);
        if sc.kind == PackKind::Empty || v["num_objects"].as_u64() == Some(0) {
            ctx.count("empty_pack_runs");
            if v["num_objects"].as_u64() != Some(0) || !files.is_empty() {
                ctx.violation("empty-pack|unexpected-output", "empty pack produced objects or files", json!({"files": files, "outcome": v}));
            }
            ctx.distinct(("valid", sc.kind.name(), 0u8, 0u8, t, with_lookup));
            continue;
        }
        let (Some(ip), Some(dp)) = (v["index_path"].as_str(), v["data_path"].as_str()) else {
            ctx.violation(&format!("valid|no-paths|{mode}"), "Ok outcome without index/data path for a non-empty pack", wit);
            return None;
        };
        let (Ok(idx), Ok(pack)) = (std::fs::read(ip), std::fs::read(dp)) else {
            ctx.violation(&format!("valid|files-missing|{mode}"), "Ok outcome but the pack/index files are not readable", wit);
            return None;
        };
        let hash = v["data_hash"].as_str().unwrap_or("");
        let expect = vec![format!("pack-{hash}.idx"), format!("pack-{hash}.keep"), format!("pack-{hash}.pack")];
        if files != expect {
            // the .keep file is expected; anything else (tempfiles) is not part of the contract checked here
            ctx.count("unexpected_files_after_success");
            ctx.note("unexpected_files_example", json!(files));
        }
        match &reference {
            None => reference = Some((t, pack.clone(), idx.clone())),
            Some((t0, p0, i0)) => {
                ctx.eval();
                ctx.count("thread_limit_comparisons");
                if *p0 != pack || *i0 != idx {
                    let mut w = wit.clone();
                    w["compared_with_threads"] = json!(t0);
                    w["pack_equal"] = json!(*p0 == pack);
                    w["idx_equal"] = json!(*i0 == idx);
                    ctx.violation(
                        &format!("thread-dependence|{}|{mode}", if sc.kind.thin() { "thin" } else { "full" }),
                        &format!("output differs between thread_limit {t0} and {t}"),
                        w,
                    );
                }
                continue; // identical to the reference: the git comparison below was done already
            }
        }
        // ---- git comparison (first thread limit only; the others are compared byte-wise to it)
        ctx.eval();
        if !sc.kind.thin() {
            if pack != sc.stream {
                let first = pack.iter().zip(sc.stream.iter()).position(|(a, b)| a != b).unwrap_or(pack.len().min(sc.stream.len()));
                let mut w = wit.clone();
                w["first_diff"] = json!(first);
                w["written_len"] = json!(pack.len());
                ctx.violation(&format!("full|pack-bytes-differ|{mode}"), "the stored pack is not the received non-thin stream", w);
            }
        }
        // index the pack gitoxide stored with git, in a repository without any objects
        let gdir = root.join(format!("git-{mode}"));
        fresh(&gdir);
        let gpack = gdir.join("p.pack");
        let gidx = gdir.join("p.idx");
        if std::fs::write(&gpack, &pack).is_err() {
            ctx.inconclusive("cannot copy pack for git");
            return None;
        }
        let o = git::run(&sc.empty_repo, &["index-pack", "--threads=1", "-o", &gidx.display().to_string(), &gpack.display().to_string()]);
        ctx.count("git_calls_index_pack");
        match o {
            Ok(o) if o.ok => {
                let git_idx = std::fs::read(&gidx).unwrap_or_default();
                if git_idx != idx {
                    let mut w = wit.clone();
                    let a = show_index(&sc.empty_repo, &gidx).unwrap_or_default();
                    let b = show_index(&sc.empty_repo, Path::new(ip)).unwrap_or_default();
                    let diff: Vec<_> = a.iter().zip(b.iter()).filter(|(x, y)| x != y).take(3).map(|(x, y)| json!({"git": x, "gix": y})).collect();
                    w["entries_git"] = json!(a.len());
                    w["entries_gix"] = json!(b.len());
                    w["first_differences"] = json!(diff);
                    ctx.violation(
                        &format!("idx-differs-from-git|{}|{mode}", if sc.kind.thin() { "thin" } else { "full" }),
                        "the .idx gitoxide wrote is not byte-identical to git index-pack's for the same pack",
                        w,
                    );
                }
                ctx.count("idx_byte_comparisons");
            }
            Ok(o) => {
                let mut w = wit.clone();
                w["git_error"] = json!(o.err_text());
                ctx.violation(
                    &format!("stored-pack-rejected-by-git|{}|{mode}", if sc.kind.thin() { "thin" } else { "full" }),
                    &format!("git index-pack rejects the pack gitoxide stored: {}", o.err_text().chars().take(120).collect::<String>()),
                    w,
                );
                return None;
            }
            Err(e) => {
                ctx.inconclusive(&format!("git index-pack spawn: {e}"));
                return None;
            }
        }
        let listing = show_index(&sc.empty_repo, Path::new(ip)).unwrap_or_default();
        let gix_ids: Vec<String> = listing.iter().map(|t| t.1.clone()).collect();
        entry_offsets = Some(listing.iter().map(|t| t.0).collect());
        if sc.kind.thin() {
            // object set must be the one git derives when completing the thin pack
            let gbase = root.join("base-copy.git");
            let _ = std::fs::remove_dir_all(&gbase);
            let cp = std::process::Command::new("/bin/cp").arg("-r").arg(&sc.base_repo).arg(&gbase).status();
            if !cp.map(|s| s.success()).unwrap_or(false) {
                ctx.inconclusive("cp base repo failed");
                return None;
            }
            match git::run_in(&gbase, &["index-pack", "--fix-thin", "--stdin", "--threads=1"], &sc.stream) {
                Ok(o) if o.ok => {
                    let h = o.text().split_whitespace().last().unwrap_or("").to_string();
                    let fixed = gbase.join(format!("objects/pack/pack-{h}.idx"));
                    let git_ids: BTreeSet<String> = show_index(&gbase, &fixed).unwrap_or_default().into_iter().map(|t| t.1).collect();
                    ctx.count("git_calls_fix_thin");
                    ctx.eval();
                    let ours: BTreeSet<String> = gix_ids.iter().cloned().collect();
                    if ours.len() != gix_ids.len() || ours != git_ids {
                        let mut w = wit.clone();
                        w["gix_entries"] = json!(gix_ids.len());
                        w["gix_unique"] = json!(ours.len());
                        w["git_entries"] = json!(git_ids.len());
                        w["only_gix"] = json!(ours.difference(&git_ids).take(3).collect::<Vec<_>>());
                        w["only_git"] = json!(git_ids.difference(&ours).take(3).collect::<Vec<_>>());
                        ctx.violation("thin|object-set-differs-from-git-fix-thin", "the completed thin pack does not hold the objects git index-pack --fix-thin derives", w);
                    }
                    ctx.count_n("thin_bases_injected", (git_ids.len() as u64).saturating_sub(
                        // objects in the thin stream itself
                        u32::from_be_bytes([sc.stream[8], sc.stream[9], sc.stream[10], sc.stream[11]]) as u64));
                }
                Ok(o) => ctx.inconclusive(&format!("git index-pack --fix-thin failed: {}", o.err_text().chars().take(100).collect::<String>())),
                Err(e) => ctx.inconclusive(&format!("git spawn: {e}")),
            }
            let _ = std::fs::remove_dir_all(&gbase);
        }
        // ---- every object is retrievable through the new bundle
        let depth = max_depth(&sc.empty_repo, &gidx);
        ctx.distinct(("valid", sc.kind.name(), count_class(gix_ids.len()), depth_class(depth), t, with_lookup));
        match guard(|| gix_pack::Bundle::at(ip, gix_hash::Kind::Sha1)) {
            Err(p) => ctx.panic_violation("Bundle::at(new index)", &p, mode, wit.clone()),
            Ok(Err(e)) => ctx.violation(&format!("readback|open|{mode}"), &format!("cannot open the bundle just written: {e}"), wit.clone()),
            Ok(Ok(bundle)) => {
                let mut buf = Vec::new();
                let mut inflate = gix_features::zlib::Inflate::default();
                let mut cache = gix_pack::cache::lru::StaticLinkedList::<64>::default();
                for id in &gix_ids {
                    ctx.eval();
                    ctx.count("objects_read_back");
                    let oid = gix_hash::ObjectId::from_hex(id.as_bytes()).expect("hex from git");
                    let got = guard(|| bundle.find(&oid, &mut buf, &mut inflate, &mut cache).map(|o| o.map(|(d, _)| (d.kind, d.data.len()))));
                    let mut w = wit.clone();
                    w["id"] = json!(id);
                    match got {
                        Err(p) => {
                            ctx.panic_violation("Bundle::find(new bundle)", &p, mode, w);
                            break;
                        }
                        Ok(Err(e)) => ctx.violation(&format!("readback|error|{mode}"), &format!("object in the new pack cannot be decoded: {e}"), w),
                        Ok(Ok(None)) => ctx.violation(&format!("readback|not-found|{mode}"), "id listed by git show-index is not found by the new bundle", w),
                        Ok(Ok(Some((kind, len)))) => {
                            let data = &buf[..len];
                            if fw::git_oid(&kind.to_string(), data) != oid.as_bytes()[..] {
                                ctx.violation(&format!("readback|sha1|{mode}"), "object decoded from the new bundle does not hash to its id", w);
                            } else if let Some((k, d)) = sc.source.get(id) {
                                if *k != kind.to_string() || d.as_slice() != data {
                                    ctx.violation(&format!("readback|differs-from-source|{mode}"), "object decoded from the new bundle differs from the source repository's", w);
                                }
                            } else {
                                ctx.count("readback_id_not_in_source");
                            }
                        }
                    }
                }
            }
        }
        if ctx.want_sample() {
            ctx.sample(json!({"pack": sc.desc, "pack_bytes": sc.stream.len(), "objects": gix_ids.len(), "max_delta_depth": depth, "mode": mode, "threads": limits, "data_hash": hash}));
        }
    }
    entry_offsets
}

#[derive(Clone, Copy)]
struct EntryInfo {
    offset: u64,
    header_size: u16,
    ofs_distance: Option<u64>,
    is_ref: bool,
}

/// number of bytes git's offset encoding needs for `d`
fn ofs_varint_len(mut d: u64) -> u64 {
    let mut n = 1;
    d >>= 7;
    while d != 0 {
        d -= 1;
        n += 1;
        d >>= 7;
    }
    n
}

/// layout of every entry of a valid stream
fn stream_entries(stream: &[u8]) -> Vec<EntryInfo> {
    guard(|| {
        let rd = std::io::BufReader::new(std::io::Cursor::new(stream.to_vec()));
        match gix_pack::data::input::BytesToEntriesIter::new_from_header(rd, gix_pack::data::input::Mode::Verify, gix_pack::data::input::EntryDataMode::Ignore, gix_hash::Kind::Sha1) {
            Ok(it) => it
                .filter_map(Result::ok)
                .map(|e| EntryInfo {
                    offset: e.pack_offset,
                    header_size: e.header_size,
                    ofs_distance: match e.header {
                        gix_pack::data::entry::Header::OfsDelta { base_distance } => Some(base_distance),
                        _ => None,
                    },
                    is_ref: matches!(e.header, gix_pack::data::entry::Header::RefDelta { .. }),
                })
                .collect(),
            Err(_) => Vec::new(),
        }
    })
    .unwrap_or_default()
}

fn fault_region(pos: usize, len: usize, entries: &[EntryInfo]) -> &'static str {
    if pos < 12 {
        "pack-header"
    } else if pos + 20 >= len {
        "trailer"
    } else if entries.iter().any(|e| (e.offset as usize..e.offset as usize + e.header_size as usize).contains(&pos)) {
        "entry-header"
    } else {
        "entry-data"
    }
}

#[allow(clippy::too_many_arguments)]
fn fault_runs(ctx: &mut Ctx, r: &mut Rng, sc: &Scenario, root: &Path, child: &mut isolate::Child, pack_file: &Path, with_lookup: bool, entries: &[EntryInfo], n_faults: usize) {
    let entry_offsets: Vec<u64> = entries.iter().map(|e| e.offset).collect();
    let entry_offsets = entry_offsets.as_slice();
    let mode = if with_lookup { "with-lookup" } else { "no-lookup" };
    let len = sc.stream.len();
    let mut faults: Vec<Value> = Vec::new();
    // truncations
    if len <= 4096 {
        let step = (len / (n_faults / 2).max(1)).max(1);
        let mut l = 0;
        while l < len {
            faults.push(json!({"truncate": l}));
            l += if l < 40 || l + 40 >= len { 1 } else { step };
        }
    } else {
        for l in [0usize, 1, 4, 11, 12, 13, 14, 20, 32, len - 21, len - 20, len - 19, len - 2, len - 1] {
            faults.push(json!({"truncate": l}));
        }
        for _ in 0..n_faults / 3 {
            faults.push(json!({"truncate": r.usize(len)}));
        }
        for _ in 0..4 {
            // exactly at an entry boundary
            if !entry_offsets.is_empty() {
                faults.push(json!({"truncate": *r.pick(entry_offsets)}));
            }
        }
    }
    // flips
    let flip = |pos: usize, r: &mut Rng| json!({"flip_pos": pos, "flip_xor": if r.bool() { 1u64 << r.below(8) } else { 1 + r.below(255) }});
    for _ in 0..n_faults / 4 {
        if !entry_offsets.is_empty() {
            let o = *r.pick(entry_offsets) as usize;
            faults.push(flip((o + r.usize(3)).min(len - 1), r));
        }
    }
    for _ in 0..n_faults / 3 {
        faults.push(flip(r.usize(len), r));
    }
    for _ in 0..4 {
        faults.push(flip(len - 1 - r.usize(20.min(len)), r));
    }
    r.shuffle(&mut faults);
    // keep all of small packs, a bounded number otherwise
    faults.truncate(if len <= 4096 { 160.max(n_faults + 24) } else { n_faults + 24 });
    // always: lowest and highest bit of every pack header byte (signature, version, object count) …
    for p in 0..12usize.min(len) {
        faults.push(json!({"flip_pos": p, "flip_xor": 1}));
        faults.push(json!({"flip_pos": p, "flip_xor": 0x80}));
    }
    // … and the base distance of OFS deltas: most significant value bits of the first distance byte (distance grows beyond
    // the start of the pack for early entries) and the last byte. Early entries and entries after the first REF_DELTA
    // (where a thin-pack base was injected before them) first.
    let ofs: Vec<&EntryInfo> = entries.iter().filter(|e| e.ofs_distance.is_some()).collect();
    if with_lookup {
        // reach: streams in which offsets have to be re-computed after an injected base
        ctx.count_n("stream_ref_delta_entries", entries.iter().filter(|e| e.is_ref).count() as u64);
        if let Some(first_ref) = entries.iter().position(|e| e.is_ref) {
            ctx.count_n("stream_ofs_delta_entries_after_first_ref_delta", entries[first_ref..].iter().filter(|e| e.ofs_distance.is_some()).count() as u64);
        }
    }
    let mut targets: Vec<&EntryInfo> = ofs.iter().take(3).copied().collect();
    if let Some(first_ref) = entries.iter().position(|e| e.is_ref) {
        targets.extend(entries[first_ref..].iter().filter(|e| e.ofs_distance.is_some()).take(3));
    }
    for _ in 0..2 {
        if !ofs.is_empty() {
            targets.push(*r.pick(&ofs));
        }
    }
    for e in targets {
        let d = e.ofs_distance.unwrap_or(0);
        let first = (e.offset + e.header_size as u64 - ofs_varint_len(d)) as usize;
        let last = (e.offset + e.header_size as u64 - 1) as usize;
        if last < len {
            faults.push(json!({"flip_pos": first, "flip_xor": 0x40}));
            // all value bits of the most significant distance byte set: the largest distance of the same encoded length
            let all_ones = 0x7f ^ (sc.stream[first] & 0x7f);
            if all_ones != 0 {
                faults.push(json!({"flip_pos": first, "flip_xor": all_ones}));
            }
            if last != first {
                faults.push(json!({"flip_pos": last, "flip_xor": 0x40}));
            }
        }
    }
    let mut run = Run { child, pack_file, lookup: with_lookup.then_some(sc.base_objects.as_path()) };
    let out = root.join("out-fault");
    for f in faults {
        fresh(&out);
        ctx.eval();
        let (fkind, pos) = match (f["truncate"].as_u64(), f["flip_pos"].as_u64()) {
            (Some(l), _) => ("truncation", l as usize),
            (_, Some(p)) => ("flip", p as usize),
            _ => continue,
        };
        let region = fault_region(pos.min(len.saturating_sub(1)), len, entries);
        ctx.count(&format!("faults_{fkind}"));
        let t = *r.pick(&[1u64, 2, 4]);
        let res = run.call(&out, t, &f, 8192);
        // shape of a fault case: where it hit and which check of the implementation refused it
        let refused_by = match &res {
            GixOutcome::Err(e) => format!("{}/{}", e["class"].as_str().unwrap_or("?"), e["inner"].as_str().unwrap_or("")),
            GixOutcome::Ok(_) => "accepted".into(),
            GixOutcome::Panic(_) => "panic".into(),
            GixOutcome::Died(_) => "died".into(),
            GixOutcome::Unusable(_) => "unusable".into(),
        };
        ctx.count(&format!("refused_by_{refused_by}"));
        ctx.distinct(("fault", fkind, region, sc.kind.name(), with_lookup, refused_by));
        let files = list_dir(&out);
        let wit = json!({"pack": sc.desc, "pack_bytes": len, "mode": mode, "fault": f, "region": region, "threads": t, "files_after": files,
            "stream_hex": if len <= 400 { fw::hex(&sc.stream) } else { String::new() }});

        match res {
            GixOutcome::Unusable(e) => {
                ctx.count("fault_runs_unusable");
                ctx.inconclusive(&format!("child unusable during fault run: {e}"));
            }
            GixOutcome::Err(_) => ctx.count("faults_rejected"),
            GixOutcome::Ok(v) => {
                let mut w = wit.clone();
                w["outcome"] = v;
                if w["outcome"]["num_objects"].as_u64() == Some(0) {
                    // one defect: when the header announces zero objects the trailer is never read, whatever follows the header
                    // (truncated or altered trailer of an empty pack; a flipped count that became zero)
                    ctx.violation(
                        "fault-accepted|zero-objects|trailer-not-verified",
                        &format!("a pack stream whose header says 0 objects is accepted although it has a {fkind} in the {region} (git index-pack rejects it)"),
                        w,
                    );
                } else {
                    ctx.violation(
                        &format!("fault-accepted|{fkind}|{region}"),
                        &format!("a pack stream with a {fkind} in the {region} is accepted (git index-pack rejects it)"),
                        w,
                    );
                }
            }
            GixOutcome::Panic(p) => {
                ctx.count("faults_panicked");
                ctx.panic_violation("Bundle::write_to_directory", &p, fkind, wit.clone());
            }
            GixOutcome::Died(d) => {
                ctx.count("faults_process_died");
                ctx.violation(&format!("died|{fkind}|{region}|{d}"), &format!("the process died ({d}) instead of rejecting a corrupted stream"), wit.clone());
            }
        }
        let has_pack = files.iter().any(|f| f.starts_with("pack-") && f.ends_with(".pack"));
        let has_idx = files.iter().any(|f| f.starts_with("pack-") && f.ends_with(".idx"));
        if has_pack && has_idx {
            ctx.violation(&format!("fault-left-pair|{fkind}|{region}"), "a corrupted stream left a pack/idx pair in the target directory", wit);
        } else if !files.is_empty() {
            ctx.count("fault_leftover_files");
            ctx.note("fault_leftover_example", json!(files));
        }
    }
}

pub fn run(ctx: &mut Ctx) {
    ctx.rule(
        "case = one scenario: random repository (repogen + edit chain) -> one git pack-objects stream (full by refs or random object list / thin against \
         a base repository / OFS or REF deltas / empty; depth {1,5,50,250}, window {10,50,250}, zlib level) stored by Bundle::write_to_directory for \
         thread limits from {1,2,3,4,8,16} without and with base lookup, compared with git index-pack (idx bytes), across thread limits (bytes), \
         read back object by object; then truncations and single-byte flips of the stream. distinct = (pack kind, object count class, max delta depth class, \
         thread limit, lookup mode) and (fault kind, region, pack kind, lookup mode)",
    );
    ctx.assume("git 2.39.5 index-pack/show-index/verify-pack are correct; timeouts of the isolated child are inconclusive, never violations");
    let n = ctx.n(8, 200);
    let quick = ctx.quick();
    let n_faults = if quick { 26 } else { 70 };
    let mut child = isolate::Child::new("C10", "index");
    // cheap, fixed-kind scenarios first so that a budget stop in the long mixed part cannot skip them
    let plan: [(&str, u64, Option<PackKind>); 5] = [
        ("scenario-empty-pack", 1, Some(PackKind::Empty)),
        ("scenario-thin-ofs", ctx.n(2, 6), Some(PackKind::ThinOfs)),
        // the REF_DELTA flavours are rare in the mix; make sure every run sees them
        ("scenario-full-ref", ctx.n(1, 6), Some(PackKind::FullRef)),
        ("scenario-thin-ref", ctx.n(1, 6), Some(PackKind::ThinRef)),
        ("scenario", n, None),
    ];
    for (label, count, forced) in plan {
    ctx.cases(label, count, |ctx, r| {
        let root = ctx.dir("scenario");
        let t0 = ctx.elapsed();
        let sc = match build_scenario(ctx, r, &root, forced) {
            Ok(s) => s,
            Err(e) => {
                ctx.count("scenario_setup_failed");
                ctx.inconclusive(&format!("scenario setup: {}", e.chars().take(160).collect::<String>()));
                return;
            }
        };
        ctx.count("scenarios");
        ctx.count_n("ms_setup_git", ((ctx.elapsed() - t0) * 1000.0) as u64);
        ctx.count(&format!("pack_kind_{}", sc.kind.name()));
        let pack_file = root.join("stream.pack");
        if std::fs::write(&pack_file, &sc.stream).is_err() {
            ctx.inconclusive("cannot write stream file");
            return;
        }
        let mut limits: Vec<u64> = vec![1];
        let mut others = vec![2u64, 3, 4, 8, 16];
        r.shuffle(&mut others);
        limits.extend(others.iter().take(if quick { 3 } else { 5 }));
        if r.bool() {
            limits.reverse();
        }
        let modes: &[bool] = if sc.kind.thin() { &[true] } else { &[false, true] };
        for &with_lookup in modes {
            let t1 = ctx.elapsed();
            let offsets = valid_runs(ctx, r, &sc, &root, &mut child, &pack_file, with_lookup, &limits);
            ctx.count_n("ms_valid_runs", ((ctx.elapsed() - t1) * 1000.0) as u64);
            if !ctx.time_left() {
                return;
            }
            // faults on the streams gitoxide accepts when intact
            let offs = match (&offsets, sc.kind) {
                (Some(o), _) => o.clone(),
                (None, PackKind::Empty) => Vec::new(),
                (None, _) => continue,
            };
            // entry boundaries of the stream itself (for thin packs the index listing describes the completed pack instead)
            let _ = offs;
            let entries = stream_entries(&sc.stream);
            if sc.kind == PackKind::Empty || sc.kind.ofs() {
                let t2 = ctx.elapsed();
                fault_runs(ctx, r, &sc, &root, &mut child, &pack_file, with_lookup, &entries, n_faults);
                ctx.count_n("ms_fault_runs", ((ctx.elapsed() - t2) * 1000.0) as u64);
            }
        }
    });
    }
    ctx.count_n("child_restarts", child.restarts);
}
