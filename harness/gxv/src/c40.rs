//! C40 Path names git refuses to write are refused.
//!
//! Oracle (one-directional, differential): a path whose tested component git 2.39.5 refuses in
//! `verify_path()` under `-c core.protectNTFS=<n> -c core.protectHFS=<h>` must also be refused by
//! `gix_validate::path::component` with `protect_ntfs=n, protect_hfs=h` for *both* values of the
//! gitoxide-only `protect_windows`, and by its three users (index-from-tree, `gix` tree editor,
//! checkout stack delegate). gitoxide being stricter is fine.
//!
//! git is asked in batches: `git update-index -z --index-info` skips refused paths ("Ignoring path")
//! using the same `verify_path(path, mode)` as `--add --cacheinfo`; `git ls-files -z` reads back what was
//! accepted. One entry per case is cross-checked with `--add --cacheinfo` (the form named in the property),
//! and every violation is re-confirmed that way before it is reported.
use crate::fw::{git, guard, show, Ctx, Rng};
use bstr::{BString, ByteSlice};
use gix_validate::path::component::{Mode as VMode, Options as VOpts};
use serde_json::json;
use std::collections::{HashMap, HashSet};
use std::ffi::OsString;
use std::os::unix::ffi::OsStringExt;
use std::path::{Path, PathBuf};

pub fn child(_mode: &str) {}

const IGNORABLE: [u32; 16] = [
    0x200c, 0x200d, 0x200e, 0x200f, 0x202a, 0x202b, 0x202c, 0x202d, 0x202e, 0x206a, 0x206b, 0x206c, 0x206d, 0x206e,
    0x206f, 0xfeff,
];
/// code points that look similar but are NOT ignored by HFS+ (git must accept, so nothing is demanded)
const NEAR_IGNORABLE: [u32; 8] = [0x200b, 0x2060, 0x00ad, 0x2029, 0x2069, 0x2070, 0xfefe, 0x180e];

const T_CASE: u32 = 1;
const T_TRAIL: u32 = 2;
const T_STREAM: u32 = 4;
const T_IGNORABLE: u32 = 8;
const T_NEAR: u32 = 16;
const T_BS_PREFIX: u32 = 32;
const T_BS_SUFFIX: u32 = 64;
const T_BADUTF8: u32 = 128;
const T_EDIT: u32 = 256;

const KINDS: [&str; 9] = [
    "dotgit",
    "dotgitmodules",
    "git~1",
    "gitmod~N",
    "gi7eba-fallback",
    "device",
    "dots",
    "near-miss",
    "random",
];

fn utf8(cp: u32) -> Vec<u8> {
    let mut b = [0u8; 4];
    char::from_u32(cp).unwrap_or('\u{fffd}').encode_utf8(&mut b).as_bytes().to_vec()
}

fn insert_at_boundary(v: &mut Vec<u8>, mut pos: usize, what: &[u8]) {
    while pos < v.len() && v[pos] & 0xc0 == 0x80 {
        pos += 1;
    }
    let tail = v.split_off(pos);
    v.extend_from_slice(what);
    v.extend_from_slice(&tail);
}

fn gen_seed(r: &mut Rng) -> (Vec<u8>, usize) {
    match r.below(100) {
        0..=24 => (b".git".to_vec(), 0),
        25..=44 => (b".gitmodules".to_vec(), 1),
        45..=52 => (b"git~1".to_vec(), 2),
        53..=60 => (format!("gitmod~{}", r.range(1, 4)).into_bytes(), 3),
        61..=70 => {
            // fall-back short name: prefix of gi7eba, '~', digits up to 8 bytes in total (sometimes off by one)
            let p = r.usize(7);
            let mut v = b"gi7eba"[..p].to_vec();
            v.push(b'~');
            let total: usize = match r.below(8) {
                0 => 7,
                1 => 9,
                _ => 8,
            };
            let nd = total.saturating_sub(p + 1).max(1);
            for i in 0..nd {
                let d = if i == 0 && !r.chance(1, 10) { r.range(1, 9) } else { r.range(0, 9) };
                v.push(b'0' + d as u8);
            }
            (v, 4)
        }
        71..=76 => {
            let d = *r.pick(&["aux", "con", "nul", "prn", "com1", "com9", "lpt1", "lpt0", "conin$", "conout$"]);
            (d.as_bytes().to_vec(), 5)
        }
        77..=80 => (r.pick(&[".", "..", "...", ". ", ".. "]).as_bytes().to_vec(), 6),
        81..=89 => {
            let d = *r.pick(&[
                ".gi",
                ".g",
                "git",
                ".gitx",
                ".git~1",
                "git~2",
                "git~10",
                "gitmod~5",
                "gitmod~0",
                "gitmodules",
                ".gitmodule",
                ".gitmoduless",
                ".gitattributes",
                ".gitignore",
                "gitmo~1",
                "gi7eba",
                "gi7ebb~1",
                ".git~1",
                "~1",
            ]);
            (d.as_bytes().to_vec(), 7)
        }
        _ => {
            let len = 1 + r.usize(12);
            let v = if r.chance(1, 4) {
                (0..len)
                    .map(|_| loop {
                        let b = r.next_u64() as u8;
                        if b != 0 && b != b'/' {
                            break b;
                        }
                    })
                    .collect()
            } else {
                r.bytes_from(len, b".gitGIT~1234 :\\.modulesMODULES$7eba")
            };
            (v, 8)
        }
    }
}

fn gen_component(r: &mut Rng) -> (Vec<u8>, usize, u32) {
    let (mut v, kind) = gen_seed(r);
    let mut mask = 0u32;
    let nt = match r.below(10) {
        0 => 0,
        1..=5 => 1,
        6..=8 => 2,
        _ => 3,
    };
    for _ in 0..nt {
        match r.below(12) {
            0 | 1 => {
                mask |= T_CASE;
                for b in v.iter_mut() {
                    if b.is_ascii_alphabetic() && r.bool() {
                        *b ^= 0x20;
                    }
                }
            }
            2 | 3 => {
                mask |= T_TRAIL;
                let n = 1 + r.usize(4);
                let t = r.bytes_from(n, b" .");
                v.extend_from_slice(&t);
            }
            4 => {
                mask |= T_STREAM;
                let s = *r.pick(&[":stream", "::$INDEX_ALLOCATION", ":", ":$DATA", " :x", ". :", ":.git"]);
                v.extend_from_slice(s.as_bytes());
            }
            5 | 6 => {
                mask |= T_IGNORABLE;
                for _ in 0..1 + r.usize(3) {
                    let cp = *r.pick(&IGNORABLE);
                    let pos = r.usize(v.len() + 1);
                    insert_at_boundary(&mut v, pos, &utf8(cp));
                }
            }
            7 => {
                mask |= T_NEAR;
                let cp = *r.pick(&NEAR_IGNORABLE);
                let pos = r.usize(v.len() + 1);
                insert_at_boundary(&mut v, pos, &utf8(cp));
            }
            8 => {
                mask |= T_BS_PREFIX;
                let p = *r.pick(&["a\\", "\\", "a\\b\\", ".git\\", "x \\"]);
                let mut n = p.as_bytes().to_vec();
                n.extend_from_slice(&v);
                v = n;
            }
            9 => {
                mask |= T_BS_SUFFIX;
                let s = *r.pick(&["\\", "\\a", "\\.git", " \\x", ".\\"]);
                v.extend_from_slice(s.as_bytes());
            }
            10 => {
                mask |= T_BADUTF8;
                let bad: &[u8] = *r.pick(&[
                    &b"\xff"[..],
                    &b"\xc0\xae"[..],
                    &b"\xed\xa0\x80"[..],
                    &b"\xe2\x80"[..],
                    &b"\x80"[..],
                    &b"\xf8\x88\x80\x80\x80"[..],
                    &b"\xef\xbf\xbe"[..],
                    &b"\xf0\x9f\xbf\xbe"[..],
                ]);
                let pos = if r.bool() { v.len() } else { r.usize(v.len() + 1) };
                if r.chance(1, 6) {
                    // not necessarily at a boundary
                    let tail = v.split_off(pos);
                    v.extend_from_slice(bad);
                    v.extend_from_slice(&tail);
                } else {
                    insert_at_boundary(&mut v, pos, bad);
                }
            }
            _ => {
                mask |= T_EDIT;
                if v.is_empty() {
                    continue;
                }
                let pos = r.usize(v.len());
                match r.below(4) {
                    0 => {
                        if v.len() > 1 {
                            v.remove(pos);
                        }
                    }
                    1 => {
                        let b = v[pos];
                        v.insert(pos, b);
                    }
                    2 => {
                        let b = *r.pick(b"gitmodules.~1 GITx7eba");
                        v[pos] = b;
                    }
                    _ => {
                        let b = *r.pick(b"gitx. ~");
                        v.insert(0, b);
                    }
                }
            }
        }
    }
    v.retain(|b| *b != 0 && *b != b'/');
    if v.is_empty() {
        v = b".git".to_vec();
    }
    v.truncate(200);
    if v.starts_with(b"zq") {
        v[0] = b'Z';
    }
    (v, kind, mask)
}

#[derive(Clone)]
struct Item {
    comp: Vec<u8>,
    kind: usize,
    tmask: u32,
    dir_pos: bool,
    mode: u32,
    prefix: Option<String>,
    path: Vec<u8>,
    /// for symlink items: index of the same path with blob mode (tells whether the refusal depends on the mode)
    twin: Option<usize>,
    is_twin: bool,
}

fn make_item(comp: Vec<u8>, kind: usize, tmask: u32, dir_pos: bool, mode: u32, idx: usize) -> Item {
    let prefix = if idx == 0 { None } else { Some(format!("zq{idx}")) };
    let mut path = Vec::new();
    if let Some(p) = &prefix {
        path.extend_from_slice(p.as_bytes());
        path.push(b'/');
    }
    path.extend_from_slice(&comp);
    if dir_pos {
        path.extend_from_slice(b"/x");
    }
    Item { comp, kind, tmask, dir_pos, mode, prefix, path, twin: None, is_twin: false }
}

// ---------------------------------------------------------------- gitoxide sides

const COMBOS: [(bool, bool); 4] = [(false, false), (false, true), (true, false), (true, true)]; // (ntfs, hfs)

fn vopts(ntfs: bool, hfs: bool, pw: bool) -> VOpts {
    VOpts { protect_windows: pw, protect_hfs: hfs, protect_ntfs: ntfs }
}

#[derive(Default)]
struct Store(HashMap<gix_hash::ObjectId, (gix_object::Kind, Vec<u8>)>);
impl gix_object::Find for Store {
    fn try_find<'a>(
        &self,
        id: &gix_hash::oid,
        buffer: &'a mut Vec<u8>,
    ) -> Result<Option<gix_object::Data<'a>>, gix_object::find::Error> {
        match self.0.get(id) {
            Some((k, d)) => {
                buffer.clear();
                buffer.extend_from_slice(d);
                Ok(Some(gix_object::Data { kind: *k, data: buffer }))
            }
            None => Ok(None),
        }
    }
}
impl Store {
    fn put_tree(&mut self, entries: &[(u32, &[u8], gix_hash::ObjectId)]) -> gix_hash::ObjectId {
        let mut d = Vec::new();
        for (mode, name, id) in entries {
            d.extend_from_slice(format!("{:o} ", mode).as_bytes());
            d.extend_from_slice(name);
            d.push(0);
            d.extend_from_slice(id.as_bytes());
        }
        let id = gix_object::compute_hash(gix_hash::Kind::Sha1, gix_object::Kind::Tree, &d);
        self.0.insert(id, (gix_object::Kind::Tree, d));
        id
    }
}

fn build_tree(it: &Item, blob: gix_hash::ObjectId) -> (Store, gix_hash::ObjectId) {
    let mut s = Store::default();
    let mut cur = if it.dir_pos {
        let t = s.put_tree(&[(0o100644, b"x", blob)]);
        s.put_tree(&[(0o40000, &it.comp, t)])
    } else {
        s.put_tree(&[(it.mode, &it.comp, blob)])
    };
    if let Some(p) = &it.prefix {
        cur = s.put_tree(&[(0o40000, p.as_bytes(), cur)]);
    }
    (s, cur)
}

struct Env {
    oracle: PathBuf,
    blob_hex: String,
    blob: gix_hash::ObjectId,
    /// index = combo*2 + pw
    editors: Vec<gix::Repository>,
}

fn setup(ctx: &mut Ctx) -> Result<Env, String> {
    let oracle = ctx.dir("oracle");
    git::init(&oracle, false)?;
    git::ok(&oracle, &["config", "core.ignorecase", "false"])?;
    let blob_hex = git::ok_in(&oracle, &["hash-object", "-w", "--stdin"], b"")?;
    let ed = ctx.dir("editor.git");
    git::init(&ed, true)?;
    let mut editors = Vec::new();
    for (ntfs, hfs) in COMBOS {
        for pw in [false, true] {
            let o = gix::open::Options::isolated().config_overrides([
                format!("core.protectNTFS={ntfs}"),
                format!("core.protectHFS={hfs}"),
                format!("gitoxide.core.protectWindows={pw}"),
            ]);
            let repo = gix::open_opts(&ed, o).map_err(|e| format!("gix open: {e}"))?.with_object_memory();
            repo.write_blob(b"").map_err(|e| format!("write blob: {e}"))?;
            editors.push(repo);
        }
    }
    let blob = gix_hash::ObjectId::from_hex(blob_hex.as_bytes()).map_err(|e| e.to_string())?;
    Ok(Env { oracle, blob_hex, blob, editors })
}

fn cfg_args(ntfs: bool, hfs: bool) -> Vec<OsString> {
    vec![
        "-c".into(),
        format!("core.protectNTFS={ntfs}").into(),
        "-c".into(),
        format!("core.protectHFS={hfs}").into(),
    ]
}

/// accepted set of a batch, or Err(reason). The accepted set is read back from the index file git wrote
/// and must agree with git's "Ignoring path" diagnostics.
fn git_batch(env: &Env, items: &[Item], ntfs: bool, hfs: bool) -> Result<HashSet<Vec<u8>>, String> {
    let idx = env.oracle.join(".git/index");
    let _ = std::fs::remove_file(&idx);
    let mut input = Vec::new();
    let mut line = |mode: u32, path: &[u8]| {
        input.extend_from_slice(format!("{:o} {}\t", mode, env.blob_hex).as_bytes());
        input.extend_from_slice(path);
        input.push(0);
    };
    line(0o100644, b"zqctl-ok/fine");
    line(0o100644, b"zqctl-bad/.git");
    for it in items {
        line(it.mode, &it.path);
    }
    let mut args = cfg_args(ntfs, hfs);
    args.extend(["update-index".into(), "-z".into(), "--index-info".into()]);
    let o = git::run_in(&env.oracle, &args, &input).map_err(|e| format!("git spawn: {e}"))?;
    if !o.ok {
        return Err(format!("git update-index --index-info failed: {}", o.err_text()));
    }
    let file = gix_index::File::at(&idx, gix_hash::Kind::Sha1, false, Default::default())
        .map_err(|e| format!("cannot read the index git wrote: {e}"))?;
    let set: HashSet<Vec<u8>> = file.entries().iter().map(|e| e.path(&file).to_vec()).collect();
    if !set.contains(&b"zqctl-ok/fine"[..]) || set.contains(&b"zqctl-bad/.git"[..]) {
        return Err("control entries of the git batch misbehaved".into());
    }
    // git's own diagnostics must tell the same story
    let mut needle = Vec::new();
    for it in items {
        needle.clear();
        needle.extend_from_slice(b"Ignoring path ");
        needle.extend_from_slice(&it.path);
        needle.push(b'\n');
        let ignored = o.stderr.find(&needle).is_some();
        if ignored == set.contains(&it.path) {
            return Err("index content and 'Ignoring path' diagnostics of git disagree".into());
        }
    }
    Ok(set)
}

/// The oracle exactly as named by the property: Some(true) = refused with "Invalid path"
fn git_cacheinfo_refuses(env: &Env, mode: u32, path: &[u8], ntfs: bool, hfs: bool) -> Result<(bool, String), String> {
    let idx = env.oracle.join("single.index");
    let _ = std::fs::remove_file(&idx);
    let mut args = cfg_args(ntfs, hfs);
    args.extend(["update-index".into(), "--add".into(), "--cacheinfo".into()]);
    let mut a = format!("{:o},{},", mode, env.blob_hex).into_bytes();
    a.extend_from_slice(path);
    args.push(OsString::from_vec(a));
    let idx_s = idx.display().to_string();
    let o = git::run_env(&env.oracle, &args, &[("GIT_INDEX_FILE", idx_s.as_str())]).map_err(|e| format!("git spawn: {e}"))?;
    let err = o.err_text();
    if o.ok {
        Ok((false, err))
    } else if err.contains("Invalid path") {
        Ok((true, err))
    } else {
        Err(format!("git update-index --cacheinfo failed otherwise: {err}"))
    }
}

const SITES: [&str; 4] = ["component", "index_from_tree", "tree_editor", "checkout_stack"];

/// accept/refuse of the 4 gitoxide sites for one item and option set; Err = panic
fn gix_verdicts(env: &Env, it: &Item, ci: usize, pw: bool, wt: &Path) -> Result<[bool; 4], (usize, crate::fw::PanicInfo)> {
    let (ntfs, hfs) = COMBOS[ci];
    let o = vopts(ntfs, hfs, pw);
    // the users take the options type of the gix-validate instance they were built against
    let ou = gix_worktree::validate::path::component::Options { protect_windows: pw, protect_hfs: hfs, protect_ntfs: ntfs };
    let vmode = (!it.dir_pos && it.mode == 0o120000).then_some(VMode::Symlink);
    let mut out = [false; 4];
    // the prefix and the trailing `x` are harmless names; they are validated too to mirror the users
    out[0] = guard(|| {
        let mut ok = gix_validate::path::component(it.comp.as_bstr(), vmode, o).is_ok();
        if let Some(p) = &it.prefix {
            ok &= gix_validate::path::component(p.as_bytes().as_bstr(), None, o).is_ok();
        }
        ok
    })
    .map_err(|p| (0, p))?;
    out[1] = guard(|| {
        let (store, root) = build_tree(it, env.blob);
        gix_index::State::from_tree(&root, &store, ou).is_ok()
    })
    .map_err(|p| (1, p))?;
    out[2] = guard(|| {
        let repo = &env.editors[ci * 2 + pw as usize];
        let kind = match it.mode {
            0o120000 => gix_object::tree::EntryKind::Link,
            0o100755 => gix_object::tree::EntryKind::BlobExecutable,
            _ => gix_object::tree::EntryKind::Blob,
        };
        let Ok(mut ed) = repo.edit_tree(gix_hash::ObjectId::empty_tree(gix_hash::Kind::Sha1)) else {
            return false;
        };
        if ed.upsert(BString::from(it.path.clone()), kind, env.blob).is_err() {
            return false;
        }
        let ok = ed.write().is_ok();
        ok
    })
    .map_err(|p| (2, p))?;
    out[3] = guard(|| {
        let state = gix_worktree::stack::State::for_checkout(false, ou, Default::default());
        let mut stack = gix_worktree::Stack::new(wt, state, gix_glob::pattern::Case::Sensitive, Vec::new(), Vec::new());
        let mode = match it.mode {
            0o120000 => gix_index::entry::Mode::SYMLINK,
            0o100755 => gix_index::entry::Mode::FILE_EXECUTABLE,
            _ => gix_index::entry::Mode::FILE,
        };
        let ok = stack.at_entry(it.path.as_bstr(), Some(mode), &gix_object::find::Never).is_ok();
        ok
    })
    .map_err(|p| (3, p))?;
    Ok(out)
}

fn has_ignorable(c: &[u8]) -> bool {
    c.to_str().map_or(false, |s| s.chars().any(|ch| IGNORABLE.contains(&(ch as u32))))
}

/// class of a refusal, decided from the component's bytes only (stable across seeds)
fn class_of(cause: &str, it: &Item) -> &'static str {
    let c = &it.comp;
    match cause {
        "always" => {
            if c.iter().all(|b| *b == b'.') {
                "dot-or-dotdot"
            } else {
                "dotgit"
            }
        }
        "ntfs" => {
            if c.contains(&b'\\') {
                "backslash"
            } else if c.contains(&b'~') {
                "shortname"
            } else if c.contains(&b':') || c.ends_with(b" ") || c.ends_with(b".") {
                "trailing"
            } else {
                "plain"
            }
        }
        "hfs" => {
            if c.to_str().is_err() {
                "invalid-utf8"
            } else if c.to_str().map_or(false, |s| s.chars().any(|ch| (ch as u32) & 0xfffe == 0xfffe)) {
                "noncharacter"
            } else if has_ignorable(c) {
                "ignorable"
            } else {
                "plain"
            }
        }
        _ => "combined",
    }
}

pub fn run(ctx: &mut Ctx) {
    ctx.rule(
        "case = one batch of path components (seeds .git/.gitmodules/git~1/gitmod~N/gi7eba~N/devices/dots/near-misses/random bytes, \
         transformed by case flips, trailing ' '/'.', :stream suffixes, the 16 HFS-ignorable code points and near-misses, backslash \
         prefixes/suffixes, malformed UTF-8, single edits), each placed as leaf or directory of a path with blob/exec/symlink mode; \
         git decides each path under the 4 (protectNTFS,protectHFS) settings; evaluation = (path, setting): git refuses => \
         component()/State::from_tree/tree editor/checkout stack must refuse for protect_windows off and on. \
         distinct = (seed kind, transformation set, position, mode, setting, git verdict, gitoxide verdict)",
    );
    ctx.assume("git 2.39.5 on Linux: verify_path() has no Windows device-name or drive-prefix rules, so those are not demanded");
    ctx.assume("symlink mode is only applied when the tested component is the leaf (git also refuses any symlink below a directory called .gitmodules, which is not a component rule)");
    let env = match setup(ctx) {
        Ok(e) => e,
        Err(e) => {
            ctx.inconclusive(&format!("setup failed: {e}"));
            return;
        }
    };
    // show that the editor's options follow the configuration (gitoxide stricter is fine, so this is only a note)
    {
        let mut probe = serde_json::Map::new();
        let wt = ctx.dir("probe-wt");
        for (ci, (ntfs, hfs)) in COMBOS.iter().enumerate() {
            for pw in [false, true] {
                let mut acc = Vec::new();
                for name in [&b".git"[..], b"git~1", b".g\xe2\x80\x8dit", b"a\\b", b"plain"] {
                    let it = make_item(name.to_vec(), 0, 0, false, 0o100644, 1);
                    if let Ok(v) = gix_verdicts(&env, &it, ci, pw, &wt) {
                        acc.push(format!("{}:{}", show(name), if v[2] { "ok" } else { "refused" }));
                    }
                }
                probe.insert(format!("ntfs={ntfs},hfs={hfs},windows={pw}"), json!(acc.join(" ")));
            }
        }
        ctx.note("tree_editor_config_probe", json!(probe));
    }

    let batch = if ctx.quick() { 200 } else { 400 };
    let n_cases = ctx.n(16, 260);
    let mut reported: HashSet<String> = HashSet::new();
    ctx.cases("batch", n_cases, |ctx, r| {
        // ---- generate
        let mut items: Vec<Item> = Vec::new();
        while items.len() < batch {
            let (comp, kind, tmask) = gen_component(r);
            let dir_pos = r.chance(35, 100);
            let modules_like = matches!(kind, 1 | 3 | 4) || comp.to_ascii_lowercase().find(b"mod").is_some();
            let mode = if dir_pos {
                0o100644
            } else if r.chance(if modules_like { 60 } else { 20 }, 100) {
                0o120000
            } else if r.chance(1, 5) {
                0o100755
            } else {
                0o100644
            };
            let idx = items.len();
            let mut it = make_item(comp.clone(), kind, tmask, dir_pos, mode, idx);
            if mode == 0o120000 {
                it.twin = Some(idx + 1);
                items.push(it);
                let mut tw = make_item(comp, kind, tmask, dir_pos, 0o100644, idx + 1);
                tw.is_twin = true;
                items.push(tw);
            } else {
                items.push(it);
            }
        }
        // ---- git
        let mut git_ref: Vec<[bool; 4]> = vec![[false; 4]; items.len()];
        for (ci, (ntfs, hfs)) in COMBOS.iter().enumerate() {
            match git_batch(&env, &items, *ntfs, *hfs) {
                Ok(set) => {
                    ctx.count("git_spawns");
                    for (i, it) in items.iter().enumerate() {
                        git_ref[i][ci] = !set.contains(&it.path);
                    }
                }
                Err(e) => {
                    ctx.inconclusive(&e);
                    return;
                }
            }
        }
        // ---- one cross-check of the batch form against `--add --cacheinfo`
        {
            let i = r.usize(items.len());
            let ci = r.usize(4);
            let (ntfs, hfs) = COMBOS[ci];
            ctx.count("git_spawns");
            match git_cacheinfo_refuses(&env, items[i].mode, &items[i].path, ntfs, hfs) {
                Ok((refused, _)) => {
                    ctx.count("cacheinfo_crosschecks");
                    if refused {
                        ctx.count("cacheinfo_crosschecks_refused");
                    }
                    if refused != git_ref[i][ci] {
                        ctx.inconclusive("git --index-info and --cacheinfo disagree about a path");
                        ctx.count("oracle_forms_disagree");
                        return;
                    }
                }
                Err(e) => {
                    ctx.inconclusive(&e);
                    return;
                }
            }
        }
        // ---- gitoxide
        let wt = ctx.dir("wt");
        for (i, it) in items.iter().enumerate() {
            ctx.count(&format!("kind_{}", KINDS[it.kind]));
            // acc[site][ci][pw]
            let mut acc = [[[false; 2]; 4]; 4];
            let mut panicked = false;
            'outer: for ci in 0..4 {
                for pw in [false, true] {
                    match gix_verdicts(&env, it, ci, pw, &wt) {
                        Ok(v) => {
                            for s in 0..4 {
                                acc[s][ci][pw as usize] = v[s];
                            }
                        }
                        Err((site, p)) => {
                            ctx.panic_violation(
                                SITES[site],
                                &p,
                                KINDS[it.kind],
                                json!({"component": show(&it.comp), "path": show(&it.path), "mode": format!("{:o}", it.mode)}),
                            );
                            panicked = true;
                            break 'outer;
                        }
                    }
                }
            }
            if panicked {
                continue;
            }
            let mode_name = match it.mode {
                0o120000 => "symlink",
                0o100755 => "exec",
                _ => "blob",
            };
            // per (item, setting) evaluation
            // viol[site][ci]
            let mut viol = [[false; 4]; 4];
            for ci in 0..4 {
                ctx.eval();
                let g = git_ref[i][ci];
                let comp_acc_any = acc[0][ci][0] || acc[0][ci][1];
                ctx.distinct((it.kind, it.tmask, it.dir_pos, mode_name, ci, g, acc[0][ci], acc[1][ci][0], acc[2][ci][0], acc[3][ci][0]));
                let (ntfs, hfs) = COMBOS[ci];
                let key = format!("ntfs={},hfs={}", ntfs as u8, hfs as u8);
                if g {
                    ctx.count(&format!("git_refuses[{key}]"));
                    if !comp_acc_any {
                        ctx.count("both_refuse");
                    }
                } else if !acc[0][ci][0] {
                    ctx.count("gitoxide_stricter(windows=off)");
                } else {
                    ctx.count("both_accept");
                }
                if !acc[0][ci][1] && acc[0][ci][0] {
                    ctx.count("refused_only_with_protect_windows");
                }
                for s in 1..4 {
                    for pw in 0..2 {
                        if acc[0][ci][pw] && !acc[s][ci][pw] {
                            ctx.count(&format!("{}_stricter_than_component", SITES[s]));
                        }
                        if !acc[s][ci][pw] {
                            ctx.count(&format!("{}_refusals", SITES[s]));
                        }
                    }
                }
                if !g {
                    continue;
                }
                viol[0][ci] = comp_acc_any;
                for s in 1..4 {
                    // a user accepting what component() refuses is a wiring defect of that user;
                    // a user accepting what component() accepts is the same defect as component's
                    viol[s][ci] = (0..2).any(|pw| acc[s][ci][pw] && !acc[0][ci][pw]);
                }
            }
            for s in 0..4 {
                if !viol[s].iter().any(|v| *v) {
                    continue;
                }
                // minimal cause: combos are (ntfs,hfs) = 0:(0,0) 1:(0,1) 2:(1,0) 3:(1,1)
                let is_dots = it.comp == b"." || it.comp == b"..";
                let causes: Vec<(&str, usize)> = if viol[s][0] || is_dots {
                    // `.` and `..` are refused by git under every setting
                    vec![("always", (0..4).find(|ci| viol[s][*ci]).unwrap_or(0))]
                } else if viol[s][1] || viol[s][2] {
                    let mut v = Vec::new();
                    if viol[s][2] {
                        v.push(("ntfs", 2));
                    }
                    if viol[s][1] {
                        v.push(("hfs", 1));
                    }
                    v
                } else {
                    vec![("ntfs+hfs", 3)]
                };
                for (cause, ci) in causes {
                    ctx.count("violating_evaluations");
                    let class = class_of(cause, it);
                    let mode_tag = if it.mode == 0o120000 {
                        match it.twin {
                            Some(t) if !git_ref[t][ci] => "symlink-only",
                            _ => "any-mode",
                        }
                    } else {
                        "any-mode"
                    };
                    let sig = format!("git-refuses-gix-accepts|{}|{}|{}|{}", SITES[s], cause, class, mode_tag);
                    let (ntfs, hfs) = COMBOS[ci];
                    if !reported.contains(&sig) {
                        // confirm with the oracle form named by the property
                        ctx.count("git_spawns");
                        match git_cacheinfo_refuses(&env, it.mode, &it.path, ntfs, hfs) {
                            Ok((true, _)) => {}
                            Ok((false, _)) => {
                                ctx.inconclusive("git --cacheinfo accepted a path that --index-info ignored");
                                continue;
                            }
                            Err(e) => {
                                ctx.inconclusive(&e);
                                continue;
                            }
                        }
                        reported.insert(sig.clone());
                    }
                    let pws: Vec<bool> = [false, true].into_iter().filter(|pw| acc[s][ci][*pw as usize]).collect();
                    ctx.violation(
                        &sig,
                        &format!(
                            "git refuses the path (verify_path, core.protectNTFS={ntfs} core.protectHFS={hfs}) but gitoxide's {} accepts it",
                            SITES[s]
                        ),
                        json!({
                            "component": show(&it.comp), "path": show(&it.path), "mode": format!("{:o}", it.mode),
                            "position": if it.dir_pos {"directory"} else {"leaf"},
                            "git": {"protectNTFS": ntfs, "protectHFS": hfs, "refused": true,
                                    "refused_per_setting(ntfs,hfs)=00,01,10,11": git_ref[i]},
                            "gitoxide_accepts_with_protect_windows": pws,
                            "gitoxide_accept[site][setting][windows]": {
                                "component": acc[0], "index_from_tree": acc[1], "tree_editor": acc[2], "checkout_stack": acc[3]},
                        }),
                    );
                }
            }
            if ctx.want_sample() && !it.is_twin {
                ctx.sample(json!({
                    "component": show(&it.comp), "path": show(&it.path), "mode": format!("{:o}", it.mode),
                    "git_refuses(ntfs,hfs)=00,01,10,11": git_ref[i],
                    "component_accepts[setting][windows off,on]": acc[0],
                }));
            }
        }
        ctx.count_n("paths", items.len() as u64);
    });
}
