//! C25 Index files written by gitoxide round-trip and are valid for git.
//!
//! For a generated `gix_index::State` and write options, the bytes produced by `File::write_to` are observed by
//!   S = `State::from_bytes` (round trip: entries, persisted flags, stat, version, TREE, sparse marker),
//!   M = the independent byte-level reader of C24 (layout, padding, name-length saturation, checksum, EOIE hash),
//!   G = `GIT_INDEX_FILE=<written> git ls-files --stage --debug -z --sparse` (and `git fsck` for the checksum / entry order),
//! and each observer must report exactly the non-removed entries the state holds.
//! Extensions gitoxide documents as not written (REUC, UNTR, FSMN, link; crate-status.md) are not compared.
//! Needs `c24.rs` (reader, ls-files parser, repository scenario builder).
use crate::c24::{self, reader};
use crate::fw::{git, guard, hex, show, Ctx, Rng};
use gix_index::entry::{stat::Time, Flags, Mode, Stat};
use gix_index::write::{Extensions, Options};
use serde_json::json;
use std::collections::BTreeSet;
use std::path::Path;

pub fn child(_mode: &str) {}

/// what every observer must report for one entry
#[derive(Clone, Debug, PartialEq, Eq)]
struct Want {
    path: Vec<u8>,
    mode: u32,
    id: [u8; 20],
    /// persisted flags (stage, EXTENDED, ASSUME_VALID, INTENT_TO_ADD, SKIP_WORKTREE); EXTENDED is implied by the two
    /// extended flags (git sets it itself when writing), so a writer that adds it does not differ from the state
    flags: u32,
    stat: reader::Stat,
    /// the state holds INTENT_TO_ADD/SKIP_WORKTREE without the EXTENDED bit
    naked: bool,
}

fn stat_of(s: &Stat) -> reader::Stat {
    reader::Stat {
        ctime: (s.ctime.secs, s.ctime.nsecs),
        mtime: (s.mtime.secs, s.mtime.nsecs),
        dev: s.dev,
        ino: s.ino,
        uid: s.uid,
        gid: s.gid,
        size: s.size,
    }
}

fn wants(state: &gix_index::State) -> Vec<Want> {
    state
        .entries()
        .iter()
        .filter(|e| !e.flags.contains(Flags::REMOVE))
        .map(|e| {
            let mut id = [0u8; 20];
            id.copy_from_slice(e.id.as_bytes());
            let p: &[u8] = e.path(state).as_ref();
            let raw = e.flags.bits() & c24::PERSISTED_FLAGS;
            Want { path: p.to_vec(), mode: e.mode.bits(), id, flags: norm(raw), stat: stat_of(&e.stat), naked: raw & EXT_BITS != 0 && raw & 0x4000 == 0 }
        })
        .collect()
}

const EXT_BITS: u32 = 0x6000_0000;

fn norm(flags: u32) -> u32 {
    if flags & EXT_BITS != 0 {
        flags | 0x4000
    } else {
        flags
    }
}

fn class_of(w: &[Want]) -> &'static str {
    let long = w.iter().any(|e| e.path.len() >= 0xfff);
    let naked = w.iter().any(|e| e.naked);
    match (long, naked) {
        (true, true) => "path>=4095+ext-flags-without-EXTENDED",
        (true, false) => "path>=4095",
        (false, true) => "ext-flags-without-EXTENDED",
        (false, false) => "plain",
    }
}

/// first difference per field between an observer's entries and the expected ones
fn diff_entries<T>(got: &[T], want: &[Want], view: impl Fn(&T) -> Want) -> Vec<(&'static str, String)> {
    let mut out: Vec<(&'static str, String)> = Vec::new();
    let mut push = |f: &'static str, d: String| {
        if !out.iter().any(|(g, _)| *g == f) {
            out.push((f, d));
        }
    };
    if got.len() != want.len() {
        push("entry-count", format!("{} entries vs {} in the state", got.len(), want.len()));
    }
    for (i, (g, w)) in got.iter().zip(want.iter()).enumerate() {
        let g = view(g);
        let name = show(&w.path[..w.path.len().min(60)]);
        if g.path != w.path {
            push(
                "path",
                format!("entry {i}: path ({} bytes) {:?} vs state ({} bytes) {:?}", g.path.len(), show(&g.path[..g.path.len().min(60)]), w.path.len(), name),
            );
        }
        if g.flags & 0x3000 != w.flags & 0x3000 {
            push("stage", format!("entry {i} {name:?}: stage {} vs state {}", (g.flags >> 12) & 3, (w.flags >> 12) & 3));
        }
        if g.flags & !0x3000 != w.flags & !0x3000 {
            push("flags", format!("entry {i} {name:?}: flags {:#x} vs state {:#x} (EXTENDED 0x4000 counted as implied by INTENT_TO_ADD/SKIP_WORKTREE)", g.flags, w.flags));
        }
        if g.mode != w.mode {
            push("mode", format!("entry {i} {name:?}: mode {:o} vs state {:o}", g.mode, w.mode));
        }
        if g.id != w.id {
            push("id", format!("entry {i} {name:?}: id {} vs state {}", hex(&g.id), hex(&w.id)));
        }
        if g.stat != w.stat {
            push("stat", format!("entry {i} {name:?}: stat {:?} vs state {:?}", g.stat, w.stat));
        }
    }
    out
}

fn opts_name(o: &Options) -> String {
    let e = match o.extensions {
        Extensions::All => "all".to_string(),
        Extensions::None => "none".to_string(),
        Extensions::Given { tree_cache, end_of_index_entry } => format!("given(tree={tree_cache},eoie={end_of_index_entry})"),
    };
    format!("{e}{}", if o.skip_hash { "+skip_hash" } else { "" })
}

fn random_options(r: &mut Rng) -> Options {
    let extensions = match r.below(4) {
        0 => Extensions::All,
        1 => Extensions::None,
        _ => Extensions::Given { tree_cache: r.bool(), end_of_index_entry: r.bool() },
    };
    Options { extensions, skip_hash: r.chance(1, 4) }
}

const INDEX_COMPLAINTS: &[&str] = &[
    "index file",
    "bad signature",
    "bad index",
    "stage entries",
    "index entry format",
    "index uses",
    "malformed name field",
];

/// One evaluation: write `state` with `opts` and let S, M and G look at the bytes.
fn check_state(ctx: &mut Ctx, state: &gix_index::State, opts: Options, repo: &Path, scratch: &Path, git_valid: bool, origin: &str, run_fsck: bool) {
    ctx.eval();
    let want = wants(state);
    let class = class_of(&want);
    let removed = state.entries().len() - want.len();
    let maxlen = want.iter().map(|w| w.path.len()).max().unwrap_or(0);
    let len_class = match maxlen {
        0..=100 => 0,
        101..=4089 => 1,
        4090..=4094 => 2,
        4095 => 3,
        4096..=4100 => 4,
        _ => 5,
    };
    let mut flagclass = 0u32;
    for w in &want {
        if w.flags & 0x3000 != 0 {
            flagclass |= 1;
        }
        if w.flags & 0x8000 != 0 {
            flagclass |= 2;
        }
        if w.flags & 0x4000 != 0 {
            flagclass |= 4;
        }
        if w.flags & 0x2000_0000 != 0 {
            flagclass |= 8;
        }
        if w.flags & 0x4000_0000 != 0 {
            flagclass |= 16;
        }
        if w.mode == 0o040000 {
            flagclass |= 32;
        }
    }
    let n_class = match want.len() {
        0 => 0,
        1..=9 => 1,
        10..=99 => 2,
        _ => 3,
    };
    let witness = json!({
        "origin": origin, "options": opts_name(&opts), "entries_in_state": state.entries().len(), "removed": removed,
        "has_tree": state.tree().is_some(), "is_sparse": state.is_sparse(),
        "entries": want.iter().take(12).map(|w| json!({
            "path_len": w.path.len(), "path": show(&w.path[..w.path.len().min(40)]), "mode": format!("{:o}", w.mode),
            "flags": format!("{:#x}", w.flags), "id": hex(&w.id), "stat": format!("{:?}", w.stat)})).collect::<Vec<_>>(),
    });
    // ---- write
    let file = gix_index::File::from_state(state.clone(), scratch.join("written-index"));
    let mut buf: Vec<u8> = Vec::new();
    let res = guard(|| file.write_to(&mut buf, opts));
    let (version, hash) = match res {
        Err(p) => {
            ctx.panic_violation("File::write_to", &p, class, witness);
            return;
        }
        Ok(Err(e)) => {
            let mut w = witness.clone();
            w["error"] = json!(e.to_string());
            ctx.violation(&format!("write|io-error|{class}"), &format!("write_to failed: {e}"), w);
            return;
        }
        Ok(Ok(v)) => v,
    };
    ctx.count(&format!("written_{:?}", version));
    ctx.count(&format!("options_{}", opts_name(&opts)));
    ctx.count(&format!("class_{class}"));
    ctx.distinct((origin.to_string(), opts_name(&opts), version as u32, len_class, flagclass, n_class, removed > 0, state.tree().is_some()));
    let mut witness = witness;
    witness["written_version"] = json!(version as u32);
    witness["written_len"] = json!(buf.len());
    if buf.len() <= 4000 {
        witness["written_hex"] = json!(hex(&buf));
    }
    let report = |ctx: &mut Ctx, observer: &str, field: &str, what: String| {
        let mut w = witness.clone();
        w["difference"] = json!(what);
        // the two known-defect classes get one signature each, whichever observer notices first
        let sig = if field == "flags" && class.contains("ext-flags-without-EXTENDED") {
            "flags-lost|ext-flags-without-EXTENDED".to_string()
        } else if observer == "roundtrip" && class.contains("path>=4095") {
            "roundtrip-misparsed|path>=4095".to_string()
        } else {
            format!("{observer}|{field}|{class}")
        };
        ctx.violation(&sig, &format!("{observer}: {what} [{origin}, {}]", opts_name(&opts)), w);
    };

    // ---- M: layout of the written bytes
    match reader::parse(&buf) {
        Err(e) => report(ctx, "written-bytes", "unparsable", format!("independent reader cannot parse the written file: {e}")),
        Ok(m) => {
            ctx.count("reader_parsed_written_file");
            if m.version != version as u32 {
                report(ctx, "written-bytes", "version", format!("header says version {} but write_to returned {:?}", m.version, version));
            }
            if opts.skip_hash {
                if !m.trailer_zero {
                    report(ctx, "written-bytes", "checksum", "skip_hash was requested but the trailer is not all zero".into());
                }
                if !hash.is_null() {
                    report(ctx, "written-bytes", "checksum", format!("skip_hash: returned hash {hash} is not null"));
                }
            } else {
                if !m.checksum_ok {
                    report(ctx, "written-bytes", "checksum", format!("trailing checksum {} is not the SHA-1 of the content", hex(&m.trailer)));
                }
                if hash.as_bytes() != m.trailer {
                    report(ctx, "written-bytes", "checksum", format!("returned hash {hash} differs from the trailer {}", hex(&m.trailer)));
                }
            }
            if !m.eoie_consistent {
                report(ctx, "written-bytes", "eoie", "EOIE offset/hash do not describe the written extensions".into());
            }
            if m.eoie.is_some() {
                ctx.count("written_with_eoie");
            }
            for (f, d) in diff_entries(&m.entries, &want, |e| Want {
                path: e.path.clone(),
                mode: e.mode,
                id: e.id,
                flags: norm(e.mem_flags()),
                stat: e.stat,
                naked: false,
            }) {
                report(ctx, "written-bytes", f, d);
            }
            let tree_expected = state.tree().is_some() && opts.extensions.should_write(*b"TREE").is_some();
            match (&m.tree, state.tree()) {
                (Some(mt), Some(st)) if tree_expected => {
                    let mut reordered = false;
                    if let Some(d) = c24::cmp_tree(st, mt, "", &mut reordered) {
                        report(ctx, "written-bytes", "tree", d);
                    }
                    ctx.count("tree_ext_written_and_compared");
                }
                (None, _) if !tree_expected => {}
                (a, _) => report(ctx, "written-bytes", "tree", format!("TREE written={} expected={}", a.is_some(), tree_expected)),
            }
            if m.sdir != state.is_sparse() {
                report(ctx, "written-bytes", "sparse", format!("sdir written={} state.is_sparse={}", m.sdir, state.is_sparse()));
            }
        }
    }

    // ---- S: round trip through gitoxide
    let ts = state.timestamp();
    for limit in [1usize, 4] {
        let dec = guard(|| {
            gix_index::State::from_bytes(
                &buf,
                ts,
                gix_hash::Kind::Sha1,
                gix_index::decode::Options { thread_limit: Some(limit), ..Default::default() },
            )
        });
        match dec {
            Err(p) => {
                ctx.panic_violation("State::from_bytes(written)", &p, class, witness.clone());
            }
            Ok(Err(e)) => report(ctx, "roundtrip", "decode-error", format!("gitoxide cannot read back what it wrote: {e}")),
            Ok(Ok((back, sum))) => {
                ctx.count("roundtrips_decoded");
                let es: Vec<&gix_index::Entry> = back.entries().iter().collect();
                for (f, d) in diff_entries(&es, &want, |e| {
                    let mut id = [0u8; 20];
                    id.copy_from_slice(e.id.as_bytes());
                    let p: &[u8] = e.path(&back).as_ref();
                    Want { path: p.to_vec(), mode: e.mode.bits(), id, flags: norm(e.flags.bits()), stat: stat_of(&e.stat), naked: false }
                }) {
                    report(ctx, "roundtrip", f, d);
                }
                if back.version() != version {
                    report(ctx, "roundtrip", "version", format!("read back version {:?}, write_to returned {:?}", back.version(), version));
                }
                let tree_expected = opts.extensions.should_write(*b"TREE").is_some();
                let want_tree = if tree_expected { state.tree() } else { None };
                if back.tree() != want_tree {
                    report(ctx, "roundtrip", "tree", format!("tree extension read back {:?} vs state {:?}", back.tree().map(|t| t.num_entries), want_tree.map(|t| t.num_entries)));
                }
                if back.is_sparse() != state.is_sparse() {
                    report(ctx, "roundtrip", "sparse", format!("is_sparse read back {} vs state {}", back.is_sparse(), state.is_sparse()));
                }
                let want_sum = if opts.skip_hash { None } else { Some(hash) };
                if sum != want_sum {
                    report(ctx, "roundtrip", "checksum", format!("checksum read back {:?} vs written {:?}", sum, want_sum));
                }
            }
        }
    }

    // ---- G: git reads the written file
    let path = scratch.join("written-index");
    if std::fs::write(&path, &buf).is_err() {
        ctx.inconclusive("cannot store the written index for git");
        return;
    }
    let p = path.to_string_lossy().to_string();
    // `--sparse` only for states that are sparse themselves: in a repository configured for the sparse index git
    // otherwise collapses, in memory, the skip-worktree entries of a full index into directory entries the state
    // never had (and needs every object for that). `index.sparse=false` keeps git from converting a full index.
    let mut args = vec!["-c", "sparse.expectFilesOutsideOfPatterns=true"];
    if !state.is_sparse() {
        args.extend(["-c", "index.sparse=false"]);
    }
    args.extend(["ls-files", "--stage", "--debug", "-z"]);
    if state.is_sparse() {
        args.push("--sparse");
    }
    match git::run_env(
        repo,
        // expectFilesOutsideOfPatterns: in a sparse checkout git would otherwise clear SKIP_WORKTREE in memory for present files
        &args,
        &[("GIT_INDEX_FILE", p.as_str())],
    ) {
        Err(e) => ctx.inconclusive(&format!("git spawn failed: {e}")),
        Ok(o) if !o.ok => report(ctx, "git-rejects", "ls-files", format!("git ls-files fails on the written index: {}", o.err_text())),
        Ok(o) => {
            ctx.count("git_calls");
            match c24::parse_ls_files_debug(&o.stdout) {
                Err(e) => ctx.inconclusive(&format!("cannot parse ls-files --debug: {e}")),
                Ok(g) => {
                    ctx.count("git_listed_written_file");
                    for (f, d) in diff_entries(&g, &want, |e| Want {
                        path: e.path.clone(),
                        mode: e.mode,
                        id: e.id,
                        flags: norm(e.flags & c24::PERSISTED_FLAGS | e.stage << 12),
                        stat: e.stat,
                        naked: false,
                    }) {
                        report(ctx, "git-lists", f, d);
                    }
                }
            }
        }
    }
    if run_fsck && git_valid && !opts.skip_hash {
        if let Ok(o) = git::run_env(repo, &["fsck", "--no-dangling", "--connectivity-only"], &[("GIT_INDEX_FILE", p.as_str())]) {
            ctx.count("git_calls");
            ctx.count("git_fsck_checked_checksum_and_order");
            let err = o.err_text();
            if let Some(line) = err.lines().find(|l| INDEX_COMPLAINTS.iter().any(|c| l.contains(c))) {
                report(ctx, "git-rejects", "fsck", format!("git fsck complains about the written index: {line}"));
            }
        }
    }
    if ctx.want_sample() {
        ctx.sample(json!({
            "origin": origin, "options": opts_name(&opts), "written_version": version as u32, "entries_written": want.len(),
            "removed": removed, "max_path_len": maxlen, "class": class, "bytes": buf.len(),
        }));
    }
}

// =========================================================================== generators
fn extreme_u32(r: &mut Rng) -> u32 {
    match r.below(7) {
        0 => 0,
        1 => 1,
        2 => 0x7fff_ffff,
        3 => 0x8000_0000,
        4 => 0xffff_ffff,
        _ => r.next_u64() as u32,
    }
}

fn random_stat(r: &mut Rng) -> Stat {
    if r.chance(1, 6) {
        return Stat::default();
    }
    Stat {
        mtime: Time { secs: extreme_u32(r), nsecs: extreme_u32(r) },
        ctime: Time { secs: extreme_u32(r), nsecs: extreme_u32(r) },
        dev: extreme_u32(r),
        ino: extreme_u32(r),
        uid: extreme_u32(r),
        gid: extreme_u32(r),
        size: extreme_u32(r),
    }
}

fn random_id(r: &mut Rng) -> gix_hash::ObjectId {
    let mut b = [0u8; 20];
    match r.below(8) {
        0 => {}
        1 => b = [0xff; 20],
        _ => b.copy_from_slice(&r.bytes(20)),
    }
    gix_hash::ObjectId::from(b)
}

/// in-memory flags beyond the stage for a new entry; `naked` allows extended flags without the EXTENDED bit
fn random_flags(r: &mut Rng, naked: bool, extended: bool) -> Flags {
    let mut f = Flags::empty();
    if r.chance(1, 5) {
        f |= Flags::ASSUME_VALID;
    }
    if extended && r.chance(1, 4) {
        f |= Flags::EXTENDED;
        if r.chance(2, 3) {
            f |= Flags::SKIP_WORKTREE;
        }
        if r.chance(1, 3) {
            f |= Flags::INTENT_TO_ADD;
        }
    } else if naked && r.chance(1, 2) {
        f |= if r.bool() { Flags::SKIP_WORKTREE } else { Flags::INTENT_TO_ADD };
    }
    if r.chance(1, 8) {
        // flags documented as in-memory only; they must simply not disturb what is stored
        f |= *r.pick(&[Flags::UPTODATE, Flags::HASHED, Flags::UPDATE, Flags::ADDED, Flags::FSMONITOR_VALID, Flags::CONFLICTED]);
    }
    f
}

const ALPHA: &[u8] = b"abcXYZ019_-. \"\\\t\x01\x7f\xc3\xa9\xff*?\n";

fn random_path(r: &mut Rng, len: usize) -> Vec<u8> {
    let mut p = Vec::with_capacity(len);
    while p.len() < len {
        let c = *r.pick(ALPHA);
        p.push(c);
        if r.chance(1, 12) && p.len() + 2 < len && *p.last().unwrap() != b'/' {
            p.push(b'/');
        }
    }
    p.truncate(len);
    if p.first() == Some(&b'/') {
        p[0] = b'a';
    }
    if p.last() == Some(&b'/') {
        let n = p.len();
        p[n - 1] = b'z';
    }
    p
}

/// a state pushed together entry by entry; returns (state, valid order for git)
fn scratch_state(r: &mut Rng) -> (gix_index::State, bool) {
    let mut st = gix_index::State::new(gix_hash::Kind::Sha1);
    let n = match r.below(12) {
        0 => 0,
        1 => 1,
        2..=9 => 1 + r.usize(30),
        _ => 100 + r.usize(400),
    };
    let long_kind = r.below(100); // <15: paths >= 4095 present; <30: paths just below; else short/medium only
    // the two known-defect classes are kept apart so that each has one signature class
    let naked = long_kind >= 15 && r.chance(1, 10);
    let extended = r.bool();
    let mut used: BTreeSet<Vec<u8>> = BTreeSet::new();
    for i in 0..n {
        let len = if long_kind < 15 && (i == 0 || r.chance(1, 6)) {
            let big = 4095 + r.usize(3000);
            *r.pick(&[4095usize, 4095, 4096, 4097, 4100, 5000, big])
        } else if long_kind < 30 && (i == 0 || r.chance(1, 6)) {
            *r.pick(&[4090usize, 4091, 4092, 4093, 4094, 4094])
        } else if r.chance(1, 8) {
            100 + r.usize(400)
        } else {
            1 + r.usize(40)
        };
        let path = random_path(r, len);
        if !used.insert(path.clone()) {
            continue;
        }
        let mode = *r.pick(&[Mode::FILE, Mode::FILE, Mode::FILE_EXECUTABLE, Mode::SYMLINK, Mode::COMMIT]);
        let stages: Vec<u32> = if r.chance(1, 6) {
            let mask = 1 + r.below(7) as u32;
            (1..=3).filter(|s| mask >> (s - 1) & 1 == 1).collect()
        } else {
            vec![0]
        };
        for s in stages {
            let flags = Flags::from_bits_retain(s << 12) | random_flags(r, naked, extended);
            let flags = if r.chance(1, 15) { flags | Flags::REMOVE } else { flags };
            st.dangerously_push_entry(random_stat(r), random_id(r), flags, mode, path.as_slice().into());
        }
    }
    let sorted = !r.chance(1, 10);
    if sorted {
        st.sort_entries();
    }
    (st, sorted)
}

/// change a decoded state in memory the way a user of the API would
fn mutate_state(r: &mut Rng, st: &mut gix_index::State) -> Vec<&'static str> {
    let mut done = Vec::new();
    let n = st.entries().len();
    let has_long = st.entries().iter().any(|e| e.path(st).len() >= 0xfff);
    let mut has_naked = false;
    for _ in 0..1 + r.usize(4) {
        match r.below(8) {
            0 if n > 0 => {
                for _ in 0..1 + r.usize(n.min(5)) {
                    let i = r.usize(n);
                    st.entries_mut()[i].flags |= Flags::REMOVE;
                }
                done.push("remove-flag");
            }
            1 if n > 0 => {
                let i = r.usize(n);
                st.entries_mut()[i].flags.toggle(Flags::ASSUME_VALID);
                done.push("assume-valid");
            }
            2 if n > 0 => {
                for _ in 0..1 + r.usize(n.min(4)) {
                    let i = r.usize(n);
                    let add = if r.bool() { Flags::SKIP_WORKTREE } else { Flags::INTENT_TO_ADD };
                    st.entries_mut()[i].flags |= Flags::EXTENDED | add;
                }
                done.push("extended-flags-added");
            }
            3 if n > 0 => {
                let i = r.usize(n);
                st.entries_mut()[i].flags.remove(Flags::EXTENDED | Flags::SKIP_WORKTREE | Flags::INTENT_TO_ADD);
                done.push("extended-flags-cleared");
            }
            4 if n > 0 => {
                let i = r.usize(n);
                st.entries_mut()[i].stat = random_stat(r);
                done.push("stat");
            }
            5 if n > 0 => {
                let i = r.usize(n);
                let e = &mut st.entries_mut()[i];
                if e.mode == Mode::FILE {
                    e.mode = Mode::FILE_EXECUTABLE;
                } else if e.mode == Mode::FILE_EXECUTABLE {
                    e.mode = Mode::FILE;
                }
                e.id = random_id(r);
                done.push("mode-id");
            }
            6 => {
                let existing: BTreeSet<Vec<u8>> = st.entries().iter().map(|e| AsRef::<[u8]>::as_ref(e.path(st)).to_vec()).collect();
                for _ in 0..1 + r.usize(4) {
                    let len = if !has_naked && r.chance(1, 10) { *r.pick(&[4094usize, 4095, 4096]) } else { 1 + r.usize(60) };
                    let mut p = b"zz-pushed/".to_vec();
                    p.extend(random_path(r, len));
                    if existing.contains(&p) || existing.iter().any(|e| e.starts_with(&p) || p.starts_with(e)) {
                        continue;
                    }
                    st.dangerously_push_entry(random_stat(r), random_id(r), random_flags(r, false, true), Mode::FILE, p.as_slice().into());
                }
                st.sort_entries();
                done.push("push-entries");
            }
            7 if n > 0 && !has_long && !done.contains(&"push-entries") && r.chance(1, 3) => {
                has_naked = true;
                let i = r.usize(n);
                let e = &mut st.entries_mut()[i];
                e.flags.remove(Flags::EXTENDED);
                e.flags |= Flags::SKIP_WORKTREE;
                done.push("skip-worktree-without-EXTENDED");
            }
            _ => {}
        }
    }
    done
}

fn scratch_batch(ctx: &mut Ctx, r: &mut Rng) {
    let repo = ctx.dir("empty");
    if let Err(e) = git::init(&repo, false) {
        ctx.inconclusive(&format!("git init failed: {e}"));
        return;
    }
    let scratch = ctx.dir("out");
    let per_batch = 12;
    for k in 0..per_batch {
        if !ctx.time_left() {
            break;
        }
        let (st, sorted) = scratch_state(r);
        let opts = random_options(r);
        check_state(ctx, &st, opts, &repo, &scratch, sorted, "scratch", k % 3 == 0);
    }
}

fn from_git(ctx: &mut Ctx, r: &mut Rng) {
    let dir = ctx.dir("s");
    let scratch = ctx.dir("out");
    let max_files = if ctx.quick() { 40 } else { 200 };
    // a third of the bases come from the scripted tours (TREE + flags + conflicts, sparse index), the rest are random
    let built = match r.below(3) {
        0 => c24::build_scenario_scripted(ctx, r, dir, max_files, false, &[15, 3, 14, 12]),
        1 => c24::build_scenario_scripted(ctx, r, dir, max_files, false, &[15, 7, 2, 3, 11]),
        _ => c24::build_scenario(ctx, r, dir, max_files, false),
    };
    let s = match built {
        Some(s) => s,
        None => return,
    };
    let index_path = s.dir.join(".git/index");
    let file = match guard(|| gix_index::File::at(&index_path, gix_hash::Kind::Sha1, false, Default::default())) {
        Ok(Ok(f)) => f,
        _ => {
            // reading git's files is C24's subject
            ctx.count("git_index_not_decodable_skipped");
            return;
        }
    };
    let base: gix_index::State = file.into();
    ctx.count("git_indices_decoded_as_base");
    if base.tree().is_some() {
        ctx.count("base_with_tree");
    }
    if base.is_sparse() {
        ctx.count("base_sparse");
    }
    // unchanged state with every extension option
    let opts = random_options(r);
    check_state(ctx, &base, opts, &s.dir, &scratch, true, "git-decoded", true);
    for k in 0..8 {
        if !ctx.time_left() {
            break;
        }
        let mut st = base.clone();
        let what = mutate_state(r, &mut st);
        if what.is_empty() {
            continue;
        }
        for w in &what {
            ctx.count(&format!("mutation_{w}"));
        }
        let opts = random_options(r);
        check_state(ctx, &st, opts, &s.dir, &scratch, true, "git-decoded+mutated", k == 0);
    }
    // State::from_tree on the committed tree
    if s.committed {
        if let Ok(tree_hex) = git::ok(&s.dir, &["rev-parse", "HEAD^{tree}"]) {
            ctx.count("git_calls");
            if let Ok(id) = gix_hash::ObjectId::from_hex(tree_hex.trim().as_bytes()) {
                let odb = gix_odb::at(s.dir.join(".git/objects"));
                if let Ok(odb) = odb {
                    match guard(|| gix_index::State::from_tree(
                            &id,
                            &odb,
                            gix_index::validate::path::component::Options { protect_windows: false, protect_hfs: false, protect_ntfs: false },
                        )) {
                        Ok(Ok(mut st)) => {
                            ctx.count("from_tree_states");
                            if r.bool() {
                                mutate_state(r, &mut st);
                            }
                            let opts = random_options(r);
                            check_state(ctx, &st, opts, &s.dir, &scratch, true, "from-tree", true);
                        }
                        _ => ctx.count("from_tree_failed_skipped"),
                    }
                }
            }
        }
    }
}

pub fn run(ctx: &mut Ctx) {
    ctx.rule(
        "case = a batch of 12 states pushed together entry by entry (0..500 entries; path lengths 1..40, 100..500, 4090..4094, \
         4095..8000; stage 0 or a subset of 1-3; modes file/exec/symlink/gitlink; stat fields at u32 extremes; ASSUME_VALID, EXTENDED with \
         INTENT_TO_ADD/SKIP_WORKTREE, in-memory-only flags, REMOVE; sorted or not), or one git-written index (C24 scenario builder: \
         versions 2-4, TREE, conflicts, sparse index) decoded by gitoxide and then changed through the public API (REMOVE, flags, stat, mode, \
         pushed entries) plus State::from_tree; each written with random write options (All / None / Given{tree,eoie}, skip_hash) and read by \
         gitoxide (thread limit 1 and 4), the independent reader and git ls-files --debug (+ git fsck for sorted states with a hash). \
         distinct = (origin, options, written version, max path-length class, flag classes, entry-count class, removed entries, tree present)",
    );
    ctx.assume("extensions gitoxide documents as not written (REUC, UNTR, FSMN, link) and in-memory-only flags are outside the compared state");
    ctx.assume("git 2.39.5 does not verify the trailing hash in ls-files; the hash is checked by the independent reader and by git fsck (skip_hash output is checked to carry the null hash)");
    // one round = one git-written base (with its mutants and from_tree) + two scratch batches; rounds are interleaved so
    // that a budget stop leaves both origins covered
    let rounds = ctx.n(14, 700);
    for round in 0..rounds {
        if !ctx.time_left() {
            ctx.count("budget_stops");
            break;
        }
        ctx.cases(&format!("from-git-{round}"), 1, |ctx, r| from_git(ctx, r));
        ctx.cases(&format!("scratch-batch-{round}"), 2, |ctx, r| scratch_batch(ctx, r));
    }
}
