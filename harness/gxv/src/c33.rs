//! C33 URLs serialize to strings that parse back to the same URL.
//! Oracle (self-consistency): for every input `s` with `gix_url::parse(s) = Ok(u)`,
//! `gix_url::parse(u.to_bstring()) == Ok(u)` (all fields, including the private
//! `serialize_alternative_form`, through the derived `PartialEq`), and the serialized string is
//! itself a fixed point of serialize∘parse. Inputs that do not parse are not judged.
use crate::fw::{guard, show, Ctx, Rng};
use bstr::{BString, ByteSlice};
use gix_url::{Scheme, Url};
use serde_json::json;

pub fn child(_mode: &str) {}

const SCHEMES: &[&str] = &[
    "ssh", "git", "http", "https", "file", "ftp", "ext", "ssh+git", "git+ssh", "SSH", "Git", "HTTP", "hTTps", "FILE",
    "File", "ftps", "rad", "ws", "wss", "x-y.z+1", "a",
];

fn word(r: &mut Rng, max: usize) -> String {
    const A: &[u8] = b"abcdefghijklmnopqrstuvwxyzABCXYZ0123456789-_.";
    let n = 1 + r.usize(max);
    String::from_utf8(r.bytes_from(n, A)).unwrap()
}

/// text with characters that matter to URL syntax
fn spicy(r: &mut Rng, max: usize) -> String {
    const PIECES: &[&str] = &[
        "a", "b", "Z", "0", "7", "-", "_", ".", "~", "%", "%20", "%2F", "%2f", "%40", "%3A", "%3a", "%00", "%C3%BC", "%zz",
        " ", "\t", "\n", "\r", "@", ":", "/", "\\", "?", "#", "[", "]", "+", "&", "=", ";", "!", "$", "'", "\"", "*", ",",
        "<", ">", "^", "`", "{", "|", "}", "\u{fc}", "\u{4e2d}", "\u{1f600}", "..", "//", "://", "::",
    ];
    let n = r.usize(max + 1);
    let mut s = String::new();
    for _ in 0..n {
        if r.chance(3, 5) {
            s.push_str(&word(r, 3));
        } else {
            s.push_str(*r.pick(PIECES));
        }
    }
    s
}

fn gen_user(r: &mut Rng) -> (String, &'static str) {
    match r.below(8) {
        0 => ("".into(), "empty"),
        1 => ("git".into(), "plain"),
        2 => (format!("-{}", word(r, 6)), "dash"),
        3 => (format!("{}%40{}", word(r, 4), word(r, 4)), "pct"),
        4 => (spicy(r, 4), "spicy"),
        5 => (format!("{} {}", word(r, 3), word(r, 3)), "space"),
        _ => (word(r, 8), "plain"),
    }
}

fn gen_host(r: &mut Rng) -> (String, &'static str) {
    match r.below(16) {
        0 => ("".into(), "empty"),
        1 => ("localhost".into(), "localhost"),
        2 => (format!("{}.{}.{}.{}", r.below(300), r.below(256), r.below(256), r.below(256)), "ipv4"),
        3 => ((*r.pick(&["[::1]", "[fe80::1]", "[2001:DB8::7]", "[::ffff:1.2.3.4]", "[::1", "::1", "[1:2:3:4:5:6:7:8]", "[::g]"])).into(), "ipv6"),
        4 => ((*r.pick(&["b\u{fc}cher.de", "\u{4e2d}\u{6587}.example", "xn--bcher-kva.de", "XN--BCHER-KVA.DE", "\u{1f600}.io"])).into(), "idna"),
        5 => (word(r, 8).to_uppercase(), "upper"),
        6 => (format!("-{}", word(r, 6)), "dash"),
        7 => (spicy(r, 3), "spicy"),
        8 => ((*r.pick(&["0x7f.1", "0177.0.0.1", "1.2.3", "4294967295", "1.2.3.4.", "a..b", "a.", ".a"])).into(), "odd-num"),
        9 => (format!("{}%{:02X}{}", word(r, 3), r.below(256), word(r, 3)), "pct"),
        10 => ((*r.pick(&["c", "C", "x"])).into(), "letter"),
        _ => (format!("{}.{}", word(r, 8), r.pick(&["com", "org", "io", "example"])), "name"),
    }
}

fn gen_port(r: &mut Rng) -> (String, &'static str) {
    match r.below(10) {
        0 => ("".into(), "empty"),
        1 => ((*r.pick(&["22", "80", "443", "9418", "21"])).into(), "default"),
        2 => ((*r.pick(&["0", "65535", "65536", "00022", "99999", "-1", "+22", "2a"])).into(), "edge"),
        _ => (r.range(1, 65535).to_string(), "num"),
    }
}

fn gen_path(r: &mut Rng) -> (String, &'static str) {
    match r.below(16) {
        0 => ("".into(), "empty"),
        1 => ("/".into(), "root"),
        2 => (format!("/~{}/{}", word(r, 5), word(r, 6)), "tilde-user"),
        3 => (format!("/~/{}", word(r, 6)), "tilde"),
        4 => (format!("//{}", word(r, 6)), "dslash"),
        5 => (format!("/{}%2F{}", word(r, 4), word(r, 4)), "pct"),
        6 => (format!("/{} {}", word(r, 4), word(r, 4)), "space"),
        7 => (format!("/{}?{}={}#{}", word(r, 6), word(r, 2), word(r, 2), word(r, 3)), "query-frag"),
        8 => (format!("/{}{}", word(r, 6), r.pick(&[" ", "\n", "\t", "\r\n", "  ", "\u{0}"])), "trail-ws"),
        9 => (format!("/{}", spicy(r, 6)), "spicy"),
        10 => (format!("/-{}", word(r, 6)), "dash"),
        11 => (format!("/{}/../{}/./{}", word(r, 4), word(r, 4), word(r, 4)), "dots"),
        12 => (format!("/{}:/{}", r.pick(&["c", "C", "z"]), word(r, 6)), "drive"),
        13 => (format!("{}/{}.git", word(r, 6), word(r, 6)), "rel"),
        _ => (format!("/{}/{}.git", word(r, 6), word(r, 6)), "abs"),
    }
}

struct Gen {
    text: Vec<u8>,
    form: &'static str,
    scheme: String,
    user: &'static str,
    pass: &'static str,
    host: &'static str,
    port: &'static str,
    path: &'static str,
}

fn gen_authority(r: &mut Rng, g: &mut Gen) -> String {
    let mut s = String::new();
    if r.chance(1, 2) {
        let (u, uc) = gen_user(r);
        g.user = uc;
        s.push_str(&u);
        if r.chance(2, 5) {
            s.push(':');
            if r.chance(1, 5) {
                g.pass = "empty";
            } else {
                g.pass = "some";
                s.push_str(&match r.below(3) {
                    0 => spicy(r, 3),
                    1 => format!("{}%3A{}", word(r, 3), word(r, 3)),
                    _ => word(r, 8),
                });
            }
        }
        s.push('@');
    }
    let (h, hc) = gen_host(r);
    g.host = hc;
    s.push_str(&h);
    s
}

fn gen_url_form(r: &mut Rng) -> Gen {
    let mut g = Gen { text: vec![], form: "url", scheme: String::new(), user: "-", pass: "-", host: "-", port: "-", path: "-" };
    let scheme = if r.chance(1, 30) { word(r, 5) } else { (*r.pick(SCHEMES)).to_string() };
    g.scheme = scheme.to_ascii_lowercase();
    let mut s = String::new();
    if r.chance(1, 25) {
        s.push_str(*r.pick(&[" ", "\t", "\n", "  "]));
    }
    if r.chance(1, 25) && !scheme.is_empty() {
        // tab/newline inside the scheme: invisible to the url crate, visible to gix-url's own `file` detection
        let at = r.usize(scheme.len() + 1);
        let mut sc = scheme.clone();
        sc.insert(at, *r.pick(&['\t', '\n', '\r']));
        s.push_str(&sc);
        g.form = "url-ws-scheme";
    } else {
        s.push_str(&scheme);
    }
    s.push_str("://");
    if r.chance(1, 20) {
        s.push_str(*r.pick(&["/", "//", "\\"]));
    }
    s.push_str(&gen_authority(r, &mut g));
    if r.chance(1, 3) {
        let (p, pc) = gen_port(r);
        g.port = pc;
        s.push(':');
        s.push_str(&p);
    }
    let (p, pc) = gen_path(r);
    g.path = pc;
    s.push_str(&p);
    if r.chance(1, 25) {
        s.push_str(*r.pick(&[" ", "\n", "\r\n", "\t", " \n "]));
    }
    g.text = s.into_bytes();
    g
}

fn gen_scp_form(r: &mut Rng) -> Gen {
    let mut g = Gen { text: vec![], form: "scp", scheme: "ssh".into(), user: "-", pass: "-", host: "-", port: "-", path: "-" };
    let mut s = gen_authority(r, &mut g);
    if r.chance(1, 12) {
        let (p, pc) = gen_port(r);
        g.port = pc;
        s.push(':');
        s.push_str(&p);
    }
    s.push(':');
    let (p, pc) = match r.below(8) {
        0 => (format!(":{}", spicy(r, 4)), "colon"),
        1 => (format!("~{}/{}", word(r, 4), word(r, 4)), "tilde-user"),
        2 => (format!("{}:{}", r.range(1, 65535), word(r, 6)), "portlike"),
        _ => gen_path(r),
    };
    g.path = pc;
    s.push_str(&p);
    g.text = s.into_bytes();
    g
}

fn gen_local_form(r: &mut Rng) -> Gen {
    let mut g = Gen { text: vec![], form: "local", scheme: "file".into(), user: "-", pass: "-", host: "-", port: "-", path: "-" };
    let (t, pc): (Vec<u8>, &'static str) = match r.below(10) {
        0 => (format!("./{}:{}", word(r, 4), word(r, 4)).into_bytes(), "rel-colon"),
        1 => (format!("{}:\\{}\\{}", r.pick(&["c", "C", "z"]), word(r, 4), word(r, 4)).into_bytes(), "windows"),
        2 => (format!("{}/{}://{}", word(r, 3), word(r, 3), word(r, 4)).into_bytes(), "inner-scheme"),
        3 => (format!("../{}/{}", word(r, 5), spicy(r, 4)).into_bytes(), "rel-spicy"),
        4 => {
            let mut b = format!("/{}/", word(r, 5)).into_bytes();
            let n = 1 + r.usize(6);
            b.extend(r.bytes(n));
            (b, "abs-bytes")
        }
        5 => (format!("~/{}", word(r, 6)).into_bytes(), "tilde"),
        6 => (format!("{}{}", word(r, 6), r.pick(&["", " ", "\n", "/", "\\"])).into_bytes(), "bare"),
        7 => (format!("-{}", word(r, 6)).into_bytes(), "dash"),
        8 => (spicy(r, 5).into_bytes(), "spicy"),
        _ => (format!("/{}/{}.git", word(r, 6), word(r, 6)).into_bytes(), "abs"),
    };
    g.path = pc;
    g.text = t;
    g
}

fn gen_long(r: &mut Rng) -> Gen {
    // long components around the 1024 byte authority limit (characters that grow when normalised included)
    let mut g = Gen { text: vec![], form: "long", scheme: String::new(), user: "-", pass: "-", host: "long", port: "-", path: "abs" };
    let scheme = *r.pick(&["http", "ssh", "git", "ext"]);
    g.scheme = scheme.into();
    let n = *r.pick(&[300usize, 340, 500, 1000, 1015, 1024, 1030]);
    let filler: &str = *r.pick(&["a", " ", "\u{fc}", "%41", "A"]);
    let unit = filler.len();
    let comp: String = filler.repeat(n / unit);
    let s = match r.below(3) {
        0 => {
            g.user = "long";
            format!("{scheme}://{comp}@host.example/p")
        }
        1 => format!("{scheme}://{comp}.example/p"),
        _ => {
            g.path = "long";
            format!("{scheme}://host.example/{comp}")
        }
    };
    g.text = s.into_bytes();
    g
}

fn mutate(r: &mut Rng, g: &mut Gen) {
    const INS: &[&[u8]] = &[b":", b"/", b"@", b"//", b"://", b" ", b"\t", b"\n", b"%", b"[", b"]", b"\\", b"?", b"#", b"\xff", b"\xc3", b"-", b"~"];
    let n = 1 + r.usize(3);
    for _ in 0..n {
        let t = &mut g.text;
        match r.below(4) {
            0 if !t.is_empty() => {
                let i = r.usize(t.len());
                t.remove(i);
            }
            1 => {
                let i = r.usize(t.len() + 1);
                let ins = *r.pick(INS);
                for (k, b) in ins.iter().enumerate() {
                    t.insert(i + k, *b);
                }
            }
            2 if t.len() >= 2 => {
                let i = r.usize(t.len() - 1);
                t.swap(i, i + 1);
            }
            _ if !t.is_empty() => {
                let i = r.usize(t.len());
                let j = r.usize(t.len());
                let (a, b) = (i.min(j), i.max(j));
                let piece: Vec<u8> = t[a..b.min(a + 6)].to_vec();
                let at = r.usize(t.len() + 1);
                for (k, b) in piece.iter().enumerate() {
                    t.insert(at + k, *b);
                }
            }
            _ => {}
        }
    }
    g.form = match g.form {
        "url" => "url-mut",
        "scp" => "scp-mut",
        "local" => "local-mut",
        o => o,
    };
}

fn path_class(p: &[u8]) -> &'static str {
    if p.is_empty() {
        "empty"
    } else if p == b"/" {
        "root"
    } else if p.starts_with(b"//") {
        "dslash"
    } else if p.starts_with(b"/~") || p.starts_with(b"~") {
        "tilde"
    } else if p.starts_with(b"/-") || p.starts_with(b"-") {
        "dash"
    } else if p.starts_with(b":") {
        "colon"
    } else if p.contains(&b'%') {
        "pct"
    } else if p.iter().any(|b| b.is_ascii_whitespace()) {
        "ws"
    } else if p.starts_with(b"/") {
        "abs"
    } else {
        "rel"
    }
}

fn scheme_class(s: &Scheme) -> &'static str {
    match s {
        Scheme::File => "file",
        Scheme::Git => "git",
        Scheme::Ssh => "ssh",
        Scheme::Http => "http",
        Scheme::Https => "https",
        Scheme::Ext(_) => "ext",
    }
}

fn describe(u: &Url) -> serde_json::Value {
    json!({"debug": format!("{u:?}")})
}

fn err_class(e: &gix_url::parse::Error) -> &'static str {
    use gix_url::parse::Error::*;
    match e {
        Utf8 { .. } => "Utf8",
        Url { .. } => "Url",
        TooLong { .. } => "TooLong",
        MissingRepositoryPath { .. } => "MissingRepositoryPath",
        RelativeUrl { .. } => "RelativeUrl",
    }
}

/// the check proper; `origin` is the kind of input for signatures
fn judge(ctx: &mut Ctx, origin: &str, input: &[u8], u: &Url, g: Option<&Gen>) {
    ctx.eval();
    let ser: BString = match guard(|| u.to_bstring()) {
        Ok(s) => s,
        Err(p) => {
            ctx.panic_violation("Url::to_bstring", &p, origin, json!({"input": show(input), "url": describe(u)}));
            return;
        }
    };
    let is_alt = ser.find("://").is_none();
    let form = if is_alt {
        if u.scheme == Scheme::Ssh {
            "scp"
        } else {
            "local"
        }
    } else {
        "url"
    };
    let sc = scheme_class(&u.scheme);
    let auth = (u.user().is_some(), u.password().is_some(), u.host().map(|h| if h.is_empty() { 0 } else if h.starts_with('[') { 2 } else { 1 }), u.port.is_some());
    let pc = path_class(&u.path);
    ctx.distinct((form, sc, auth, pc, g.map(|g| (g.form, g.user, g.host, g.port, g.path))));
    ctx.count(&format!("parsed_{form}_{sc}"));
    let back = match guard(|| gix_url::parse(ser.as_ref())) {
        Ok(b) => b,
        Err(p) => {
            ctx.panic_violation("gix_url::parse", &p, "reparse", json!({"input": show(input), "serialized": show(&ser)}));
            return;
        }
    };
    match back {
        Err(e) => {
            let sig = format!("roundtrip|reparse-error|{}|{}", form, err_class(&e));
            ctx.violation(
                &sig,
                "a parsed URL serializes to a string that gix_url::parse rejects",
                json!({"origin": origin, "input": show(input), "url": describe(u), "serialized": show(&ser), "error": e.to_string()}),
            );
        }
        Ok(b) if &b != u => {
            let mut diff = vec![];
            if b.scheme != u.scheme {
                diff.push("scheme");
            }
            if b.user() != u.user() {
                diff.push("user");
            }
            if b.password() != u.password() {
                diff.push("password");
            }
            if b.host() != u.host() {
                diff.push("host");
            }
            if b.port != u.port {
                diff.push("port");
            }
            if b.path != u.path {
                diff.push("path");
            }
            if diff.is_empty() {
                diff.push("alternative-form");
            }
            let sig = format!("roundtrip|differs|{}|{}|{}", form, sc, diff.join("+"));
            ctx.violation(
                &sig,
                "a parsed URL serializes to a string that parses to a different URL",
                json!({"origin": origin, "input": show(input), "url": describe(u), "serialized": show(&ser), "reparsed": describe(&b)}),
            );
        }
        Ok(b) => {
            // equal URL values must also serialize identically (serialization is a function of the value)
            let ser2 = b.to_bstring();
            if ser2 != ser {
                ctx.violation(
                    "roundtrip|equal-urls-serialize-differently",
                    "two equal URLs serialize differently",
                    json!({"input": show(input), "serialized": show(&ser), "serialized2": show(&ser2)}),
                );
            }
            ctx.count("held");
        }
    }
    if ctx.want_sample() {
        ctx.sample(json!({"origin": origin, "input": show(input), "serialized": show(&ser), "form": form, "url": format!("{u:?}")}));
    }
}

fn parse_and_judge(ctx: &mut Ctx, origin: &str, input: &[u8], g: Option<&Gen>) {
    ctx.count("inputs");
    match guard(|| gix_url::parse(input.as_bstr())) {
        Err(p) => ctx.panic_violation("gix_url::parse", &p, origin, json!({"input": show(input)})),
        Ok(Err(e)) => {
            ctx.count(&format!("rejected_{}", err_class(&e)));
        }
        Ok(Ok(u)) => judge(ctx, origin, input, &u, g),
    }
}

pub fn run(ctx: &mut Ctx) {
    ctx.rule(
        "case = one generated input string (URL form with scheme/user/password/host/port/path drawn from class tables, scp-like form, \
         local path, byte-level mutations of those, long-authority inputs) or one Url::from_parts call; only inputs that parse are \
         evaluated; distinct = (serialized form url|scp|local, scheme class, (user?,password?,host kind,port?), path class of the \
         parsed URL, generator classes of the input)",
    );
    ctx.assume("Url equality is the derived PartialEq over all fields including serialize_alternative_form; Display (redacting) is not tested");

    // fixed seeds of forms named in the property text (cheap, always the same)
    const FIXED: &[&str] = &[
        "ssh://git@github.com/user/repo.git", "git@github.com:user/repo.git", "ssh://host:22/~user/repo", "host:~user/repo", "[::1]:repo",
        "ssh://[::1]:2222/repo", "user@[::1]:/abs", "[user@host]:repo", "file:///abs/path", "file://host/share/repo", "FILE:///X", "file://",
        "/abs/path", "rel/path", "./a:b", "c:\\x\\y", "c:/x/y", "a/b://c", "ext::sh -c true", "git://host/repo", "git://host", "http://host",
        "https://user:pw@host:443/p?q#f", "http://user:@host/p", "http://:pw@host/p", "ssh://-oProxyCommand=x/p", "-oProxyCommand=x:p",
        "ssh+git://h/p", "git+ssh://h/p", "rad://zabc/def", "x://", ":path", "@host:path", "host:", "host::p", "host://p", " ssh://h/p ",
        "ssh://h/p\n", "h:p\n", " file:///p", "ssh:///p", "ssh://h//p", "h://", "http:///h/p", "ssh://user@/p", "ssh://h:/p", "ssh://h:0/p",
    ];
    for s in FIXED {
        parse_and_judge(ctx, "fixed", s.as_bytes(), None);
    }

    // (one framework case = 32 inputs, to keep the per-case bookkeeping cheap)
    let n = ctx.n(6_000, 150_000);
    ctx.cases("strings", n, |ctx, r| {
      for _ in 0..32 {
        let mut g = match r.below(20) {
            0..=9 => gen_url_form(r),
            10..=14 => gen_scp_form(r),
            15..=17 => gen_local_form(r),
            18 => {
                if r.chance(1, 4) {
                    gen_long(r)
                } else {
                    gen_url_form(r)
                }
            }
            _ => gen_scp_form(r),
        };
        if r.chance(1, 4) {
            mutate(r, &mut g);
        }
        let origin = g.form;
        let text = std::mem::take(&mut g.text);
        parse_and_judge(ctx, origin, &text, Some(&g));
      }
    });

    let n = ctx.n(1_500, 30_000);
    ctx.cases("from_parts", n, |ctx, r| {
      for _ in 0..32 {
        let scheme = match r.below(8) {
            0 => Scheme::File,
            1 => Scheme::Git,
            2 | 3 => Scheme::Ssh,
            4 => Scheme::Http,
            5 => Scheme::Https,
            _ => Scheme::Ext(if r.bool() { (*r.pick(SCHEMES)).to_string() } else { word(r, 4) }),
        };
        let host = r.chance(5, 6).then(|| gen_host(r).0);
        // from_parts documents (via unreachable!) that a user needs a host
        let user = (host.is_some() && r.chance(1, 2)).then(|| gen_user(r).0);
        let password = (user.is_some() && r.chance(1, 3)).then(|| if r.chance(1, 5) { String::new() } else { word(r, 6) });
        let port = r.chance(1, 3).then(|| *r.pick(&[22u16, 80, 443, 9418, 0, 1, 65535, 2222]));
        let path: BString = match r.below(5) {
            0 => gen_scp_form(r).text.into(),
            1 => gen_local_form(r).text.into(),
            _ => gen_path(r).0.into(),
        };
        let alt = r.bool();
        ctx.count("from_parts_calls");
        let desc = json!({"scheme": scheme.as_str(), "user": user, "password": password, "host": host, "port": port, "path": show(&path), "alt": alt});
        let res = guard(|| Url::from_parts(scheme, user, password, host, port, path, alt));
        match res {
            Err(p) => ctx.panic_violation("Url::from_parts", &p, "from_parts", desc),
            Ok(Err(e)) => ctx.count(&format!("from_parts_rejected_{}", err_class(&e))),
            Ok(Ok(u)) => {
                let input = serde_json::to_vec(&desc).unwrap();
                judge(ctx, "from_parts", &input, &u, None);
            }
        }
      }
    });
}
