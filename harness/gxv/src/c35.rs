//! C35 Credential helper messages cannot be forged.
//! Oracles:
//!  * S  `Context::write_to` → `Context::from_bytes` gives back the same fields (round trip);
//!  * M  an independent splitter following git-credential's grammar (lines end at LF only, key up to the
//!       first '=', list ends at a blank line or EOF) must see exactly the attributes of the context:
//!       no extra, missing or altered attribute; a value with LF or NUL must be refused, not written;
//!  * process boundary (sampled): the same context sent through `helper::invoke` to a real `sh` helper that
//!       records its stdin and echoes it back: bytes on the pipe == write_to output, echoed identity == sent.
use crate::fw::{guard, show, Ctx, Rng};
use bstr::BString;
use gix_credentials::{helper, protocol::Context, Program};
use serde_json::json;

pub fn child(_mode: &str) {}

const FIELDS: [&str; 6] = ["url", "path", "protocol", "host", "username", "password"];

/// class of a generated value (for distinctness and signatures)
#[derive(Clone, Copy, Debug, PartialEq, Eq, Hash, PartialOrd, Ord)]
enum Class {
    Absent,
    Empty,
    Ascii,
    Equals,
    Space,
    CrStart,
    CrMiddle,
    CrEnd,
    CrOnly,
    Lf,
    CrLfInjection,
    Nul,
    Unicode,
    UnicodeLineSep,
    OtherControl,
    Long,
    NonUtf8,
}

fn word(r: &mut Rng) -> String {
    const W: &[&str] = &["https", "example.com", "user", "s3cr3t", "a/b.git", "x", "git", "host:8080", "p w", "ä", "me@corp"];
    r.pick(W).to_string()
}

/// a value for a string field (always UTF-8)
fn gen_value(r: &mut Rng) -> (Option<String>, Class) {
    let w = word(r);
    match r.below(34) {
        0..=4 => (None, Class::Absent),
        5 => (Some(String::new()), Class::Empty),
        6..=9 => (Some(w), Class::Ascii),
        10 => (Some(format!("{w}=x")), Class::Equals),
        11 => (Some(format!("=={w}=")), Class::Equals),
        12 => (Some(format!("password={w}")), Class::Equals),
        13 => (Some(format!(" {w}")), Class::Space),
        14 => (Some(format!("{w} \t")), Class::Space),
        15 => (Some(format!("\r{w}")), Class::CrStart),
        16 => (Some(format!("{w}\rpassword=evil")), Class::CrMiddle),
        17 | 18 => (Some(format!("{w}\r")), Class::CrEnd),
        19 => (Some(format!("{w}\r\r")), Class::CrEnd),
        20 => (Some("\r".into()), Class::CrOnly),
        21 => (Some(format!("{w}\npassword=evil")), Class::Lf),
        22 => (Some(format!("{w}\n")), Class::Lf),
        23 => (Some(format!("\n{w}")), Class::Lf),
        24 => (Some(format!("{w}\r\nhost=evil.example")), Class::CrLfInjection),
        25 => (Some(format!("{w}\0")), Class::Nul),
        26 => (Some(format!("\0{w}")), Class::Nul),
        27 => (Some(format!("{w}日本語✓{}", r.pick(&["", "é", "\u{1F600}"]))), Class::Unicode),
        28 => (Some(format!("{w}{}host=evil", r.pick(&["\u{2028}", "\u{2029}", "\u{85}"]))), Class::UnicodeLineSep),
        29 => (Some(format!("{w}{}x", r.pick(&["\x0b", "\x0c", "\x1b", "\x7f", "\x01"]))), Class::OtherControl),
        30 => {
            let n = 4096 + r.usize(64);
            let mut s: String = std::iter::repeat('a').take(n).collect();
            if r.chance(1, 3) {
                s.push('\r');
                return (Some(s), Class::CrEnd);
            }
            (Some(s), Class::Long)
        }
        _ => {
            // random short soup over the interesting alphabet
            let n = 1 + r.usize(6);
            let b = r.bytes_from(n, b"ab= \r\r\t:/@");
            let s = String::from_utf8(b).expect("ascii");
            let c = if s.ends_with('\r') {
                Class::CrEnd
            } else if s.starts_with('\r') {
                Class::CrStart
            } else if s.contains('\r') {
                Class::CrMiddle
            } else if s.contains('=') {
                Class::Equals
            } else {
                Class::Ascii
            };
            (Some(s), c)
        }
    }
}

/// a value for a byte-string field (url, path)
fn gen_bytes(r: &mut Rng) -> (Option<BString>, Class) {
    if r.chance(1, 6) {
        let w = word(r);
        let mut v = w.into_bytes();
        match r.below(4) {
            0 => v.extend_from_slice(b"\xff\xfe"),
            1 => v.insert(0, 0xc3),
            2 => v.extend_from_slice(b"\xe2\x80"),
            _ => {
                v.extend_from_slice(b"\xff\r");
                return (Some(v.into()), Class::CrEnd);
            }
        }
        return (Some(v.into()), Class::NonUtf8);
    }
    let (v, c) = gen_value(r);
    (v.map(|s| s.into_bytes().into()), c)
}

fn fields_of(c: &Context) -> [Option<Vec<u8>>; 6] {
    [
        c.url.as_ref().map(|v| v.to_vec()),
        c.path.as_ref().map(|v| v.to_vec()),
        c.protocol.as_ref().map(|v| v.clone().into_bytes()),
        c.host.as_ref().map(|v| v.clone().into_bytes()),
        c.username.as_ref().map(|v| v.clone().into_bytes()),
        c.password.as_ref().map(|v| v.clone().into_bytes()),
    ]
}

/// git-credential's grammar, independent of gitoxide and of bstr: LF-terminated lines, first '=' splits,
/// a blank line ends the list. Returns Err(description) for input a helper would mis-read.
fn independent_parse(out: &[u8]) -> Result<Vec<(Vec<u8>, Vec<u8>)>, String> {
    let mut attrs = Vec::new();
    if out.is_empty() {
        return Ok(attrs);
    }
    if *out.last().expect("non-empty") != b'\n' {
        return Err("last line is not LF-terminated".into());
    }
    let body = &out[..out.len() - 1];
    for line in body.split(|b| *b == b'\n') {
        if line.is_empty() {
            return Err("blank line inside the attribute list (a helper stops reading there)".into());
        }
        if line.contains(&0) {
            return Err("NUL inside a line".into());
        }
        match line.iter().position(|b| *b == b'=') {
            None => return Err(format!("line without '=': {}", show(line))),
            Some(p) => attrs.push((line[..p].to_vec(), line[p + 1..].to_vec())),
        }
    }
    Ok(attrs)
}

fn brief(v: &Option<Vec<u8>>) -> serde_json::Value {
    match v {
        None => json!(null),
        Some(b) if b.len() > 80 => json!(format!("{}…[{} bytes]…{}", show(&b[..20]), b.len(), show(&b[b.len() - 8..]))),
        Some(b) => json!(show(b)),
    }
}

fn witness(f: &[Option<Vec<u8>>; 6]) -> serde_json::Value {
    let mut m = serde_json::Map::new();
    for (k, v) in FIELDS.iter().zip(f) {
        m.insert(k.to_string(), brief(v));
    }
    m.into()
}

/// classify how a decoded field differs from the one sent
fn diff_class(sent: &Option<Vec<u8>>, got: &Option<Vec<u8>>) -> &'static str {
    match (sent, got) {
        (Some(s), Some(g)) if s.ends_with(b"\r") && g[..] == s[..s.len() - 1] => "trailing-CR",
        (Some(_), None) => "field-lost",
        (None, Some(_)) => "field-appeared",
        _ => "value-changed",
    }
}

struct Case {
    ctx: Context,
    classes: [Class; 6],
}

fn gen_case(r: &mut Rng) -> Case {
    let mut ctx = Context::default();
    let mut classes = [Class::Absent; 6];
    // most contexts have one or two special values, the rest plain; some are all-random
    let all_random = r.chance(1, 4);
    let special_a = r.usize(6);
    let special_b = r.usize(6);
    for i in 0..6 {
        let plain = !all_random && i != special_a && i != special_b;
        if i < 2 {
            let (v, c) = if plain {
                if r.chance(1, 2) {
                    (None, Class::Absent)
                } else {
                    (Some(BString::from(word(r))), Class::Ascii)
                }
            } else {
                gen_bytes(r)
            };
            classes[i] = c;
            if i == 0 {
                ctx.url = v
            } else {
                ctx.path = v
            }
        } else {
            let (v, c) = if plain {
                if r.chance(1, 3) {
                    (None, Class::Absent)
                } else {
                    (Some(word(r)), Class::Ascii)
                }
            } else {
                gen_value(r)
            };
            classes[i] = c;
            match i {
                2 => ctx.protocol = v,
                3 => ctx.host = v,
                4 => ctx.username = v,
                _ => ctx.password = v,
            }
        }
    }
    Case { ctx, classes }
}

fn in_memory_case(ctx: &mut Ctx, r: &mut Rng) {
    let case = gen_case(r);
    let sent = fields_of(&case.ctx);
    let mask: u8 = sent.iter().enumerate().map(|(i, f)| (f.is_some() as u8) << i).sum();
    let mut class_set = 0u32;
    for c in case.classes {
        class_set |= 1 << (c as u32);
    }
    let first_special = case.classes.iter().position(|c| !matches!(c, Class::Absent | Class::Ascii | Class::Empty));
    ctx.eval();
    ctx.distinct((mask, class_set, first_special));
    let forbidden = sent.iter().flatten().any(|v| v.contains(&b'\n') || v.contains(&0));
    let mut out = Vec::new();
    let res = match guard(|| case.ctx.write_to(&mut out)) {
        Ok(r) => r,
        Err(p) => {
            ctx.panic_violation("Context::write_to", &p, "context", witness(&sent));
            return;
        }
    };
    match res {
        Err(e) => {
            if forbidden {
                ctx.count("refused_with_lf_or_nul");
                if !out.is_empty() {
                    ctx.count("refused_after_partial_output");
                    // whatever was sent before the refusal must still be clean attributes of this context
                    match independent_parse(&out) {
                        Ok(attrs) => {
                            for (k, v) in attrs {
                                let idx = FIELDS.iter().position(|f| f.as_bytes() == &k[..]);
                                if idx.map_or(true, |i| sent[i].as_deref() != Some(&v[..])) {
                                    ctx.violation(
                                        "forgery|partial-output-has-foreign-attribute",
                                        "bytes written before the refusal contain an attribute that is not a field of the context",
                                        json!({"context": witness(&sent), "written": show(&out)}),
                                    );
                                }
                            }
                        }
                        Err(why) => ctx.violation(
                            "forgery|partial-output-malformed",
                            "bytes written before the refusal are not a clean attribute list",
                            json!({"context": witness(&sent), "written": show(&out[..out.len().min(200)]), "why": why}),
                        ),
                    }
                }
            } else {
                // not demanded by the statement (only that LF/NUL values are refused); recorded as coverage fact
                if sent.iter().flatten().any(|v| v.contains(&b'\r')) {
                    // refusing carriage returns as well is what git does since 2.48.1
                    ctx.count("refused_with_cr");
                    return;
                }
                ctx.count("refused_without_lf_or_nul");
                ctx.note("refused_without_lf_or_nul_example", json!({"context": witness(&sent), "err": e.to_string()}));
            }
            return;
        }
        Ok(()) => ctx.count("written"),
    }
    for c in case.classes {
        if c != Class::Absent {
            ctx.count(&format!("written_class_{:?}", c));
        }
    }
    if forbidden {
        ctx.violation(
            "forgery|value-with-LF-or-NUL-written",
            "a context with a value containing LF or NUL was written instead of refused",
            json!({"context": witness(&sent), "written": show(&out[..out.len().min(300)])}),
        );
        return;
    }
    // M: what a helper reading by git-credential's grammar sees
    let want_attrs: Vec<(Vec<u8>, Vec<u8>)> =
        FIELDS.iter().zip(&sent).filter_map(|(k, v)| v.as_ref().map(|v| (k.as_bytes().to_vec(), v.clone()))).collect();
    match independent_parse(&out) {
        Err(why) => {
            ctx.violation(
                "forgery|output-not-an-attribute-list",
                "written bytes are not a well-formed attribute list for an LF-splitting helper",
                json!({"context": witness(&sent), "written": show(&out[..out.len().min(300)]), "why": why}),
            );
            return;
        }
        Ok(mut attrs) => {
            let mut want = want_attrs.clone();
            attrs.sort();
            want.sort();
            if attrs != want {
                ctx.violation(
                    "forgery|attribute-list-differs",
                    "an LF-splitting helper sees attributes that differ from the context's fields (extra, missing or altered)",
                    json!({"context": witness(&sent), "seen": attrs.iter().map(|(k, v)| format!("{}={}", show(k), show(&v[..v.len().min(60)]))).collect::<Vec<_>>()}),
                );
                return;
            }
        }
    }
    // S: gitoxide's own decoder
    ctx.eval();
    let back = match guard(|| Context::from_bytes(&out)) {
        Ok(b) => b,
        Err(p) => {
            ctx.panic_violation("Context::from_bytes", &p, "context", witness(&sent));
            return;
        }
    };
    match back {
        Err(e) => ctx.violation(
            "roundtrip|decode-error",
            "from_bytes rejected what write_to produced",
            json!({"context": witness(&sent), "written": show(&out[..out.len().min(300)]), "err": e.to_string()}),
        ),
        Ok(b) => {
            let got = fields_of(&b);
            if let Some(i) = (0..6).find(|&i| got[i] != sent[i]) {
                let class = diff_class(&sent[i], &got[i]);
                ctx.violation(
                    &format!("roundtrip|{class}"),
                    "from_bytes(write_to(context)) differs from the context",
                    json!({"context": witness(&sent), "field": FIELDS[i], "sent": brief(&sent[i]), "decoded": brief(&got[i])}),
                );
            } else if b.quit.is_some() {
                ctx.violation("roundtrip|quit-appeared", "decoded context has a quit flag that was never sent", json!({"context": witness(&sent)}));
            } else {
                ctx.count("roundtrip_equal");
            }
        }
    }
    if ctx.want_sample() {
        ctx.sample(json!({"context": witness(&sent), "written": show(&out[..out.len().min(160)]), "classes": format!("{:?}", case.classes)}));
    }
}

/// the same through a real helper process
fn helper_case(ctx: &mut Ctx, r: &mut Rng, dir: &std::path::Path) {
    // only contexts write_to accepts: a refusal inside invoke leaves an un-waited helper child behind whose late start
    // would truncate the record of a later case
    let case = loop {
        let c = gen_case(r);
        if c.ctx.write_to(std::io::sink()).is_ok() {
            break c;
        }
    };
    let sent = fields_of(&case.ctx);
    let file = dir.join(format!("stdin-{:016x}.bin", r.next_u64()));
    let _ = std::fs::remove_file(&file);
    let script = format!("!f() {{ exec tee '{}'; }}; f", file.display());
    let mut program = Program::from_custom_definition(script).suppress_stderr();
    let action = helper::Action::Get(case.ctx.clone());
    ctx.eval();
    let res = match guard(|| helper::invoke(&mut program, &action)) {
        Ok(r) => r,
        Err(p) => {
            ctx.panic_violation("helper::invoke", &p, "context", witness(&sent));
            return;
        }
    };
    let mut expect = Vec::new();
    if case.ctx.write_to(&mut expect).is_err() {
        ctx.count("helper_refused");
        return;
    }
    let on_pipe = std::fs::read(&file);
    let _ = std::fs::remove_file(&file);
    let on_pipe = match on_pipe {
        Ok(b) => b,
        Err(e) => {
            ctx.inconclusive(&format!("helper did not record its stdin: {e}"));
            return;
        }
    };
    ctx.count("helper_invocations");
    if on_pipe != expect {
        ctx.violation(
            "helper|bytes-on-pipe-differ",
            "the helper process received bytes different from Context::write_to",
            json!({"context": witness(&sent), "on_pipe": show(&on_pipe[..on_pipe.len().min(300)]), "write_to": show(&expect[..expect.len().min(300)])}),
        );
        return;
    }
    match res {
        Err(e) => {
            // the helper only echoes: a decode failure of the echo is a round-trip failure
            ctx.violation(
                "roundtrip|decode-error",
                "gitoxide could not decode its own message echoed by the helper",
                json!({"context": witness(&sent), "err": e.to_string()}),
            );
        }
        Ok(None) => ctx.inconclusive("helper::invoke returned no outcome for a get action"),
        Ok(Some(outcome)) => {
            for (i, got) in [(4usize, outcome.username.clone()), (5, outcome.password.clone())] {
                let got = got.map(String::into_bytes);
                if got != sent[i] {
                    let class = diff_class(&sent[i], &got);
                    ctx.violation(
                        &format!("roundtrip|{class}"),
                        "identity echoed by a helper process differs from the one gitoxide sent",
                        json!({"context": witness(&sent), "field": FIELDS[i], "sent": brief(&sent[i]), "decoded": brief(&got), "via": "sh helper echoing its stdin"}),
                    );
                    return;
                }
            }
            ctx.count("helper_echo_equal");
        }
    }
}

pub fn run(ctx: &mut Ctx) {
    ctx.rule(
        "case = Context with each of url, path (byte strings, also non-UTF-8), protocol, host, username, password drawn from \
         {absent, empty, ascii, with '=', spaces, CR at start/middle/end/alone, LF, CR LF + attribute, NUL, unicode, U+2028/2029/0085, other controls, 4 KiB}; \
         one or two special fields per context (a quarter: all random). distinct = (set of present fields, set of value classes, first special field). \
         A sample of accepted contexts is also sent through helper::invoke to a real sh helper that records and echoes its stdin.",
    );
    ctx.assume("the quit attribute is helper→git only and is not part of what gitoxide sends; it is left unset");
    let n = ctx.n(60_000, 3_000_000);
    ctx.cases("context", n, in_memory_case);
    ctx.note("seconds_in_memory_part", json!((ctx.elapsed() * 10.0).round() / 10.0));
    let dir = ctx.dir("helper");
    let n = ctx.n(40, 1_500);
    // process start-up time depends on machine load: bound the time spent here (workload limit, not a verdict)
    let t0 = ctx.elapsed();
    let limit = if ctx.quick() { 15.0 } else { 150.0 };
    ctx.cases("helper-process", n, |ctx, r| {
        if ctx.replay.is_none() && ctx.elapsed() - t0 > limit {
            ctx.count("helper_cases_skipped_for_time");
            return;
        }
        helper_case(ctx, r, &dir)
    });
    if ctx.replay.is_none() && ctx.counter("written") == 0 {
        ctx.inconclusive("no context was accepted by write_to: nothing was compared");
    }
}
