//! C01 Object encoding round-trips and declares its exact size.
//! Oracles: size()==len(write_to) (S), decode(encode(v))==v on the round-trippable
//! sub-domain (S), id == independent SHA-1 == `git hash-object --literally` (G),
//! loose store header == size (S).
use crate::fw::{self, gen, git, guard, hex, show, Ctx, Rng};
use bstr::BString;
use gix_actor::Signature;
use gix_date::{time::Sign, Time};
use gix_hash::ObjectId;
use gix_object::{tree, Commit, Kind, Object, ObjectRef, Tag, Tree, WriteTo};
use serde_json::{json, Value};

pub fn child(_mode: &str) {}

fn rid(r: &mut Rng) -> ObjectId {
    let mut b = [0u8; 20];
    for x in b.iter_mut() {
        *x = r.next_u64() as u8;
    }
    ObjectId::from(b)
}

/// returns (time, whole_minutes_and_sign_consistent)
fn time(r: &mut Rng) -> (Time, bool) {
    let seconds = gen::boundary_i64(r);
    let (offset, exact): (i32, bool) = match r.below(6) {
        0 => (0, true),
        1 | 2 => ((r.range(0, 99) * 3600 + r.range(0, 59) * 60) as i32, true),
        3 => (*r.pick(&[99 * 3600 + 59 * 60, 14 * 3600, 3600, 60, 59 * 60]), true),
        _ => (r.range(0, 100 * 3600 - 1) as i32, false),
    };
    let neg = r.bool();
    let offset = if neg { -offset } else { offset };
    // sign agrees with offset value except when we deliberately pick -0000
    let (sign, consistent) = if offset == 0 {
        (if r.chance(1, 3) { Sign::Minus } else { Sign::Plus }, true)
    } else if r.chance(1, 12) {
        (if neg { Sign::Plus } else { Sign::Minus }, false)
    } else {
        (if neg { Sign::Minus } else { Sign::Plus }, true)
    };
    let whole = exact || offset % 60 == 0;
    (Time { seconds, offset, sign }, whole && consistent)
}

fn token(r: &mut Rng) -> BString {
    const WORDS: &[&str] = &["A", "U", "Thor", "é", "name", "x.y", "a@b", "日本", "o'b", "\"q\"", "\u{1}", "\u{7f}", "-", "="];
    let n = r.usize(4);
    let mut s = String::new();
    for i in 0..n {
        if i > 0 {
            s.push(*r.pick(&[' ', ' ', '\t', '.']));
        }
        s.push_str(*r.pick(WORDS));
    }
    let t = s.trim().to_string();
    t.into()
}

fn signature(r: &mut Rng) -> (Signature, bool) {
    let (t, rt) = time(r);
    (Signature { name: token(r), email: token(r), time: t }, rt)
}

fn message(r: &mut Rng) -> BString {
    match r.below(7) {
        0 => BString::from(""),
        1 => BString::from("subject"),
        2 => BString::from("subject\n\nbody\n"),
        3 => BString::from("\n\nleading newlines"),
        4 => {
            let n = r.usize(60);
            BString::from(r.bytes(n))
        }
        5 => BString::from("utf8 ✓\r\nwith crlf\r\n"),
        _ => {
            let n = r.usize(30);
            BString::from(r.bytes_from(n, b"ab \n\n\t-:"))
        }
    }
}

fn extra_header(r: &mut Rng) -> (BString, BString, u8) {
    let name = r.pick(&["gpgsig", "mergetag", "x-custom", "HG:rename-source", "gpgsig-sha256"]).to_string();
    let shape = r.below(8) as u8;
    let value: String = match shape {
        6 => "crlf first\r\nsecond\nthird\r\nlast".into(),
        7 => {
            let n = 1 + r.usize(24);
            String::from_utf8_lossy(&r.bytes_from(n, b"ab \n\r-\t")).to_string()
        }
        0 => "single line".into(),
        1 => "-----BEGIN PGP SIGNATURE-----\n\niQEzBAABCAAdFiEE\n=abcd\n-----END PGP SIGNATURE-----".into(),
        2 => "line one\nline two".into(),
        3 => "with trailing newline\n".into(),
        4 => "first\n\n\nafter empty inner lines".into(),
        _ => {
            let n = 1 + r.usize(20);
            String::from_utf8_lossy(&r.bytes_from(n, b"ab \n-")).to_string()
        }
    };
    (name.into(), value.into(), shape)
}

fn digits_class(s: i64) -> (bool, u32) {
    (s < 0, s.unsigned_abs().checked_ilog10().map_or(0, |d| d + 1))
}

struct Built {
    obj: Object,
    /// equality after decode is demanded
    roundtrip: bool,
    shape: (u8, u32, u32, u8, u16),
    times: Vec<Time>,
}

fn build(r: &mut Rng) -> Built {
    match r.below(10) {
        0..=4 => {
            let (author, rt1) = signature(r);
            let (committer, rt2) = signature(r);
            let np = *r.pick(&[0usize, 1, 1, 2, 3, 16]);
            let parents: Vec<ObjectId> = (0..np).map(|_| rid(r)).collect();
            let nh = r.usize(4);
            let mut hdr_bits = 0u16;
            let mut hdr_rt = true;
            let mut extra_headers = Vec::new();
            for _ in 0..nh {
                let (n, v, shape) = extra_header(r);
                hdr_bits |= 1 << shape;
                // values that end in a newline, start with one, or are random are outside the
                // sub-domain where decode is asked to reproduce the value byte for byte
                if shape == 3 || shape == 5 || shape == 7 {
                    hdr_rt = false;
                }
                extra_headers.push((n, v));
            }
            let encoding = if r.chance(1, 4) { Some(BString::from(*r.pick(&["ISO-8859-1", "UTF-8", "x"]))) } else { None };
            if encoding.is_some() {
                hdr_bits |= 0x8000;
            }
            let msg = message(r);
            let mclass = if msg.is_empty() { 0 } else if msg.ends_with(b"\n") { 1 } else { 2 };
            let times = vec![author.time, committer.time];
            let (neg, d) = digits_class(author.time.seconds);
            let (neg2, d2) = digits_class(committer.time.seconds);
            Built {
                obj: Object::Commit(Commit {
                    tree: rid(r),
                    parents: parents.into(),
                    author,
                    committer,
                    encoding,
                    message: msg,
                    extra_headers,
                }),
                roundtrip: rt1 && rt2 && hdr_rt,
                shape: (0, d + if neg { 100 } else { 0 }, d2 + if neg2 { 100 } else { 0 }, np.min(3) as u8 | (mclass << 4), hdr_bits),
                times,
            }
        }
        5 | 6 => {
            let with_tagger = r.chance(3, 4);
            let (tagger, rt) = if with_tagger {
                let (s, rt) = signature(r);
                (Some(s), rt)
            } else {
                (None, true)
            };
            let with_sig = r.chance(1, 3);
            let pgp = with_sig.then(|| BString::from("-----BEGIN PGP SIGNATURE-----\n\nabc\n-----END PGP SIGNATURE-----\n"));
            let msg = match r.below(4) {
                0 => BString::from(""),
                1 => BString::from("tag message\n"),
                2 => BString::from("no trailing newline"),
                _ => BString::from("multi\n\nline ✓\n"),
            };
            let name = r.pick(&["v1.0", "a", "rel/1", "ü", "v1.0-rc.1", "x_y"]).to_string();
            let kind = *r.pick(&[Kind::Commit, Kind::Tree, Kind::Blob, Kind::Tag]);
            let times: Vec<Time> = tagger.iter().map(|t| t.time).collect();
            let (neg, d) = times.first().map(|t| digits_class(t.seconds)).unwrap_or((false, 0));
            // a tag without message but with signature, or a message w/o trailing newline followed
            // by a signature, is encoded with a separating newline that decode attributes differently
            let rt_msg = !with_sig || msg.ends_with(b"\n") || msg.is_empty();
            let mclass = if msg.is_empty() { 0 } else if msg.ends_with(b"\n") { 1 } else { 2 };
            Built {
                obj: Object::Tag(Tag { target: rid(r), target_kind: kind, name: name.into(), tagger, message: msg, pgp_signature: pgp }),
                roundtrip: rt && rt_msg && !with_sig,
                shape: (1, d + if neg { 100 } else { 0 }, with_tagger as u32, mclass, with_sig as u16),
                times,
            }
        }
        7 | 8 => {
            let n = r.usize(41);
            let mut entries = Vec::new();
            let mut seen = std::collections::HashSet::new();
            let mut kinds = 0u8;
            for _ in 0..n {
                let nl = 1 + r.usize(6);
                let mut name = r.bytes_from(nl, b"ab.-_0A\x01\x7f\x80\xff +");
                if r.chance(1, 10) {
                    name = "é✓".as_bytes().to_vec();
                }
                if !seen.insert(name.clone()) {
                    continue;
                }
                let k = r.below(5);
                kinds |= 1 << k;
                let mode = match k {
                    0 => tree::EntryKind::Tree,
                    1 => tree::EntryKind::Blob,
                    2 => tree::EntryKind::BlobExecutable,
                    3 => tree::EntryKind::Link,
                    _ => tree::EntryKind::Commit,
                };
                entries.push(tree::Entry { mode: mode.into(), filename: name.into(), oid: rid(r) });
            }
            entries.sort();
            let len = entries.len();
            Built {
                obj: Object::Tree(Tree { entries }),
                roundtrip: true,
                shape: (2, len.min(8) as u32, (len > 8) as u32, kinds, 0),
                times: vec![],
            }
        }
        _ => {
            let n = *r.pick(&[0usize, 1, 10, 100, 5000]);
            let data = r.bytes(n);
            Built {
                obj: Object::Blob(gix_object::Blob { data }),
                roundtrip: true,
                shape: (3, n as u32, 0, 0, 0),
                times: vec![],
            }
        }
    }
}

fn time_shape(times: &[Time]) -> &'static str {
    for t in times {
        let mut b = Vec::new();
        if t.write_to(&mut b).is_ok() && b.len() != t.size() {
            let s = t.seconds;
            if s < 0 && s != i64::MIN {
                let a = s.unsigned_abs();
                let mut p = 1u64;
                let mut is_pow = false;
                for _ in 0..19 {
                    if a == p {
                        is_pow = true;
                    }
                    p = p.saturating_mul(10);
                }
                if is_pow && a >= 10 {
                    return "time=neg-power-of-ten";
                }
            }
            return "time=other";
        }
    }
    "no-time-mismatch"
}

/// Multi-line extra header values `X\nY` and `X\nY\n` have the same encoding; the decoder
/// returns the form with the trailing newline. Equality is therefore taken modulo one trailing
/// newline of values that contain a newline.
fn equal_modulo_header_newline(a: &Object, b: &Object) -> bool {
    fn norm(o: &Object) -> Object {
        let mut o = o.clone();
        if let Object::Commit(c) = &mut o {
            for (_, v) in c.extra_headers.iter_mut() {
                if v.contains(&b'\n') && v.ends_with(b"\n") {
                    v.pop();
                }
            }
        }
        o
    }
    norm(a) == norm(b)
}

fn describe(o: &Object) -> Value {
    let mut b = Vec::new();
    let _ = o.write_to(&mut b);
    json!({"kind": o.kind().to_string(), "debug": format!("{:?}", o).chars().take(1500).collect::<String>(), "encoded": show(&b[..b.len().min(800)])})
}

pub fn run(ctx: &mut Ctx) {
    ctx.rule("case = one owned Commit/Tag/Tree/Blob value with boundary-biased times; distinct by (kind, digit-count+sign class of each time, #parents, header-shape bitmap, message-terminator class)");
    ctx.assume("decode equality is demanded only for whole-minute offsets whose sign matches, single/multi-line extra header values that do not end in a newline, and tags without PGP block");
    let scratch = ctx.dir("odb");
    let gitdir = ctx.dir("git");
    let git_ok = git::init(&gitdir, true).is_ok();
    if !git_ok {
        ctx.inconclusive("git init failed; git id oracle unavailable");
    }
    let store = gix_odb::loose::Store::at(&scratch, gix_hash::Kind::Sha1);
    let n = ctx.n(20_000, 1_500_000);
    let git_every = if ctx.quick() { 60 } else { 400 };
    let loose_every = if ctx.quick() { 40 } else { 150 };
    let mut i = 0u64;
    ctx.cases("object", n, |ctx, r| {
        i += 1;
        let b = build(r);
        ctx.eval();
        let kind = b.obj.kind();
        let mut bytes = Vec::new();
        let wr = guard(|| b.obj.write_to(&mut bytes));
        match wr {
            Err(p) => {
                ctx.panic_violation("write_to", &p, &kind.to_string(), json!({"value": format!("{:?}", b.obj)}));
                return;
            }
            Ok(Err(_)) => {
                ctx.count("writer_rejected");
                return;
            }
            Ok(Ok(())) => {}
        }
        ctx.distinct(b.shape);
        let declared = match guard(|| b.obj.size()) {
            Ok(s) => s,
            Err(p) => {
                ctx.panic_violation("size", &p, &kind.to_string(), describe(&b.obj));
                return;
            }
        };
        if declared != bytes.len() as u64 {
            let sig = format!("size-mismatch|{}|{}", kind, time_shape(&b.times));
            let mut w = describe(&b.obj);
            w["declared_size"] = json!(declared);
            w["written_len"] = json!(bytes.len());
            ctx.violation(&sig, &format!("{kind}: size() = {declared} but write_to wrote {} bytes", bytes.len()), w);
        }
        let hdr = b.obj.loose_header();
        let want_hdr = format!("{} {}\0", kind, bytes.len());
        if hdr.as_slice() != want_hdr.as_bytes() && declared == bytes.len() as u64 {
            ctx.violation(&format!("loose-header|{kind}"), "loose_header() does not name the written length", json!({"header": show(&hdr), "want": show(want_hdr.as_bytes())}));
        }
        // id: gitoxide vs independent sha1
        let id = gix_object::compute_hash(gix_hash::Kind::Sha1, kind, &bytes);
        let want = fw::git_oid(&kind.to_string(), &bytes);
        if id.as_bytes() != want {
            ctx.violation(&format!("id-mismatch|{kind}|independent-sha1"), "compute_hash differs from sha1(header+bytes)", json!({"got": id.to_string(), "want": hex(&want), "encoded": show(&bytes[..bytes.len().min(400)])}));
        }
        if git_ok && i % git_every == 0 {
            match git::run_in(&gitdir, &["hash-object", "--literally", "-t", &kind.to_string(), "--stdin"], &bytes) {
                Ok(o) if o.ok => {
                    ctx.count("git_hash_object_calls");
                    if o.text() != id.to_string() {
                        ctx.violation(&format!("id-mismatch|{kind}|git"), "id differs from git hash-object", json!({"got": id.to_string(), "git": o.text(), "encoded": show(&bytes[..bytes.len().min(400)])}));
                    }
                }
                _ => ctx.inconclusive("git hash-object failed"),
            }
        }
        // decode
        match guard(|| ObjectRef::from_bytes(kind, &bytes).map(|o| o.into_owned())) {
            Err(p) => ctx.panic_violation("ObjectRef::from_bytes", &p, &kind.to_string(), describe(&b.obj)),
            Ok(Err(e)) => {
                if b.roundtrip {
                    ctx.violation(&format!("decode-rejects|{kind}"), &format!("decoder rejects what the encoder wrote: {e}"), describe(&b.obj));
                } else {
                    ctx.count("decode_rejected_outside_roundtrip_domain");
                }
            }
            Ok(Ok(back)) => {
                if b.roundtrip {
                    ctx.count("roundtrip_compared");
                    if !equal_modulo_header_newline(&back, &b.obj) {
                        let mut w = describe(&b.obj);
                        w["decoded"] = json!(format!("{:?}", back).chars().take(1500).collect::<String>());
                        ctx.violation(&format!("roundtrip|{kind}"), "decode(encode(v)) != v", w);
                    }
                } else {
                    // still: re-encoding the decoded value must reproduce the bytes
                    let mut again = Vec::new();
                    if back.write_to(&mut again).is_ok() && again != bytes {
                        ctx.count("reencode_differs_outside_roundtrip_domain");
                    }
                }
            }
        }
        // loose store: header in file equals size
        if i % loose_every == 0 {
            match guard(|| gix_odb::Write::write(&store, &b.obj)) {
                Err(p) => ctx.panic_violation("loose::Store::write", &p, &kind.to_string(), describe(&b.obj)),
                Ok(Err(e)) => {
                    // a size mismatch may surface here as an error of the writer
                    ctx.count("loose_write_errors");
                    if declared == bytes.len() as u64 {
                        ctx.violation(&format!("loose-write-fails|{kind}"), &format!("loose write of a writable value failed: {e}"), describe(&b.obj));
                    }
                }
                Ok(Ok(wid)) => {
                    ctx.count("loose_writes");
                    let h = wid.to_string();
                    let path = scratch.join(&h[..2]).join(&h[2..]);
                    if let Ok(raw) = std::fs::read(&path) {
                        use std::io::Read;
                        let mut inflated = Vec::new();
                        let _ = flate2::read::ZlibDecoder::new(&raw[..]).read_to_end(&mut inflated);
                        let mut expect = want_hdr.as_bytes().to_vec();
                        expect.extend_from_slice(&bytes);
                        if inflated != expect {
                            let nul = inflated.iter().position(|b| *b == 0).unwrap_or(inflated.len().min(30));
                            let sig = format!("loose-file|{}|{}", kind, time_shape(&b.times));
                            ctx.violation(&sig, "loose file content is not '<kind> <len>\\0' + bytes", json!({"file_header": show(&inflated[..nul]), "want_header": show(want_hdr.as_bytes()), "value": describe(&b.obj)}));
                        }
                        if wid.as_bytes() != want && declared == bytes.len() as u64 {
                            ctx.violation(&format!("loose-id|{kind}"), "loose write returned an id that is not sha1 of the content", json!({"got": h, "want": hex(&want)}));
                        }
                        let _ = std::fs::remove_file(&path);
                    } else if declared == bytes.len() as u64 {
                        ctx.violation(&format!("loose-file-missing|{kind}"), "loose write reported an id whose file does not exist", json!({"id": h}));
                    }
                }
            }
        }
        if ctx.want_sample() {
            ctx.sample(json!({"kind": kind.to_string(), "size": declared, "id": id.to_string(), "encoded_head": show(&bytes[..bytes.len().min(160)])}));
        }
    });
}
